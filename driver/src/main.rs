// enr-facts: a rustc_private driver that serialises the type-checked program
// (items, visibilities, evaluated constants, MIR bodies with resolved callees)
// of the crate named `enr` to one JSON file. It runs nothing of the crate.
//
// Used as RUSTC_WORKSPACE_WRAPPER under `cargo +nightly check`; see
// /verif/analysis/extract.py for the invocation.
#![feature(rustc_private)]
#![allow(clippy::all)]

extern crate rustc_abi;
extern crate rustc_driver;
extern crate rustc_hir;
extern crate rustc_interface;
extern crate rustc_middle;
extern crate rustc_span;

mod json;
use json::J;

use rustc_hir::def::DefKind;
use rustc_hir::def_id::{DefId, LocalDefId, LOCAL_CRATE};
use rustc_middle::mir::{self, interpret::GlobalAlloc, ConstValue};
use rustc_middle::ty::print::{with_no_trimmed_paths, PrintTraitRefExt};
use rustc_middle::ty::{self, Ty, TyCtxt};
use rustc_span::{Span, DUMMY_SP};

struct Cb;

impl rustc_driver::Callbacks for Cb {
    fn after_analysis<'tcx>(
        &mut self,
        _c: &rustc_interface::interface::Compiler,
        tcx: TyCtxt<'tcx>,
    ) -> rustc_driver::Compilation {
        let target = std::env::var("ENR_FACTS_CRATE").unwrap_or_else(|_| "enr".to_string());
        if tcx.crate_name(LOCAL_CRATE).as_str() == target {
            if let Ok(out) = std::env::var("ENR_FACTS_OUT") {
                let j = with_no_trimmed_paths!(dump(tcx));
                let mut s = String::new();
                j.write(&mut s);
                // one write per process
                std::fs::write(&out, s).expect("cannot write facts");
            }
        }
        rustc_driver::Compilation::Continue
    }
}

fn main() {
    let mut args: Vec<String> = std::env::args().collect();
    // RUSTC_WORKSPACE_WRAPPER mode: argv[1] is the path of the real rustc.
    if args.len() > 1 && (args[1].ends_with("rustc") || args[1].contains("/rustc")) {
        args.remove(1);
    }
    rustc_driver::run_compiler(&args, &mut Cb);
}

fn span_str(tcx: TyCtxt<'_>, sp: Span) -> String {
    if sp.is_dummy() {
        return "?".to_string();
    }
    let sm = tcx.sess.source_map();
    // map macro-expanded spans to their call site in the crate
    let sp = sp.source_callsite();
    let loc = sm.lookup_char_pos(sp.lo());
    let name = format!("{}", loc.file.name.prefer_local_unconditionally());
    format!("{}:{}", name, loc.line)
}

fn ty_str<'tcx>(t: Ty<'tcx>) -> String {
    format!("{}", t)
}

/// A structural description of a type, used by the rules to recognise
/// references, ADTs (by def path), arrays (with evaluated length) and ints.
fn ty_j<'tcx>(tcx: TyCtxt<'tcx>, t: Ty<'tcx>, depth: usize) -> J {
    let mut o = vec![("s".to_string(), J::Str(ty_str(t)))];
    if depth > 3 {
        return J::Obj(o);
    }
    match t.kind() {
        ty::Ref(_, inner, m) => {
            o.push(("k".into(), J::s("ref")));
            o.push(("mut".into(), J::Bool(m.is_mut())));
            o.push(("of".into(), ty_j(tcx, *inner, depth + 1)));
        }
        ty::RawPtr(inner, m) => {
            o.push(("k".into(), J::s("ptr")));
            o.push(("mut".into(), J::Bool(m.is_mut())));
            o.push(("of".into(), ty_j(tcx, *inner, depth + 1)));
        }
        ty::Adt(def, args) => {
            o.push(("k".into(), J::s("adt")));
            o.push(("adt".into(), J::Str(tcx.def_path_str(def.did()))));
            let a: Vec<J> = args
                .iter()
                .filter_map(|g| g.as_type().map(|t| ty_j(tcx, t, depth + 1)))
                .collect();
            o.push(("args".into(), J::Arr(a)));
        }
        ty::Array(e, n) => {
            o.push(("k".into(), J::s("array")));
            o.push(("of".into(), ty_j(tcx, *e, depth + 1)));
            if let Some(n) = n.try_to_target_usize(tcx) {
                o.push(("n".into(), J::Num(n as i128)));
            } else if let ty::ConstKind::Param(p) = n.kind() {
                o.push(("n_param".into(), J::Str(p.name.to_string())));
            }
        }
        ty::Slice(e) => {
            o.push(("k".into(), J::s("slice")));
            o.push(("of".into(), ty_j(tcx, *e, depth + 1)));
        }
        ty::Str => o.push(("k".into(), J::s("str"))),
        ty::Bool => o.push(("k".into(), J::s("bool"))),
        ty::Int(_) | ty::Uint(_) => o.push(("k".into(), J::s("int"))),
        ty::Tuple(ts) => {
            o.push(("k".into(), J::s("tuple")));
            o.push((
                "args".into(),
                J::Arr(ts.iter().map(|t| ty_j(tcx, t, depth + 1)).collect()),
            ));
        }
        ty::Param(_) => o.push(("k".into(), J::s("param"))),
        ty::Alias(..) => o.push(("k".into(), J::s("alias"))),
        ty::FnDef(did, _) => {
            o.push(("k".into(), J::s("fndef")));
            o.push(("fn".into(), J::Str(tcx.def_path_str(*did))));
        }
        ty::Closure(did, _) => {
            o.push(("k".into(), J::s("closure")));
            o.push(("fn".into(), J::Str(tcx.def_path_str(*did))));
        }
        ty::Dynamic(..) => o.push(("k".into(), J::s("dyn"))),
        _ => o.push(("k".into(), J::s("other"))),
    }
    J::Obj(o)
}

fn vis_str(tcx: TyCtxt<'_>, v: ty::Visibility<DefId>) -> String {
    match v {
        ty::Visibility::Public => "pub".to_string(),
        ty::Visibility::Restricted(d) => format!("restricted:{}", tcx.def_path_str(d)),
    }
}

fn dump<'tcx>(tcx: TyCtxt<'tcx>) -> J {
    let mut root: Vec<(String, J)> = Vec::new();
    root.push(("crate".into(), J::Str(tcx.crate_name(LOCAL_CRATE).to_string())));
    root.push((
        "run_id".into(),
        J::Str(std::env::var("ENR_FACTS_RUN_ID").unwrap_or_default()),
    ));
    root.push((
        "config".into(),
        J::Str(std::env::var("ENR_FACTS_CONFIG").unwrap_or_default()),
    ));
    root.push((
        "rustc".into(),
        J::Str(option_env!("CFG_VERSION").unwrap_or("nightly").to_string()),
    ));
    // enabled cargo features as seen by the compiler
    let mut feats: Vec<J> = Vec::new();
    for (name, val) in tcx.sess.config.iter() {
        if name.as_str() == "feature" {
            if let Some(v) = val {
                feats.push(J::Str(v.to_string()));
            }
        }
    }
    root.push(("features".into(), J::Arr(feats)));

    let eff = tcx.effective_visibilities(());

    // ---- items: ADTs, consts, impls, traits
    let mut adts: Vec<J> = Vec::new();
    let mut consts: Vec<J> = Vec::new();
    let mut impls: Vec<J> = Vec::new();
    let mut items: Vec<J> = Vec::new();
    let defs: Vec<LocalDefId> = tcx.hir_crate_items(()).definitions().collect();
    for ldid in defs {
        let did = ldid.to_def_id();
        let kind = tcx.def_kind(did);
        match kind {
            DefKind::Struct | DefKind::Enum | DefKind::Union => {
                let adt = tcx.adt_def(did);
                let mut variants = Vec::new();
                for v in adt.variants().iter() {
                    let mut fields = Vec::new();
                    for f in v.fields.iter() {
                        let fty = tcx.type_of(f.did).instantiate_identity().skip_norm_wip();
                        fields.push(J::Obj(vec![
                            ("name".into(), J::Str(f.name.to_string())),
                            ("ty".into(), ty_j(tcx, fty, 0)),
                            ("vis".into(), J::Str(vis_str(tcx, f.vis))),
                        ]));
                    }
                    variants.push(J::Obj(vec![
                        ("name".into(), J::Str(v.name.to_string())),
                        ("fields".into(), J::Arr(fields)),
                    ]));
                }
                adts.push(J::Obj(vec![
                    ("path".into(), J::Str(tcx.def_path_str(did))),
                    ("kind".into(), J::Str(format!("{:?}", kind))),
                    ("vis".into(), J::Str(vis_str(tcx, tcx.visibility(did)))),
                    ("reachable".into(), J::Bool(eff.is_reachable(ldid))),
                    ("span".into(), J::Str(span_str(tcx, tcx.def_span(did)))),
                    ("variants".into(), J::Arr(variants)),
                ]));
            }
            DefKind::Const { .. } | DefKind::AssocConst { .. } => {
                let ty = tcx.type_of(did).instantiate_identity().skip_norm_wip();
                let val = match tcx.const_eval_poly(did) {
                    Ok(cv) => const_value_j(tcx, cv, ty),
                    Err(_) => J::Obj(vec![("opaque".into(), J::s("too generic"))]),
                };
                consts.push(J::Obj(vec![
                    ("path".into(), J::Str(tcx.def_path_str(did))),
                    ("ty".into(), J::Str(ty_str(ty))),
                    ("vis".into(), J::Str(vis_str(tcx, tcx.visibility(did)))),
                    ("span".into(), J::Str(span_str(tcx, tcx.def_span(did)))),
                    ("val".into(), val),
                ]));
            }
            DefKind::Impl { of_trait } => {
                let self_ty = tcx.type_of(did).instantiate_identity().skip_norm_wip();
                let tr = if of_trait {
                    let tr = tcx.impl_trait_ref(did).instantiate_identity().skip_norm_wip();
                    J::Str(format!("{}", tr.print_only_trait_path()))
                } else {
                    J::Null
                };
                let mut fns = Vec::new();
                for it in tcx.associated_items(did).in_definition_order() {
                    fns.push(J::Str(tcx.def_path_str(it.def_id)));
                }
                impls.push(J::Obj(vec![
                    ("self_ty".into(), ty_j(tcx, self_ty, 0)),
                    ("trait".into(), tr),
                    ("span".into(), J::Str(span_str(tcx, tcx.def_span(did)))),
                    ("items".into(), J::Arr(fns)),
                ]));
            }
            DefKind::Fn | DefKind::AssocFn | DefKind::Static { .. } | DefKind::Trait
            | DefKind::TyAlias | DefKind::Mod | DefKind::Macro(..) => {
                let vis = match kind {
                    DefKind::Fn | DefKind::AssocFn | DefKind::Static { .. } | DefKind::Trait
                    | DefKind::TyAlias | DefKind::Mod => vis_str(tcx, tcx.visibility(did)),
                    _ => "?".to_string(),
                };
                let mut it = vec![
                    ("path".into(), J::Str(tcx.def_path_str(did))),
                    ("kind".into(), J::Str(format!("{:?}", kind))),
                    ("vis".into(), J::Str(vis)),
                    ("reachable".into(), J::Bool(eff.is_reachable(ldid))),
                ];
                if matches!(kind, DefKind::Static { .. }) {
                    // what makes a static a carrier of state between calls
                    let sty = tcx.type_of(did).instantiate_identity().skip_norm_wip();
                    let env = ty::TypingEnv::post_analysis(tcx, did);
                    it.push(("static".into(), J::Bool(true)));
                    it.push(("ty".into(), J::Str(ty_str(sty))));
                    it.push(("mut".into(), J::Bool(tcx.is_mutable_static(did))));
                    it.push(("thread_local".into(), J::Bool(tcx.is_thread_local_static(did))));
                    it.push(("freeze".into(), J::Bool(sty.is_freeze(tcx, env))));
                    it.push(("span".into(), J::Str(span_str(tcx, tcx.def_span(did)))));
                }
                items.push(J::Obj(it));
            }
            _ => {}
        }
    }
    root.push(("adts".into(), J::Arr(adts)));
    root.push(("consts".into(), J::Arr(consts)));
    root.push(("impls".into(), J::Arr(impls)));
    root.push(("items".into(), J::Arr(items)));

    // ---- bodies
    let mut fns: Vec<J> = Vec::new();
    for &ldid in tcx.mir_keys(()).iter() {
        let did = ldid.to_def_id();
        let kind = tcx.def_kind(did);
        let body: &mir::Body<'tcx> = match kind {
            DefKind::Fn | DefKind::AssocFn | DefKind::Closure => tcx.optimized_mir(did),
            DefKind::Const { .. } | DefKind::AssocConst { .. } | DefKind::Static { .. } => {
                tcx.mir_for_ctfe(did)
            }
            _ => continue,
        };
        fns.push(fn_j(tcx, ldid, kind, body, eff));
    }
    root.push(("fns".into(), J::Arr(fns)));

    // ---- unsafe census (HIR): unsafe blocks and unsafe impls; unsafe fns are
    // visible through each fn's `unsafe` flag.
    let mut uv = UnsafeVisitor { tcx, found: Vec::new() };
    tcx.hir_walk_toplevel_module(&mut uv);
    root.push(("unsafe_sites".into(), J::Arr(uv.found)));
    J::Obj(root)
}

fn fn_j<'tcx>(
    tcx: TyCtxt<'tcx>,
    ldid: LocalDefId,
    kind: DefKind,
    body: &mir::Body<'tcx>,
    eff: &rustc_middle::middle::privacy::EffectiveVisibilities,
) -> J {
    let did = ldid.to_def_id();
    let mut o: Vec<(String, J)> = Vec::new();
    o.push(("path".into(), J::Str(tcx.def_path_str(did))));
    o.push(("kind".into(), J::Str(format!("{:?}", kind))));
    o.push(("span".into(), J::Str(span_str(tcx, tcx.def_span(did)))));
    let is_fn = matches!(kind, DefKind::Fn | DefKind::AssocFn);
    if is_fn {
        o.push(("vis".into(), J::Str(vis_str(tcx, tcx.visibility(did)))));
        o.push(("reachable".into(), J::Bool(eff.is_reachable(ldid))));
        let sig = tcx.fn_sig(did).instantiate_identity().skip_norm_wip().skip_binder();
        o.push((
            "inputs".into(),
            J::Arr(sig.inputs().iter().map(|t| ty_j(tcx, *t, 0)).collect()),
        ));
        o.push(("output".into(), ty_j(tcx, sig.output(), 0)));
        o.push(("unsafe".into(), J::Bool(!sig.safety().is_safe())));
        o.push(("const".into(), J::Bool(tcx.is_const_fn(did))));
    }
    if matches!(kind, DefKind::Closure) {
        o.push((
            "parent".into(),
            J::Str(tcx.def_path_str(tcx.typeck_root_def_id(did))),
        ));
    }
    if matches!(kind, DefKind::AssocFn) {
        let parent = tcx.parent(did);
        o.push(("name".into(), J::Str(tcx.item_name(did).to_string())));
        if let DefKind::Impl { of_trait } = tcx.def_kind(parent) {
            let self_ty = tcx.type_of(parent).instantiate_identity().skip_norm_wip();
            o.push(("impl_self".into(), ty_j(tcx, self_ty, 0)));
            if of_trait {
                let tr = tcx.impl_trait_ref(parent).instantiate_identity().skip_norm_wip();
                o.push((
                    "impl_trait".into(),
                    J::Str(format!("{}", tr.print_only_trait_path())),
                ));
            }
        } else if matches!(tcx.def_kind(parent), DefKind::Trait) {
            o.push(("in_trait".into(), J::Str(tcx.def_path_str(parent))));
        }
    } else if matches!(kind, DefKind::Fn) {
        o.push(("name".into(), J::Str(tcx.item_name(did).to_string())));
    }
    let generics = tcx.generics_of(did);
    let mut gs = Vec::new();
    for i in 0..generics.count() {
        gs.push(J::Str(generics.param_at(i, tcx).name.to_string()));
    }
    o.push(("generics".into(), J::Arr(gs)));
    // names of the *type* parameters, in the order in which a call's `targs` lists their instantiation
    let mut gts = Vec::new();
    for i in 0..generics.count() {
        let p = generics.param_at(i, tcx);
        if matches!(p.kind, ty::GenericParamDefKind::Type { .. }) {
            gts.push(J::Str(p.name.to_string()));
        }
    }
    o.push(("generic_types".into(), J::Arr(gts)));
    let mut gcs = Vec::new();
    for i in 0..generics.count() {
        let p = generics.param_at(i, tcx);
        if matches!(p.kind, ty::GenericParamDefKind::Const { .. }) {
            gcs.push(J::Str(p.name.to_string()));
        }
    }
    o.push(("generic_consts".into(), J::Arr(gcs)));

    o.push(("body".into(), body_j(tcx, did, body)));
    // promoted constants' bodies are not dumped; they are evaluated at use sites.
    J::Obj(o)
}

fn body_j<'tcx>(tcx: TyCtxt<'tcx>, owner: DefId, body: &mir::Body<'tcx>) -> J {
    let cx = Cx {
        tcx,
        owner,
        body,
        env: ty::TypingEnv::post_analysis(tcx, owner),
    };
    let mut names: Vec<Option<String>> = vec![None; body.local_decls.len()];
    for vdi in body.var_debug_info.iter() {
        if let mir::VarDebugInfoContents::Place(p) = &vdi.value {
            if p.projection.is_empty() {
                names[p.local.as_usize()] = Some(vdi.name.to_string());
            }
        }
    }
    let mut locals = Vec::new();
    for (l, decl) in body.local_decls.iter_enumerated() {
        let mut lo = vec![("ty".to_string(), ty_j(tcx, decl.ty, 0))];
        if let Some(n) = &names[l.as_usize()] {
            lo.push(("name".into(), J::Str(n.clone())));
        }
        locals.push(J::Obj(lo));
    }
    let mut blocks = Vec::new();
    for (_bb, data) in body.basic_blocks.iter_enumerated() {
        let mut stmts = Vec::new();
        for st in data.statements.iter() {
            if let Some(j) = cx.stmt_j(st) {
                stmts.push(j);
            }
        }
        let term = cx.term_j(data.terminator());
        blocks.push(J::Obj(vec![
            ("cleanup".into(), J::Bool(data.is_cleanup)),
            ("stmts".into(), J::Arr(stmts)),
            ("term".into(), term),
        ]));
    }
    J::Obj(vec![
        ("arg_count".into(), J::Num(body.arg_count as i128)),
        ("locals".into(), J::Arr(locals)),
        ("blocks".into(), J::Arr(blocks)),
    ])
}

struct Cx<'a, 'tcx> {
    tcx: TyCtxt<'tcx>,
    owner: DefId,
    body: &'a mir::Body<'tcx>,
    env: ty::TypingEnv<'tcx>,
}

impl<'a, 'tcx> Cx<'a, 'tcx> {
    fn sp(&self, si: &mir::SourceInfo) -> Vec<(String, J)> {
        vec![
            ("sp".to_string(), J::Str(span_str(self.tcx, si.span))),
            ("exp".to_string(), J::Bool(si.span.from_expansion())),
        ]
    }

    fn place_j(&self, p: &mir::Place<'tcx>) -> J {
        let tcx = self.tcx;
        let mut pty = mir::PlaceTy::from_ty(self.body.local_decls[p.local].ty);
        let mut proj = Vec::new();
        for elem in p.projection.iter() {
            let j = match elem {
                mir::ProjectionElem::Deref => J::s("deref"),
                mir::ProjectionElem::Field(f, fty) => {
                    let mut name = format!("{}", f.as_usize());
                    let mut adt_path = None;
                    if let ty::Adt(def, _) = pty.ty.kind() {
                        let vidx = pty.variant_index.unwrap_or(rustc_abi::FIRST_VARIANT);
                        if def.variants().len() > vidx.as_usize() {
                            let v = def.variant(vidx);
                            if v.fields.len() > f.as_usize() {
                                name = v.fields[f].name.to_string();
                            }
                        }
                        adt_path = Some(tcx.def_path_str(def.did()));
                    }
                    let mut fo = vec![
                        ("f".to_string(), J::Num(f.as_usize() as i128)),
                        ("name".to_string(), J::Str(name)),
                        ("ty".to_string(), J::Str(ty_str(fty))),
                    ];
                    if let Some(a) = adt_path {
                        fo.push(("adt".into(), J::Str(a)));
                    }
                    J::Obj(fo)
                }
                mir::ProjectionElem::Index(l) => {
                    J::Obj(vec![("idx".into(), J::Num(l.as_usize() as i128))])
                }
                mir::ProjectionElem::ConstantIndex { offset, min_length, from_end } => {
                    J::Obj(vec![
                        ("cidx".into(), J::Num(offset as i128)),
                        ("min".into(), J::Num(min_length as i128)),
                        ("from_end".into(), J::Bool(from_end)),
                    ])
                }
                mir::ProjectionElem::Subslice { from, to, from_end } => J::Obj(vec![
                    ("sub_from".into(), J::Num(from as i128)),
                    ("sub_to".into(), J::Num(to as i128)),
                    ("from_end".into(), J::Bool(from_end)),
                ]),
                mir::ProjectionElem::Downcast(name, v) => J::Obj(vec![
                    ("down".into(), J::Num(v.as_usize() as i128)),
                    (
                        "name".into(),
                        J::Str(name.map(|n| n.to_string()).unwrap_or_default()),
                    ),
                ]),
                other => J::Str(format!("{:?}", other)),
            };
            proj.push(j);
            pty = pty.projection_ty(tcx, elem);
        }
        J::Obj(vec![
            ("l".into(), J::Num(p.local.as_usize() as i128)),
            ("p".into(), J::Arr(proj)),
        ])
    }

    fn operand_j(&self, op: &mir::Operand<'tcx>) -> J {
        match op {
            mir::Operand::Copy(p) => {
                J::Obj(vec![("k".into(), J::s("copy")), ("pl".into(), self.place_j(p))])
            }
            mir::Operand::Move(p) => {
                J::Obj(vec![("k".into(), J::s("move")), ("pl".into(), self.place_j(p))])
            }
            mir::Operand::Constant(c) => self.const_j(c),
            #[allow(unreachable_patterns)]
            other => J::Obj(vec![("k".into(), J::s("other")), ("dbg".into(), J::Str(format!("{:?}", other)))]),
        }
    }

    fn const_j(&self, c: &mir::ConstOperand<'tcx>) -> J {
        let tcx = self.tcx;
        let ty = c.const_.ty();
        let mut o = vec![("k".to_string(), J::s("const")), ("ty".to_string(), J::Str(ty_str(ty)))];
        // name of a named constant, if any
        if let mir::Const::Unevaluated(u, _) = c.const_ {
            if u.promoted.is_none() {
                o.push(("named".into(), J::Str(tcx.def_path_str(u.def))));
            } else {
                o.push(("promoted".into(), J::Bool(true)));
                // named constants referenced inside the promoted body (e.g. `&URL_SAFE_NO_PAD`)
                let mut refs: Vec<J> = Vec::new();
                if u.def.is_local() {
                    let proms = tcx.promoted_mir(u.def);
                    if let Some(pb) = proms.get(u.promoted.unwrap()) {
                        for bbd in pb.basic_blocks.iter() {
                            for st in bbd.statements.iter() {
                                if let mir::StatementKind::Assign(b) = &st.kind {
                                    let mut ops: Vec<&mir::Operand<'tcx>> = Vec::new();
                                    match &b.1 {
                                        mir::Rvalue::Use(op, ..) => ops.push(op),
                                        mir::Rvalue::Aggregate(_, os) => ops.extend(os.iter()),
                                        mir::Rvalue::Cast(_, op, _) => ops.push(op),
                                        _ => {}
                                    }
                                    for op in ops {
                                        if let mir::Operand::Constant(cc) = op {
                                            if let mir::Const::Unevaluated(uu, _) = cc.const_ {
                                                if uu.promoted.is_none() {
                                                    refs.push(J::Str(tcx.def_path_str(uu.def)));
                                                }
                                            }
                                        }
                                    }
                                }
                            }
                        }
                    }
                }
                o.push(("promoted_refs".into(), J::Arr(refs)));
            }
        }
        match ty.kind() {
            ty::FnDef(did, args) => {
                o.push(("v".into(), self.fn_ref_j(*did, args)));
                return J::Obj(o);
            }
            _ => {}
        }
        if let mir::Const::Ty(_, ct) = c.const_ {
            if let ty::ConstKind::Param(p) = ct.kind() {
                // a const generic parameter used as a value
                o.push(("v".into(), J::Obj(vec![("cparam".into(), J::Str(p.name.to_string()))])));
                return J::Obj(o);
            }
        }
        let v = match c.const_.eval(tcx, self.env, DUMMY_SP) {
            Ok(cv) => const_value_j(tcx, cv, ty),
            Err(_) => J::Obj(vec![("opaque".into(), J::s("eval failed"))]),
        };
        o.push(("v".into(), v));
        J::Obj(o)
    }

    fn fn_ref_j(&self, did: DefId, args: ty::GenericArgsRef<'tcx>) -> J {
        let tcx = self.tcx;
        let mut o = vec![
            ("fn".to_string(), J::Str(tcx.def_path_str(did))),
            ("full".to_string(), J::Str(tcx.def_path_str_with_args(did, args))),
            ("krate".to_string(), J::Str(tcx.crate_name(did.krate).to_string())),
            ("local".to_string(), J::Bool(did.is_local())),
        ];
        let targs: Vec<J> = args
            .iter()
            .filter_map(|g| g.as_type().map(|t| ty_j(tcx, t, 1)))
            .collect();
        o.push(("targs".into(), J::Arr(targs)));
        // const generic arguments, in order
        let cargs: Vec<J> = args
            .iter()
            .filter_map(|g| g.as_const())
            .map(|ct| match ct.try_to_target_usize(tcx) {
                Some(n) => J::Num(n as i128),
                None => match ct.kind() {
                    ty::ConstKind::Param(p) => J::Obj(vec![("cparam".into(), J::Str(p.name.to_string()))]),
                    _ => J::Null,
                },
            })
            .collect();
        if !cargs.is_empty() {
            o.push(("cargs".into(), J::Arr(cargs)));
        }
        if matches!(tcx.def_kind(did), DefKind::AssocFn | DefKind::Fn) {
            o.push(("name".into(), J::Str(tcx.item_name(did).to_string())));
        }
        if let Some(tr) = tcx.trait_of_assoc(did) {
            o.push(("trait".into(), J::Str(tcx.def_path_str(tr))));
            if let Some(st) = args.iter().next().and_then(|g| g.as_type()) {
                o.push(("self_ty".into(), ty_j(tcx, st, 1)));
            }
        } else if matches!(tcx.def_kind(did), DefKind::AssocFn) {
            let parent = tcx.parent(did);
            if matches!(tcx.def_kind(parent), DefKind::Impl { .. }) {
                let st = tcx.type_of(parent).instantiate_identity().skip_norm_wip();
                o.push(("impl_self".into(), J::Str(ty_str(st))));
            }
        }
        // resolve through traits where the self type is concrete enough
        if let Ok(Some(inst)) = ty::Instance::try_resolve(tcx, self.env, did, args) {
            let rdid = inst.def_id();
            if rdid != did {
                o.push((
                    "resolved".into(),
                    J::Obj(vec![
                        ("fn".into(), J::Str(tcx.def_path_str(rdid))),
                        ("full".into(), J::Str(tcx.def_path_str_with_args(rdid, inst.args))),
                        ("krate".into(), J::Str(tcx.crate_name(rdid.krate).to_string())),
                        ("local".into(), J::Bool(rdid.is_local())),
                    ]),
                ));
            }
        }
        J::Obj(o)
    }

    fn rvalue_j(&self, rv: &mir::Rvalue<'tcx>) -> J {
        let tcx = self.tcx;
        match rv {
            mir::Rvalue::Use(op, ..) => {
                J::Obj(vec![("rv".into(), J::s("use")), ("op".into(), self.operand_j(op))])
            }
            mir::Rvalue::Repeat(op, n) => J::Obj(vec![
                ("rv".into(), J::s("repeat")),
                ("op".into(), self.operand_j(op)),
                (
                    "n".into(),
                    n.try_to_target_usize(tcx).map(|n| J::Num(n as i128)).unwrap_or(J::Null),
                ),
                (
                    "n_param".into(),
                    match n.kind() {
                        ty::ConstKind::Param(p) => J::Str(p.name.to_string()),
                        _ => J::Null,
                    },
                ),
            ]),
            mir::Rvalue::Ref(_, bk, p) => J::Obj(vec![
                ("rv".into(), J::s("ref")),
                (
                    "mut".into(),
                    J::Bool(matches!(bk, mir::BorrowKind::Mut { .. })),
                ),
                ("pl".into(), self.place_j(p)),
            ]),
            mir::Rvalue::RawPtr(k, p) => J::Obj(vec![
                ("rv".into(), J::s("rawptr")),
                ("mut".into(), J::Bool(format!("{:?}", k).contains("Mut"))),
                ("pl".into(), self.place_j(p)),
            ]),
            mir::Rvalue::Cast(kind, op, ty) => J::Obj(vec![
                ("rv".into(), J::s("cast")),
                ("kind".into(), J::Str(format!("{:?}", kind))),
                ("op".into(), self.operand_j(op)),
                ("ty".into(), ty_j(tcx, *ty, 0)),
            ]),
            mir::Rvalue::BinaryOp(op, ab) => J::Obj(vec![
                ("rv".into(), J::s("binop")),
                ("op".into(), J::Str(format!("{:?}", op))),
                ("a".into(), self.operand_j(&ab.0)),
                ("b".into(), self.operand_j(&ab.1)),
            ]),
            mir::Rvalue::UnaryOp(op, a) => J::Obj(vec![
                ("rv".into(), J::s("unop")),
                ("op".into(), J::Str(format!("{:?}", op))),
                ("a".into(), self.operand_j(a)),
            ]),
            mir::Rvalue::Discriminant(p) => {
                let mut o = vec![("rv".to_string(), J::s("discr")), ("pl".to_string(), self.place_j(p))];
                let pty = p.ty(&self.body.local_decls, tcx).ty;
                if let ty::Adt(def, _) = pty.kind() {
                    if def.is_enum() {
                        o.push(("adt".into(), J::Str(tcx.def_path_str(def.did()))));
                        let mut vs = Vec::new();
                        for (vidx, v) in def.variants().iter_enumerated() {
                            let d = def.discriminant_for_variant(tcx, vidx).val;
                            vs.push(J::Arr(vec![J::Num(d as i128), J::Str(v.name.to_string())]));
                        }
                        o.push(("variants".into(), J::Arr(vs)));
                    }
                }
                J::Obj(o)
            }
            mir::Rvalue::Aggregate(kind, ops) => {
                let mut o = vec![("rv".to_string(), J::s("aggregate"))];
                match &**kind {
                    mir::AggregateKind::Adt(did, vidx, _args, _, _) => {
                        let def = tcx.adt_def(*did);
                        let v = def.variant(*vidx);
                        o.push(("agg".into(), J::s("adt")));
                        o.push(("adt".into(), J::Str(tcx.def_path_str(*did))));
                        o.push(("variant".into(), J::Str(v.name.to_string())));
                        o.push(("vidx".into(), J::Num(vidx.as_usize() as i128)));
                        o.push((
                            "fields".into(),
                            J::Arr(v.fields.iter().map(|f| J::Str(f.name.to_string())).collect()),
                        ));
                    }
                    mir::AggregateKind::Tuple => o.push(("agg".into(), J::s("tuple"))),
                    mir::AggregateKind::Array(_) => o.push(("agg".into(), J::s("array"))),
                    mir::AggregateKind::Closure(did, _) => {
                        o.push(("agg".into(), J::s("closure")));
                        o.push(("fn".into(), J::Str(tcx.def_path_str(*did))));
                    }
                    other => {
                        o.push(("agg".into(), J::s("other")));
                        o.push(("dbg".into(), J::Str(format!("{:?}", other))));
                    }
                }
                o.push((
                    "ops".into(),
                    J::Arr(ops.iter().map(|op| self.operand_j(op)).collect()),
                ));
                J::Obj(o)
            }
            mir::Rvalue::CopyForDeref(p) => J::Obj(vec![
                ("rv".into(), J::s("use")),
                (
                    "op".into(),
                    J::Obj(vec![("k".into(), J::s("copy")), ("pl".into(), self.place_j(p))]),
                ),
            ]),
            other => J::Obj(vec![
                ("rv".into(), J::s("other")),
                ("dbg".into(), J::Str(format!("{:?}", other))),
            ]),
        }
    }

    fn stmt_j(&self, st: &mir::Statement<'tcx>) -> Option<J> {
        match &st.kind {
            mir::StatementKind::Assign(b) => {
                let (p, rv) = &**b;
                let mut o = vec![
                    ("k".to_string(), J::s("assign")),
                    ("pl".to_string(), self.place_j(p)),
                    ("rv".to_string(), self.rvalue_j(rv)),
                ];
                o.extend(self.sp(&st.source_info));
                Some(J::Obj(o))
            }
            mir::StatementKind::SetDiscriminant { place, variant_index } => {
                let mut o = vec![
                    ("k".to_string(), J::s("setdiscr")),
                    ("pl".to_string(), self.place_j(place)),
                    ("v".to_string(), J::Num(variant_index.as_usize() as i128)),
                ];
                o.extend(self.sp(&st.source_info));
                Some(J::Obj(o))
            }
            mir::StatementKind::StorageLive(_)
            | mir::StatementKind::StorageDead(_)
            | mir::StatementKind::Nop
            | mir::StatementKind::FakeRead(..)
            | mir::StatementKind::PlaceMention(..)
            | mir::StatementKind::AscribeUserType(..)
            | mir::StatementKind::Coverage(..)
            | mir::StatementKind::ConstEvalCounter
            | mir::StatementKind::BackwardIncompatibleDropHint { .. } => None,
            other => {
                let mut o = vec![
                    ("k".to_string(), J::s("other")),
                    ("dbg".to_string(), J::Str(format!("{:?}", other))),
                ];
                o.extend(self.sp(&st.source_info));
                Some(J::Obj(o))
            }
        }
    }

    fn term_j(&self, t: &mir::Terminator<'tcx>) -> J {
        let bbn = |b: mir::BasicBlock| J::Num(b.as_usize() as i128);
        let mut o: Vec<(String, J)> = Vec::new();
        match &t.kind {
            mir::TerminatorKind::Goto { target } => {
                o.push(("k".into(), J::s("goto")));
                o.push(("target".into(), bbn(*target)));
            }
            mir::TerminatorKind::SwitchInt { discr, targets } => {
                o.push(("k".into(), J::s("switch")));
                o.push(("discr".into(), self.operand_j(discr)));
                let mut ts = Vec::new();
                for (v, b) in targets.iter() {
                    ts.push(J::Arr(vec![J::Num(v as i128), bbn(b)]));
                }
                o.push(("targets".into(), J::Arr(ts)));
                o.push(("otherwise".into(), bbn(targets.otherwise())));
            }
            mir::TerminatorKind::Return => o.push(("k".into(), J::s("return"))),
            mir::TerminatorKind::Unreachable => o.push(("k".into(), J::s("unreachable"))),
            mir::TerminatorKind::UnwindResume => o.push(("k".into(), J::s("resume"))),
            mir::TerminatorKind::UnwindTerminate(_) => o.push(("k".into(), J::s("terminate"))),
            mir::TerminatorKind::Drop { place, target, .. } => {
                o.push(("k".into(), J::s("drop")));
                o.push(("pl".into(), self.place_j(place)));
                o.push(("target".into(), bbn(*target)));
            }
            mir::TerminatorKind::Call { func, args, destination, target, .. } => {
                o.push(("k".into(), J::s("call")));
                o.push(("func".into(), self.operand_j(func)));
                o.push((
                    "args".into(),
                    J::Arr(args.iter().map(|a| self.operand_j(&a.node)).collect()),
                ));
                o.push(("dest".into(), self.place_j(destination)));
                o.push(("target".into(), target.map(bbn).unwrap_or(J::Null)));
            }
            mir::TerminatorKind::TailCall { func, args, .. } => {
                o.push(("k".into(), J::s("tailcall")));
                o.push(("func".into(), self.operand_j(func)));
                o.push((
                    "args".into(),
                    J::Arr(args.iter().map(|a| self.operand_j(&a.node)).collect()),
                ));
            }
            mir::TerminatorKind::Assert { cond, expected, msg, target, .. } => {
                o.push(("k".into(), J::s("assert")));
                o.push(("cond".into(), self.operand_j(cond)));
                o.push(("expected".into(), J::Bool(*expected)));
                let kind = match &**msg {
                    mir::AssertKind::BoundsCheck { .. } => "bounds".to_string(),
                    mir::AssertKind::Overflow(op, ..) => format!("overflow:{:?}", op),
                    mir::AssertKind::OverflowNeg(_) => "overflow:Neg".to_string(),
                    mir::AssertKind::DivisionByZero(_) => "div0".to_string(),
                    mir::AssertKind::RemainderByZero(_) => "rem0".to_string(),
                    other => format!("other:{:?}", other),
                };
                o.push(("msg".into(), J::Str(kind)));
                o.push(("target".into(), bbn(*target)));
            }
            other => {
                o.push(("k".into(), J::s("other")));
                o.push(("dbg".into(), J::Str(format!("{:?}", other))));
                let succ: Vec<J> = t.successors().map(bbn).collect();
                o.push(("succ".into(), J::Arr(succ)));
            }
        }
        o.extend(self.sp(&t.source_info));
        let _ = self.owner;
        J::Obj(o)
    }
}

// ---------------------------------------------------------------- constants

fn bytes_j(b: &[u8]) -> J {
    let mut hex = String::with_capacity(b.len() * 2);
    for x in b {
        hex.push_str(&format!("{:02x}", x));
    }
    let mut o = vec![("bytes".to_string(), J::Str(hex))];
    if let Ok(s) = std::str::from_utf8(b) {
        if s.chars().all(|c| !c.is_control()) {
            o.push(("text".into(), J::Str(s.to_string())));
        }
    }
    J::Obj(o)
}

fn const_value_j<'tcx>(tcx: TyCtxt<'tcx>, cv: ConstValue, ty: Ty<'tcx>) -> J {
    match cv {
        ConstValue::ZeroSized => J::Obj(vec![("zst".into(), J::Str(ty_str(ty)))]),
        ConstValue::Scalar(mir::interpret::Scalar::Int(i)) => scalar_int_j(i, ty),
        ConstValue::Scalar(mir::interpret::Scalar::Ptr(p, _)) => {
            let (prov, off) = p.prov_and_relative_offset();
            match ty.kind() {
                ty::Ref(_, inner, _) | ty::RawPtr(inner, _) => {
                    decode_at(tcx, prov.alloc_id(), off.bytes() as usize, *inner, 0)
                }
                _ => J::Obj(vec![("opaque".into(), J::s("ptr of non-ref type"))]),
            }
        }
        ConstValue::Slice { .. } => {
            match cv.try_get_slice_bytes_for_diagnostics(tcx) {
                Some(b) => bytes_j(b),
                None => J::Obj(vec![("opaque".into(), J::s("slice"))]),
            }
        }
        ConstValue::Indirect { alloc_id, offset } => {
            decode_at(tcx, alloc_id, offset.bytes() as usize, ty, 0)
        }
    }
}

fn scalar_int_j<'tcx>(i: ty::ScalarInt, ty: Ty<'tcx>) -> J {
    let bits = i.to_bits_unchecked();
    let size = i.size().bytes();
    let v: i128 = match ty.kind() {
        ty::Int(_) => {
            let sh = 128 - size * 8;
            ((bits << sh) as i128) >> sh
        }
        _ => bits as i128,
    };
    // u128 values above i128::MAX do not occur in this crate; clamp defensively
    let mut o = vec![("int".to_string(), J::Num(v)), ("size".to_string(), J::Num(size as i128))];
    if ty.is_bool() {
        o.push(("bool".into(), J::Bool(bits != 0)));
    }
    if bits > i128::MAX as u128 {
        o[0] = ("int_str".into(), J::Str(format!("{}", bits)));
    }
    J::Obj(o)
}

/// Decode a value of type `ty` stored at `off` in allocation `aid`, following
/// pointers (bounded depth). Only shapes used by this crate are understood;
/// anything else is reported as opaque (never guessed).
fn decode_at<'tcx>(tcx: TyCtxt<'tcx>, aid: mir::interpret::AllocId, off: usize, ty: Ty<'tcx>, depth: usize) -> J {
    let opaque = |why: &str| J::Obj(vec![("opaque".into(), J::Str(why.to_string()))]);
    if depth > 4 {
        return opaque("depth");
    }
    let alloc = match tcx.global_alloc(aid) {
        GlobalAlloc::Memory(a) => a,
        _ => return opaque("non-memory alloc"),
    };
    let a = alloc.inner();
    let ptr_size = tcx.data_layout.pointer_size().bytes() as usize;
    let read = |lo: usize, n: usize| -> Option<Vec<u8>> {
        if lo + n > a.len() {
            return None;
        }
        Some(a.inspect_with_uninit_and_ptr_outside_interpreter(lo..lo + n).to_vec())
    };
    let read_uint = |lo: usize, n: usize| -> Option<u128> {
        let b = read(lo, n)?;
        let mut v: u128 = 0;
        for (i, x) in b.iter().enumerate() {
            v |= (*x as u128) << (8 * i); // little endian target
        }
        Some(v)
    };
    let prov_at = |lo: usize| -> Option<mir::interpret::AllocId> {
        for (o, p) in a.provenance().ptrs().iter() {
            if o.bytes() as usize == lo {
                return Some(p.alloc_id());
            }
        }
        None
    };
    match ty.kind() {
        ty::Uint(_) | ty::Int(_) | ty::Bool | ty::Char => {
            let size = match ty.kind() {
                ty::Bool => 1,
                ty::Char => 4,
                ty::Uint(u) => u.bit_width().map(|w| w as usize / 8).unwrap_or(ptr_size),
                ty::Int(u) => u.bit_width().map(|w| w as usize / 8).unwrap_or(ptr_size),
                _ => unreachable!(),
            };
            match read_uint(off, size) {
                Some(v) => {
                    let v = if let ty::Int(_) = ty.kind() {
                        let sh = 128 - size * 8;
                        ((v << sh) as i128) >> sh
                    } else {
                        v as i128
                    };
                    J::Obj(vec![("int".into(), J::Num(v)), ("size".into(), J::Num(size as i128))])
                }
                None => opaque("oob"),
            }
        }
        ty::Array(e, n) => {
            let n = match n.try_to_target_usize(tcx) {
                Some(n) => n as usize,
                None => return opaque("array len"),
            };
            if matches!(e.kind(), ty::Uint(ty::UintTy::U8)) {
                return match read(off, n) {
                    Some(b) => bytes_j(&b),
                    None => opaque("oob"),
                };
            }
            let esize = match e.kind() {
                ty::Ref(_, inner, _) => {
                    if matches!(inner.kind(), ty::Slice(_) | ty::Str) { 2 * ptr_size } else { ptr_size }
                }
                ty::Uint(u) => u.bit_width().map(|w| w as usize / 8).unwrap_or(ptr_size),
                ty::Int(u) => u.bit_width().map(|w| w as usize / 8).unwrap_or(ptr_size),
                ty::Bool => 1,
                _ => return opaque("array elem"),
            };
            let mut v = Vec::new();
            for i in 0..n {
                v.push(decode_at(tcx, aid, off + i * esize, *e, depth + 1));
            }
            J::Obj(vec![("array".into(), J::Arr(v))])
        }
        ty::Ref(_, inner, _) => {
            let target = match prov_at(off) {
                Some(t) => t,
                None => return opaque("no provenance"),
            };
            let toff = match read_uint(off, ptr_size) {
                Some(v) => v as usize,
                None => return opaque("oob"),
            };
            match inner.kind() {
                ty::Slice(e) if matches!(e.kind(), ty::Uint(ty::UintTy::U8)) => {
                    let len = match read_uint(off + ptr_size, ptr_size) {
                        Some(v) => v as usize,
                        None => return opaque("oob"),
                    };
                    decode_bytes(tcx, target, toff, len)
                }
                ty::Str => {
                    let len = match read_uint(off + ptr_size, ptr_size) {
                        Some(v) => v as usize,
                        None => return opaque("oob"),
                    };
                    decode_bytes(tcx, target, toff, len)
                }
                ty::Slice(e) => {
                    let len = match read_uint(off + ptr_size, ptr_size) {
                        Some(v) => v as usize,
                        None => return opaque("oob"),
                    };
                    let arr = Ty::new_array(tcx, *e, len as u64);
                    decode_at(tcx, target, toff, arr, depth + 1)
                }
                _ => decode_at(tcx, target, toff, *inner, depth + 1),
            }
        }
        // Option<&T>: null-pointer niche - None is the null (provenance-free) pointer, Some(r) is r in place
        ty::Adt(def, args) if tcx.is_diagnostic_item(rustc_span::sym::Option, def.did()) && matches!(args.type_at(0).kind(), ty::Ref(..)) => {
            let inner = args.type_at(0);
            if prov_at(off).is_none() {
                return match read_uint(off, ptr_size) {
                    Some(0) => J::Obj(vec![("variant".into(), J::s("None"))]),
                    _ => opaque("non-null pointer without provenance"),
                };
            }
            let v = decode_at(tcx, aid, off, inner, depth + 1);
            J::Obj(vec![("variant".into(), J::s("Some")), ("0".into(), v)])
        }
        _ => opaque("unsupported type"),
    }
}

fn decode_bytes<'tcx>(tcx: TyCtxt<'tcx>, aid: mir::interpret::AllocId, off: usize, len: usize) -> J {
    match tcx.global_alloc(aid) {
        GlobalAlloc::Memory(a) => {
            let a = a.inner();
            if off + len > a.len() {
                return J::Obj(vec![("opaque".into(), J::s("oob"))]);
            }
            bytes_j(a.inspect_with_uninit_and_ptr_outside_interpreter(off..off + len))
        }
        _ => J::Obj(vec![("opaque".into(), J::s("non-memory alloc"))]),
    }
}

struct UnsafeVisitor<'tcx> {
    tcx: TyCtxt<'tcx>,
    found: Vec<J>,
}

impl<'tcx> rustc_hir::intravisit::Visitor<'tcx> for UnsafeVisitor<'tcx> {
    type NestedFilter = rustc_middle::hir::nested_filter::All;

    fn maybe_tcx(&mut self) -> TyCtxt<'tcx> {
        self.tcx
    }

    fn visit_block(&mut self, b: &'tcx rustc_hir::Block<'tcx>) {
        if let rustc_hir::BlockCheckMode::UnsafeBlock(src) = b.rules {
            self.found.push(J::Obj(vec![
                ("what".into(), J::s("unsafe block")),
                ("span".into(), J::Str(span_str(self.tcx, b.span))),
                ("exp".into(), J::Bool(b.span.from_expansion())),
                ("src".into(), J::Str(format!("{:?}", src))),
            ]));
        }
        rustc_hir::intravisit::walk_block(self, b);
    }

    fn visit_item(&mut self, it: &'tcx rustc_hir::Item<'tcx>) {
        if let rustc_hir::ItemKind::Impl(imp) = &it.kind {
            if let Some(tr) = imp.of_trait {
                if !tr.safety.is_safe() {
                    self.found.push(J::Obj(vec![
                        ("what".into(), J::s("unsafe impl")),
                        ("span".into(), J::Str(span_str(self.tcx, it.span))),
                        ("exp".into(), J::Bool(it.span.from_expansion())),
                    ]));
                }
            }
        }
        rustc_hir::intravisit::walk_item(self, it);
    }
}
