#!/bin/sh
# Build the fact extractor and warm the dependency metadata of all 16 feature
# configurations (offline; nothing is fetched).
set -e
cd "$(dirname "$0")"
export CARGO_NET_OFFLINE=true
(cd driver && cargo build --offline --release)
python3 analysis/extract.py thorough
