"""Reusable shape recognisers over MIR (buffers filled by calls, etc.)."""
from kernel import strip


def def_expr(an, local):
    d = an.unique_def(local)
    if d is None:
        return None
    node = d[2]
    if getattr(node, "rv", None) is not None:
        return an.rvalue_expr(node.rv, d[0], d[1])
    return an.call_expr(node, d[0])


def mutations(an, local):
    """all events that may modify a local (in CFG order of blocks)"""
    evs = an.events(local, False)
    out = []
    for bb in sorted(evs):
        for ev in evs[bb]:
            if ev["kind"] in ("mutcall", "write", "escape"):
                out.append(ev)
    return out


def range_of(e):
    """(from, to) of a Range aggregate expression; None = open end"""
    e = strip(e)
    if e.k != "agg":
        return None
    name = e.a[0].split("::")[-1]
    f = e.a[1]

    def ci(x):
        x = strip(x)
        if x.k == "const" and isinstance(x.a[0], int):
            return x.a[0]
        return ("expr", x)

    if name == "RangeTo":
        return (0, ci(f["end"]))
    if name == "RangeFrom":
        return (ci(f["start"]), None)
    if name == "Range":
        return (ci(f["start"]), ci(f["end"]))
    if name == "RangeFull":
        return (0, None)
    return None


def array_fills(an, buf):
    """For a local array/buffer: list of dict(range, src, sp, bb) for every
    `dest.copy_from_slice(src)` whose dest points into it, plus 'other' for
    any other mutation."""
    fills = []
    others = []
    for ev in mutations(an, buf):
        if ev["kind"] != "mutcall":
            others.append(ev)
            continue
        t = ev["term"]
        c = t.callee
        if c is None:
            others.append(ev)
            continue
        if c.name in ("index_mut", "deref_mut", "as_mut", "as_mut_slice") or c.trait in ("std::ops::IndexMut", "std::ops::DerefMut"):
            continue  # only produces a derived reference
        if c.name == "copy_from_slice" and ev["arg"] == 0:
            rng = (0, None)
            dest = t.args[0]
            if dest.place.is_local():
                d = an.unique_def(dest.place.local)
                # walk through reborrows/casts to an index_mut call
                cur = dest.place.local
                for _ in range(8):
                    d = an.unique_def(cur)
                    if d is None:
                        break
                    node = d[2]
                    rv = getattr(node, "rv", None)
                    if rv is not None and rv.kind in ("use", "cast") and rv.ops[0].kind in ("copy", "move") and rv.ops[0].place.is_local():
                        cur = rv.ops[0].place.local
                        continue
                    if rv is not None and rv.kind == "ref" and rv.place.proj == ["deref"]:
                        cur = rv.place.local
                        continue
                    if getattr(node, "callee", None) is not None and node.callee.trait in ("std::ops::IndexMut",) and len(node.args) == 2:
                        rng = range_of(an.operand_expr(node.args[1], d[0], d[1]))
                    break
            src = strip(an.operand_expr(t.args[1], ev["bb"], ev["idx"]))
            fills.append(dict(range=rng, src=src, sp=t.sp, bb=ev["bb"]))
        else:
            others.append(ev)
    return fills, others


def root_local(an, local, reborrows=False):
    """follow `x = move y` definitions (and, optionally, `x = &*y` reborrows of
    a reference) back to the local that was created first"""
    cur = local
    for _ in range(20):
        d = an.unique_def(cur)
        if d is None:
            return cur
        rv = getattr(d[2], "rv", None)
        if rv is not None and rv.kind == "use" and rv.ops[0].kind in ("copy", "move") and rv.ops[0].place.is_local():
            cur = rv.ops[0].place.local
            continue
        if reborrows and rv is not None and rv.kind == "ref" and rv.place.proj == ["deref"]:
            cur = rv.place.local
            continue
        return cur
    return cur
