"""Reusable shape recognisers over MIR (buffers filled by calls, etc.)."""
from kernel import strip


def def_expr(an, local):
    d = an.unique_def(local)
    if d is None:
        return None
    node = d[2]
    if getattr(node, "rv", None) is not None:
        return an.rvalue_expr(node.rv, d[0], d[1])
    return an.call_expr(node, d[0])


def mutations(an, local):
    """all events that may modify a local (in CFG order of blocks)"""
    evs = an.events(local, False)
    out = []
    for bb in sorted(evs):
        for ev in evs[bb]:
            if ev["kind"] in ("mutcall", "write", "escape"):
                out.append(ev)
    return out


def fold_const(x, depth=0):
    """value of an integer expression built from constants with + - * (checked forms included)"""
    x = strip(x)
    if x.k == "const" and isinstance(x.a[0], int) and not isinstance(x.a[0], bool):
        return x.a[0]
    if depth > 8:
        return None
    if x.k == "field" and x.a[1] == "0" and x.a[0].k == "binop":
        x = x.a[0]
    if x.k == "binop" and x.a[0] in ("Add", "Sub", "Mul", "AddWithOverflow", "SubWithOverflow", "MulWithOverflow", "AddUnchecked", "SubUnchecked", "MulUnchecked"):
        a, b = fold_const(x.a[1], depth + 1), fold_const(x.a[2], depth + 1)
        if a is None or b is None:
            return None
        v = a + b if x.a[0].startswith("Add") else a - b if x.a[0].startswith("Sub") else a * b
        return v if 0 <= v < 2 ** 64 else None
    if x.k == "call" and x.a[0].name == "len" and x.a[1]:
        c = strip(x.a[1][0])
        if c.k == "const" and isinstance(c.a[0], bytes):
            return len(c.a[0])
    if x.k == "call" and x.a[0].name == "size_of" and x.a[0].krate in ("core", "std") and not x.a[1] and x.a[0].targs:
        return size_of_type(x.a[0].targs[0])
    return None


def size_of_type(t):
    """size in bytes of a type whose layout is fixed by the language: uN/iN, bool, arrays of those"""
    import re
    k = t.get("k")
    s_ = t.get("s", "")
    m = re.match(r"^[ui](8|16|32|64|128)$", s_)
    if m:
        return int(m.group(1)) // 8
    if s_ == "bool":
        return 1
    if k == "array" and isinstance(t.get("n"), int) and t.get("of"):
        e = size_of_type(t["of"])
        return None if e is None else e * t["n"]
    return None


def range_of(e):
    """(from, to) of a Range aggregate expression; None = open end"""
    e = strip(e)
    if e.k != "agg":
        return None
    name = e.a[0].split("::")[-1]
    f = e.a[1]

    def ci(x):
        x = strip(x)
        v = fold_const(x)
        if v is not None:
            return v
        return ("expr", x)

    if name == "RangeTo":
        return (0, ci(f["end"]))
    if name == "RangeFrom":
        return (ci(f["start"]), None)
    if name == "Range":
        return (ci(f["start"]), ci(f["end"]))
    if name == "RangeFull":
        return (0, None)
    return None


def array_fills(an, buf):
    """For a local array/buffer: list of dict(range, src, sp, bb) for every
    `dest.copy_from_slice(src)` whose dest points into it, plus 'other' for
    any other mutation."""
    fills = []
    others = []
    for ev in mutations(an, buf):
        if ev["kind"] != "mutcall":
            others.append(ev)
            continue
        t = ev["term"]
        c = t.callee
        if c is None:
            others.append(ev)
            continue
        if c.name in ("index_mut", "deref_mut", "as_mut", "as_mut_slice") or c.trait in ("std::ops::IndexMut", "std::ops::DerefMut"):
            continue  # only produces a derived reference
        if c.name in ("split_at_mut",) and c.krate in ("core", "alloc", "std"):
            continue  # only produces derived references
        if c.name == "copy_from_slice" and ev["arg"] == 0:
            rng = slice_range(an.operand_expr(t.args[0], ev["bb"], ev["idx"]))
            if rng is None:
                others.append(ev)
                continue
            src = strip(an.operand_expr(t.args[1], ev["bb"], ev["idx"]))
            fills.append(dict(range=rng, src=src, sp=t.sp, bb=ev["bb"]))
        else:
            others.append(ev)
    return fills, others


def root_local(an, local, reborrows=False):
    """follow `x = move y` definitions (and, optionally, `x = &*y` reborrows of
    a reference) back to the local that was created first"""
    cur = local
    for _ in range(20):
        d = an.unique_def(cur)
        if d is None:
            return cur
        rv = getattr(d[2], "rv", None)
        if rv is not None and rv.kind == "use" and rv.ops[0].kind in ("copy", "move") and rv.ops[0].place.is_local():
            cur = rv.ops[0].place.local
            continue
        if reborrows and rv is not None and rv.kind == "ref" and rv.place.proj == ["deref"]:
            cur = rv.place.local
            continue
        return cur
    return cur


def ascii_sub(e):
    """Sub-string algebra over hex strings of statically known length.
    e denotes `hex::encode(x)[lo..hi]` for an x of array type [u8; N]:
    returns (the hex::encode call expression, lo, hi) with 0 <= lo <= hi <= 2N.
    Forms: hex::encode::<[u8;N]>(x); s[a..b] / s[a..] / s[..b] / s[..] with
    constant bounds or `s2.len() - c`; s.split_at(c).0 / .1.  The string is
    ASCII, so every offset is a character boundary and none of these panics
    when the result is defined."""
    e = strip(e)
    while e.k == "mutated":
        e = strip(e.a[0])
    if e.k == "call":
        c = e.a[0]
        if c.name == "encode" and c.fn == "hex::encode" and e.a[1] and c.targs:
            t = c.targs[0]
            while t.get("k") == "ref":
                t = t["of"]
            if t.get("k") == "array" and isinstance(t.get("n"), int):
                return (e, 0, 2 * t["n"])
            return None
        if c.name == "index" and len(e.a[1]) == 2 and c.trait == "std::ops::Index":
            base = ascii_sub(e.a[1][0])
            r = range_of(e.a[1][1])
            if base is None or r is None:
                return None
            n = base[2] - base[1]
            lo = _ascii_off(r[0], 0)
            hi = _ascii_off(r[1], n)
            if lo is None or hi is None or not (0 <= lo <= hi <= n):
                return None
            return (base[0], base[1] + lo, base[1] + hi)
        return None
    if e.k == "field" and e.a[1] in ("0", "1"):
        s = strip(e.a[0])
        if s.k == "call" and s.a[0].name == "split_at" and len(s.a[1]) == 2 and s.a[0].krate in ("core", "alloc", "std"):
            base = ascii_sub(s.a[1][0])
            k = _ascii_off(("expr", s.a[1][1]), None)
            if base is None or k is None or not (0 <= k <= base[2] - base[1]):
                return None
            return (base[0], base[1], base[1] + k) if e.a[1] == "0" else (base[0], base[1] + k, base[2])
    return None


def _ascii_off(x, default):
    """a range bound: None -> default, int, or `len(s) - c` / `len(s)` / const expression"""
    if x is None:
        return default
    if isinstance(x, int):
        return x
    if isinstance(x, tuple) and x[0] == "expr":
        ex = strip(x[1])
        if ex.k == "const" and isinstance(ex.a[0], int):
            return ex.a[0]
        if ex.k == "field" and ex.a[1] == "0" and ex.a[0].k == "binop":
            ex = ex.a[0]
        if ex.k == "call" and ex.a[0].name == "len" and ex.a[1]:
            b = ascii_sub(ex.a[1][0])
            return b[2] - b[1] if b is not None else None
        if ex.k == "binop" and ex.a[0] in ("Sub", "SubWithOverflow", "Add", "AddWithOverflow"):
            a = _ascii_off(("expr", ex.a[1]), None)
            b = _ascii_off(("expr", ex.a[2]), None)
            if a is None or b is None:
                return None
            return a - b if ex.a[0].startswith("Sub") else a + b
    return None


def bytes_value(an, e):
    """If e denotes an owned byte container (Vec<u8>, Bytes, BytesMut) holding
    exactly the bytes of ONE source expression, return that source (stripped):
      x.to_vec() | Vec::from(x) | x.into() | x.to_owned() | Bytes::copy_from_slice(x)
      a fresh Vec::new()/with_capacity(n)/BytesMut::new() local that received
      exactly one extend_from_slice(x) / put_slice(x) and nothing else."""
    from kernel import unmut
    es = strip(e)
    if es.k == "call" and es.a[1] and (es.a[0].name == "to_vec" or (es.a[0].name in ("to_owned", "into_vec") and es.a[0].krate in ("core", "alloc", "std"))):
        return strip(es.a[1][0])
    if es.k == "call" and es.a[0].name in ("from", "into") and es.a[0].trait in ("std::convert::From", "std::convert::Into") and len(es.a[1]) == 1 and "Vec<u8>" in (es.a[0].full or ""):
        return strip(es.a[1][0])
    if es.k == "call" and es.a[0].name == "copy_from_slice" and len(es.a[1]) == 1:
        return strip(es.a[1][0])
    if es.k == "mutated":
        local = es.a[1]
        d = def_expr(an, local)
        if d is None:
            return None
        d = unmut(d)
        if not (d.k == "call" and d.a[0].name in ("new", "with_capacity") and not d.a[0].local and ("Vec" in d.a[0].fn or "BytesMut" in d.a[0].fn)):
            return None
        src = None
        for mu in mutations(an, local):
            if mu["kind"] != "mutcall":
                return None
            t = mu["term"]
            c = t.callee
            if c is None or c.name not in ("extend_from_slice", "put_slice") or len(t.args) != 2 or mu.get("arg") != 0 or src is not None:
                return None
            src = strip(an.operand_expr(t.args[1], mu["bb"], mu["idx"]))
        return src
    return None


def slice_range(e):
    """(lo, hi|None) of the part of its ultimate base that a slice-valued
    expression denotes; composes `b[lo..hi]`, `b[..]`, `split_at(_mut)(b, k).0/.1`
    with constant bounds.  None if a bound is not constant."""
    from kernel import unmut
    e = unmut(e)
    if e.k == "call" and e.a[0].name in ("index", "index_mut") and len(e.a[1]) == 2 and e.a[0].trait in ("std::ops::Index", "std::ops::IndexMut"):
        base = slice_range(e.a[1][0])
        r = range_of(e.a[1][1])
        if base is None or r is None:
            return None
        lo, hi = r
        if base == (0, None):
            return (lo, hi)  # may be symbolic: ("expr", e)
        if not isinstance(lo, int) or not (hi is None or isinstance(hi, int)):
            return None
        blo, bhi = base
        if not isinstance(blo, int) or not (bhi is None or isinstance(bhi, int)):
            return None
        nlo = blo + lo
        nhi = bhi if hi is None else blo + hi
        if bhi is not None and (nhi is None or nhi > bhi or nlo > bhi):
            return None
        return (nlo, nhi)
    if e.k == "field" and e.a[1] in ("0", "1"):
        s = unmut(e.a[0])
        if s.k == "call" and s.a[0].name in ("split_at", "split_at_mut") and len(s.a[1]) == 2 and s.a[0].krate in ("core", "alloc", "std"):
            base = slice_range(s.a[1][0])
            k = strip(s.a[1][1])
            kv = fold_const(k)
            if kv is not None:
                from kernel import E
                k = E("const", kv)
            if base is None or not (k.k == "const" and isinstance(k.a[0], int)):
                return None
            blo, bhi = base
            if not isinstance(blo, int) or not (bhi is None or isinstance(bhi, int)):
                return None
            if bhi is not None and blo + k.a[0] > bhi:
                return None
            return (blo, blo + k.a[0]) if e.a[1] == "0" else (blo + k.a[0], bhi)
        return None
    return (0, None)



def slice_base(e):
    """the expression whose part `slice_range(e)` describes (what remains after
    peeling constant-range indexing and split_at halves)"""
    from kernel import unmut
    e = unmut(e)
    for _ in range(8):
        if e.k == "call" and e.a[0].name in ("index", "index_mut") and len(e.a[1]) == 2 and e.a[0].trait in ("std::ops::Index", "std::ops::IndexMut"):
            e = unmut(e.a[1][0])
            continue
        if e.k == "field" and e.a[1] in ("0", "1"):
            s = unmut(e.a[0])
            if s.k == "call" and s.a[0].name in ("split_at", "split_at_mut") and len(s.a[1]) == 2 and s.a[0].krate in ("core", "alloc", "std"):
                e = unmut(s.a[1][0])
                continue
        break
    return e
