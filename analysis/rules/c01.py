"""C01 - accepted records are authentic."""
import closures
import pattern as P
import shapes
from common import short
from kernel import closure_of, ok_payload, same_value, strip
from rules import emit
from rules.c10 import backend_name
from rules.typestate import trace_local

EXPLANATION = (
    "Path-complete structural rules over MIR: (R1) every Ok of decode lies behind the edge verify(&that record)==true with no write in between; "
    "(R2) verify() returns only false or K::PublicKey::verify_v4(public_key(), rlp_content(), signature) under id()==Some(\"v4\"); (R3) public_key() is "
    "K::enr_to_public(&self.content) and every back-end reads exactly its own key constant from that map (CombinedKey: secp256k1 then ed25519 on the same map); "
    "(R4) the signed payload is list-header(len(stream)) || stream with stream = seq then every (key, raw value) of the whole content map, signature excluded; "
    "(R5) the record decode returns carries the very seq, signature and map it read; (R6) each back-end's verify_v4 returns true only as is_ok of the library "
    "verification over self, the scheme's digest of the whole message (keccak256 for secp256k1, the message itself for ed25519) and a signature parsed from "
    "the unmodified parameter by the strict fixed-length parser; (R7) no signature normaliser/DER/recoverable parser is called anywhere; (R8) from_str and "
    "Deserialize return only what decode returned and no other code constructs a record from caller bytes. Not decided: that the crypto libraries implement "
    "ECDSA/Ed25519 and reject high-S (library facts listed under assumptions)."
    " Also re-uses C02's KEYS rule (strictly increasing keys: no pair can be collapsed before the signature check)."
)
TRUSTED = [
    "k256 0.13 verify_digest/verify_prehashed rejects high-S signatures; libsecp256k1 verify_ecdsa requires normalized S; Signature::try_from / from_compact accept exactly 64 bytes",
    "ed25519-dalek Verifier::verify implements Ed25519; Signature::try_from accepts exactly 64 bytes",
]
ASSUMPTIONS = ["keccak256 is collision resistant", "foreign EnrKey implementations are outside the claim"]

FORBIDDEN = ("normalize_s", "normalize", "to_low_s", "from_der", "from_der_lax", "recover", "recover_ecdsa", "from_compact_lax", "verify_strict_off", "from_slice_lax")


def gate_rule(ctx, report, f, rule="GATE"):
    """every Ok(e) of decode lies behind `verify(&e) == true` on the same e,
    with no write to e in between"""
    cfg = ctx.config
    an = ctx.an(f)
    g = an.cfg
    n = 0
    for bb, idx, node in an.defs().get(0, []):
        rv = getattr(node, "rv", None)
        if rv is None or rv.kind != "aggregate" or rv.j.get("variant") != "Ok" or bb not in g.succ:
            continue
        n += 1
        rec = trace_local(an, rv.ops[0])
        good = False
        why = "no dominating verify() == true edge"
        if rec is not None:
            for d, cond, allowed, alll in an.constraints_at(bb):
                c = strip(cond)
                neg = False
                if c.k == "unop" and c.a[0] == "Not":
                    neg = True
                    c = strip(c.a[1])
                if c.k == "call" and c.a[0].target() == "Enr::<K>::verify" and c.a[1]:
                    vt = None
                    for b2, t in f.calls():
                        if b2.idx == c.site and t.callee and t.callee.target() == "Enr::<K>::verify":
                            vt = an.operand_target(t.args[0])
                    want_true = ("otherwise" in allowed or 1 in allowed) and 0 not in allowed
                    if neg:
                        want_true = (0 in allowed) and not ("otherwise" in allowed or 1 in allowed)
                    if vt is not None and vt[0] == rec and vt[1] == [] and vt[2] is False:
                        if want_true:
                            evs = an.events(rec, False)
                            later = []
                            for b3, lst in evs.items():
                                for ev in lst:
                                    if ev["kind"] in ("write", "mutcall", "escape") and (b3 in g.reach(c.site) and b3 != c.site) and bb in g.reach(b3):
                                        later.append(ev["sp"])
                            if not later:
                                good = True
                            else:
                                why = "the record is modified after verification at %s" % later
                        else:
                            why = "Ok is returned on the verify() == false edge"
                    else:
                        why = "verify() is called on a different object than the one returned"
        report.check(rule, "decode/ok-behind-verify", good, "Ok(record) is returned only on the edge verify(&record) == true, record unmodified since",
                     "decode can return Ok for a record whose signature was not checked: " + why, fn=f.path, sp=node.sp, config=cfg)
    if n == 0:
        report.violate(rule, "decode/ok-behind-verify", "decode has no Ok exit", fn=f.path, sp=f.span, config=cfg)


def ret_exprs(an):
    out = []
    for bb, idx, node in an.defs().get(0, []):
        if bb not in an.cfg.succ:
            continue
        rv = getattr(node, "rv", None)
        e = an.rvalue_expr(rv, bb, idx) if rv is not None else an.call_expr(node, bb)
        out.append((bb, idx, e, node))
    return out


def raw_id_string(ctx, o):
    """o is the byte-string payload of the stored `id` entry, read in place:
    `self.get_raw_rlp(b"id").and_then(|mut rlp| Header::decode_bytes(&mut rlp, false).ok())`
    (an Option<&[u8]>), or `self.get(b"id")`"""
    from kernel import E
    from rules.tables import const_key
    o = strip(o)
    if o.k != "call":
        return False
    if o.a[0].target() == "Enr::<K>::get" and len(o.a[1]) == 2 and strip(o.a[1][0]).k == "param" and const_key(o.a[1][1]) == b"id":
        return True
    if o.a[0].name == "and_then" and len(o.a[1]) == 2:
        src = strip(o.a[1][0])
        if not (src.k == "call" and src.a[0].target() == "Enr::<K>::get_raw_rlp" and len(src.a[1]) == 2 and strip(src.a[1][0]).k == "param" and const_key(src.a[1][1]) == b"id"):
            return False
        cl = closure_of(o.a[1][1])
        body = closures.closure_return(ctx, cl[0], cl[1], [E("closure-arg")]) if cl else None
        if not body or len(body) != 1:
            return False
        b = strip(body[0])
        if b.k == "call" and b.a[0].name == "ok" and b.a[1]:
            d = strip(b.a[1][0])
            if d.k == "call" and d.a[0].name == "decode_bytes" and "alloy_rlp::Header" in d.a[0].fn and len(d.a[1]) == 2:
                flag = strip(d.a[1][1])
                return flag.k == "const" and flag.a[0] == 0 and any(x.k == "closure-arg" for x in d.a[1][0].walk())
    return False


def id_is_v4_at(ctx, an, bb):
    """(some, v4): do the path constraints at block bb imply that self.id() is
    Some(..) and that its payload equals "v4"?  Forms: `match id() { Some(x) if
    x == "v4" }`, `is_some_and(|x| x == "v4")`, `id().as_deref() == Some("v4")`
    (and their negations on the other edge)."""
    IDCALL = P.call(target="Enr::<K>::id", args=[P.param(1)])
    some = False
    v4 = False
    for d, cond, allowed, alll in an.constraints_at(bb):
        c = strip(cond)
        neg0 = False
        c0 = c
        while c0.k == "unop" and c0.a[0] == "Not":
            neg0 = not neg0
            c0 = strip(c0.a[1])
        true_edge = ("otherwise" in allowed or 1 in allowed) and 0 not in allowed
        false_edge = allowed == {0}
        holds = (true_edge and not neg0) or (false_edge and neg0)
        fails = (false_edge and not neg0) or (true_edge and neg0)
        # id().is_some_and(|id| id == "v4")
        if c0.k == "call" and c0.a[0].name == "is_some_and" and len(c0.a[1]) == 2 and P.match(c0.a[1][0], IDCALL) is not None and holds:
            cl0 = closure_of(c0.a[1][1])
            if cl0 is not None:
                from kernel import E
                body0 = closures.closure_return(ctx, cl0[0], cl0[1], [E("closure-arg")]) or []
                if len(body0) == 1:
                    b0 = strip(body0[0])
                    if b0.k == "call" and b0.a[0].name == "eq" and any(strip(x).k == "const" and strip(x).a[0] == b"v4" for x in b0.a[1]) and any(y.k == "closure-arg" for x in b0.a[1] for y in x.walk()):
                        some = v4 = True
        if c.k == "discr" and P.match(c.a[0], IDCALL) is not None and allowed == {"Some"}:
            some = True
        # `let id = self.id().ok_or(E)?;`
        if c.k == "discr" and allowed and allowed <= {"Continue", "Ok"}:
            y = strip(c.a[0])
            if y.k == "call" and y.a[0].name == "branch" and y.a[1]:
                y = strip(y.a[1][0])
            while y.k == "call" and y.a[0].name in ("ok_or", "ok_or_else", "map_err") and y.a[1]:
                y = strip(y.a[1][0])
            if P.match(y, IDCALL) is not None:
                some = True
        if c0.k == "call" and c0.a[0].name in ("eq", "ne") and len(c0.a[1]) == 2:
            sides = [strip(x) for x in c0.a[1]]
            idv = [x for x in sides if any(P.match(y, IDCALL) is not None for y in x.walk()) or raw_id_string(ctx, x)]
            equal = (c0.a[0].name == "eq" and holds) or (c0.a[0].name == "ne" and fails)
            lit = [x for x in sides if x.k == "const" and x.a[0] == b"v4"]
            if lit and idv and equal:
                v4 = True
            # whole-option comparison: id().as_deref() == Some("v4")
            opt = [x for x in sides if x.k == "const" and x.a[0] == ("variant", "Some", b"v4")]
            if opt and idv and equal:
                other = [x for x in sides if x not in opt]
                # the other side is id() itself, possibly viewed through as_deref/as_ref
                o = other[0] if other else None
                while o is not None and o.k == "call" and o.a[0].name in ("as_deref", "as_ref", "as_str") and o.a[1]:
                    o = strip(o.a[1][0])
                if o is not None and (P.match(o, IDCALL) is not None or raw_id_string(ctx, o)):
                    some = v4 = True
    return some, v4


def verify_rule(ctx, report):
    """R2: shape of Enr::verify; returns True if verify implies id == v4"""
    cfg = ctx.config
    f = ctx.method("verify")
    if f is None:
        report.violate("VERIFY", "verify", "anchor Enr::verify not found", config=cfg)
        return False
    report.analysed_fns.add(f.path)
    an = ctx.an(f)
    VCALL = P.call(name="verify_v4", trait="EnrPublicKey", args=[
        P.call(target="Enr::<K>::public_key", args=[P.param(1)]),
        P.call(target="Enr::<K>::rlp_content", args=[P.param(1)]),
        P.field(P.param(1), "signature"),
    ])
    all_ok = True
    n_true = 0
    for bb, idx, e, node in ret_exprs(an):
        es = strip(e)
        if es.k == "const":
            ok = es.a[0] == 0
            why = "verify() returns the constant true"
        elif P.match(es, VCALL) is not None:
            n_true += 1
            # control dependence on id == Some("v4")
            some, v4 = id_is_v4_at(ctx, an, bb)
            ok = some and v4
            why = "the signature check is not conditional on id() == Some(\"v4\")"
        else:
            ok = False
            why = "verify() returns %s" % short(e, 300)
        all_ok = all_ok and ok
        report.check("VERIFY", "verify/ret@%s" % ("false" if es.k == "const" else "verify_v4"), ok,
                     "verify() returns false, or verify_v4(public_key(), rlp_content(), signature) under id()==\"v4\"", "verify(): " + why, fn=f.path, sp=node.sp, config=cfg)
    report.check("VERIFY", "verify/has-real-check", n_true >= 1, "verify() has a path that checks the signature", "verify() never calls verify_v4", fn=f.path, sp=f.span, config=cfg)
    return all_ok and n_true >= 1


def pubkey_rule(ctx, report):
    """R3"""
    cfg = ctx.config
    facts = ctx.facts
    f = ctx.method("public_key")
    if f is None:
        report.violate("PUBKEY", "public_key", "anchor Enr::public_key not found", config=cfg)
    else:
        report.analysed_fns.add(f.path)
        an = ctx.an(f)
        rets = ret_exprs(an)
        pat = P.call(name=("expect", "unwrap"), args=None)
        ok = len(rets) == 1
        if ok:
            es = strip(rets[0][2])
            ok = es.k == "call" and es.a[0].name in ("expect", "unwrap") and P.match(es.a[1][0], P.call(name="enr_to_public", trait="EnrKey", args=[P.field(P.param(1), "content")])) is not None
        report.check("PUBKEY", "public_key", ok, "public_key() = K::enr_to_public(&self.content)", "public_key() does not read the key from the record's own content: %s" % (short(rets[0][2]) if rets else "?"), fn=f.path, sp=f.span, config=cfg)

    # per back-end
    keyfns = [x for x in facts.fns if x.kind == "AssocFn" and x.name == "enr_to_public" and (x.impl_trait or "").endswith("EnrKey")]
    enrkeys = {}
    for x in facts.fns:
        if x.kind == "AssocFn" and x.name == "enr_key" and (x.impl_trait or "").endswith("EnrPublicKey"):
            an = ctx.an(x)
            vals = set()
            for bb, idx, e, node in ret_exprs(an):
                for c in e.walk():
                    if c.k == "const" and isinstance(c.a[0], bytes):
                        vals.add(c.a[0])
            enrkeys[backend_name(x.impl_self["s"])] = (vals, x)
    for x in keyfns:
        report.analysed_fns.add(x.path)
        bn = backend_name(x.impl_self["s"])
        an = ctx.an(x)
        if bn == "combined":
            combined_enr_to_public(ctx, report, x)
            continue
        want = enrkeys.get(bn, (set(), None))[0]
        GET = P.call(name="get", fn="BTreeMap", args=[P.param(1), P.bind("k", P.const(lambda v: isinstance(v, bytes)))])
        SRC = P.ok(P.either(P.call(name=("ok_or", "ok_or_else"), args=[GET, P.ANY]), GET))
        FIN = P.call(name="decode_public", args=[P.ok(P.call(name="decode", trait="alloy_rlp::Decodable", args=[SRC]))])
        good = 0
        bad = []
        keyconst = None
        for bb, idx, e, node in ret_exprs(an):
            es = strip(e)
            if es.k == "call" and es.a[0].name == "from_residual":
                continue  # error propagation
            if es.k == "agg" and es.a[0].endswith("Result::Err"):
                continue
            m = P.match(es, FIN)
            if m is not None:
                # decode must be the byte-string decoder
                dec = [c for c in es.walk() if c.k == "call" and c.a[0].name == "decode" and (c.a[0].trait or "").endswith("Decodable")]
                st = dec[0].a[0].self_ty["s"] if dec and dec[0].a[0].self_ty else "?"
                if st in ("alloy_rlp::Bytes", "bytes::Bytes", "alloy_rlp::BytesMut"):
                    good += 1
                    keyconst = strip(m["k"]).a[0]
                else:
                    bad.append("value decoded as %s" % st)
            else:
                bad.append(short(e, 200))
        ok = good >= 1 and not bad and len(want) == 1 and keyconst in want
        report.check("PUBKEY", "enr_to_public/" + bn, ok,
                     "%s::enr_to_public = decode_public(Bytes::decode(content.get(%r))) and nothing else" % (bn, keyconst),
                     "%s::enr_to_public does not read exactly its own key entry (reads %r, enr_key() is %s, other returns: %s)" % (bn, keyconst, sorted(want), bad),
                     fn=x.path, sp=x.span, config=cfg)


def combined_enr_to_public(ctx, report, x):
    """secp256k1 lookup first; the ed25519 lookup only when that failed; each
    success is wrapped in the matching variant; both on the given map"""
    cfg = ctx.config
    an = ctx.an(x)
    g = an.cfg

    def is_lookup(e, lib):
        e = strip(e)
        return e.k == "call" and e.a[0].name == "enr_to_public" and lib in (e.a[0].target_full() + e.a[0].full) and e.a[1] and strip(e.a[1][0]).k == "param"

    def lib_of(e):
        return "k256" if is_lookup(e, "k256") or is_lookup(e, "ecdsa") else "ed25519" if is_lookup(e, "ed25519") else None

    ok = False
    why = "unrecognised shape"
    rets = ret_exprs(an)
    # form 1: k256_lookup.map(Secp256k1).or_else(|_| ed25519_lookup.map(From))
    if len(rets) == 1:
        es = strip(rets[0][2])
        if es.k == "call" and es.a[0].name == "or_else" and len(es.a[1]) == 2:
            first = strip(es.a[1][0])
            if first.k == "call" and first.a[0].name == "map" and first.a[1]:
                first = strip(first.a[1][0])
            cl = closure_of(es.a[1][1])
            second = None
            if cl is not None:
                body = closures.closure_return(ctx, cl[0], cl[1], [])
                if body and len(body) == 1:
                    second = strip(body[0])
                    if second.k == "call" and second.a[0].name == "map" and second.a[1]:
                        second = strip(second.a[1][0])
            ok = lib_of(first) == "k256" and second is not None and lib_of(second) == "ed25519"
            why = "first=%s second=%s" % (short(first, 120), short(second, 120) if second is not None else None)
    if not ok:
        # form 2: explicit control flow
        calls = [(b, t) for b, t in x.calls() if t.callee and t.callee.name == "enr_to_public"]
        libs = {}
        for b, t in calls:
            e = an.call_expr(t, b.idx)
            libs[lib_of(e)] = (b.idx, e)
        if set(libs) == {"k256", "ed25519"} and len(calls) == 2:
            kb, ke = libs["k256"]
            eb, ee = libs["ed25519"]
            # the ed25519 lookup runs only after the secp256k1 lookup failed
            after_failure = False
            for d, cond, allowed, alll in an.constraints_at(eb):
                if cond.k == "discr" and allowed and allowed <= {"Err", "Break"}:
                    c = strip(cond.a[0])
                    if c.k == "call" and c.a[0].name == "branch" and c.a[1]:
                        c = strip(c.a[1][0])
                    if same_value(c, ke):
                        after_failure = True
            variants = {}
            bad = []
            for bb, idx, e, node in rets:
                for alt in (strip(e).a[0] if strip(e).k == "phi" else [e]):
                    a = strip(alt)
                    if a.k == "agg" and a.a[0].endswith("Result::Err"):
                        continue
                    if a.k == "call" and a.a[0].name == "from_residual":
                        continue
                    inner = None
                    if a.k == "agg" and a.a[0].endswith("Result::Ok"):
                        inner = strip(a.a[1]["0"])
                    elif a.k == "call" and a.a[0].name == "map" and a.a[1]:
                        # lookup.map(Variant / From::from)
                        src = strip(a.a[1][0])
                        variants[lib_of(src)] = "map"
                        continue
                    if inner is None:
                        bad.append(short(a, 100))
                        continue
                    if inner.k == "agg" and "CombinedPublicKey::" in inner.a[0]:
                        p = ok_payload(inner.a[1]["0"])
                        variants[lib_of(p) if p is not None else None] = inner.a[0].split("::")[-1]
                    elif inner.k == "call" and inner.a[0].name in ("from", "into") and inner.a[1]:
                        p = ok_payload(inner.a[1][0])
                        variants[lib_of(p) if p is not None else None] = "from"
                    else:
                        bad.append(short(inner, 100))
            good_var = variants.get("k256") in ("Secp256k1", "from", "map") and variants.get("ed25519") in ("Ed25519", "from", "map") and None not in variants
            ok = after_failure and good_var and not bad and g.dominates(kb, eb)
            why = "ed25519 lookup after secp256k1 failure: %s; variants %s; other returns %s" % (after_failure, variants, bad)
    report.check("PUBKEY", "enr_to_public/combined", ok, "CombinedKey::enr_to_public tries the secp256k1 entry, then (only if that fails) the ed25519 entry, of the same map",
                 "CombinedKey::enr_to_public is not `secp256k1 lookup, else ed25519 lookup` on the given map: " + why, fn=x.path, sp=x.span, config=cfg)


def payload_rule(ctx, report, rule="PAYLOAD"):
    """R4: the signed payload"""
    cfg = ctx.config
    f = ctx.method("append_rlp_content")
    flag = None
    if f is None:
        # no such helper in this tree: the flattened forms of rlp_content()/encode() are checked instead (framed_flat)
        report.note("Enr::append_rlp_content does not exist in %s: payload layout decided on the flattened rlp_content()/encode()" % cfg)
    else:
        report.analysed_fns.add(f.path)
        ok, problems, em, flag = emit.check_content_stream(ctx, f, 2, True, lambda e: e.k == "param" and e.a[0] == 1, "flag", "append_rlp_content")
        report.check(rule, "append_rlp_content", ok, "append_rlp_content writes [sig if flag] seq (key raw-value)* over the whole content map",
                     "append_rlp_content does not emit exactly `[signature] seq (key value)*`: %s" % "; ".join(problems), fn=f.path, sp=f.span, config=cfg)
    g = ctx.method("rlp_content")
    if g is None:
        report.violate(rule, "rlp_content", "anchor Enr::rlp_content not found", config=cfg)
        return
    report.analysed_fns.add(g.path)
    problems = framed_by_append(ctx, g, False, flag, out_param=None)
    report.check(rule, "rlp_content", not problems, "rlp_content() = list-header(len(stream)) || stream, stream written by append_rlp_content(self, _, false)",
                 "rlp_content() is not the framed content stream without the signature: %s" % "; ".join(problems), fn=g.path, sp=g.span, config=cfg)


def framed_by_append(ctx, g, want_sig, flag_param, out_param):
    """g builds a stream with one call append_rlp_content(self, &mut stream,
    const want_sig) and frames it into `out` (a local that is returned, or
    the parameter out_param)."""
    an = ctx.an(g)
    problems = []
    calls = [(b, t) for b, t in g.calls() if t.callee and t.callee.target() == "Enr::<K>::append_rlp_content"]
    import os
    if len(calls) != 1 or os.environ.get("ENR_FORCE_FLAT"):
        # not cut into helpers the way this tree was: decide on the flattened body
        return framed_flat(ctx, g, want_sig, out_param)
    b, t = calls[0]
    selfarg = strip(an.operand_expr(t.args[0], b.idx, len(b.stmts)))
    if not (selfarg.k == "param" and selfarg.a[0] == 1):
        problems.append("append_rlp_content is not called on self")
    fl = strip(an.operand_expr(t.args[2], b.idx, len(b.stmts)))
    if not (fl.k == "const" and fl.a[0] == (1 if want_sig else 0)):
        problems.append("include_signature argument is %s, expected %s" % (short(fl), want_sig))
    if flag_param is not None and flag_param != 3:
        problems.append("the flag parameter of append_rlp_content is not its third parameter")
    tgt = an.operand_target(t.args[1])
    if tgt is None or tgt[2] is not False or tgt[1] != []:
        return problems + ["stream is not a local buffer"]
    stream = tgt[0]
    muts = shapes.mutations(an, stream)
    if len(muts) != 1:
        problems.append("stream buffer is modified by %d sites, expected only append_rlp_content" % len(muts))
    sdef = shapes.def_expr(an, stream)
    if not (sdef is not None and sdef.k == "call" and sdef.a[0].name in ("new", "with_capacity")):
        problems.append("stream buffer is not fresh")
    if not all(an.cfg.dominates(b.idx, x) for x in an.cfg.exits):
        problems.append("append_rlp_content is not called on every path")
    if out_param is None:
        rets = an.defs().get(0, [])
        out = None
        if len(rets) == 1 and getattr(rets[0][2], "rv", None) is not None and rets[0][2].rv.kind == "use":
            out = trace_local(an, rets[0][2].rv.ops[0])
        if out is None:
            return problems + ["does not return a local buffer"]
        odef = shapes.def_expr(an, out)
        if not (odef is not None and odef.k == "call" and odef.a[0].name in ("new", "with_capacity")):
            problems.append("output buffer is not fresh")
        problems += emit.check_framed(ctx, g, stream, out, False)
    else:
        problems += emit.check_framed(ctx, g, stream, out_param, True)
    return problems


def framed_flat(ctx, g, want_sig, out_param, out_local=None):
    """the same verdict as framed_by_append, on g with every local callee
    spliced in: `out` receives Header{list, len(S)} then S, where S is a fresh
    buffer that receives exactly [signature] seq (key raw-value)* of self.
    out: the parameter out_param, the local out_local of the flattened g, or
    (both None) the local buffer that g returns."""
    fg = ctx.flat(g)
    an = ctx.an(fg)
    problems = []
    if out_local is not None:
        out = out_local
        odef = shapes.def_expr(an, out)
        if not (odef is not None and odef.k == "call" and odef.a[0].name in ("new", "with_capacity")):
            problems.append("output buffer is not fresh")
        out_root, out_via = out, False
    elif out_param is None:
        rets = [r for r in an.defs().get(0, []) if r[0] in an.cfg.succ]
        out = None
        if len(rets) == 1 and getattr(rets[0][2], "rv", None) is not None and rets[0][2].rv.kind == "use":
            out = trace_local(an, rets[0][2].rv.ops[0])
        if out is None:
            return ["does not return a local buffer"]
        odef = shapes.def_expr(an, out)
        if not (odef is not None and odef.k == "call" and odef.a[0].name in ("new", "with_capacity")):
            problems.append("output buffer is not fresh")
        out_root, out_via = out, False
    else:
        out_root, out_via = out_param, True
    em = emit.sink_emissions(ctx, fg, out_root, out_via)
    raws = [e for e in em if e.kind == "raw"]
    if len(raws) != 1 or raws[0].term is None:
        return problems + ["output receives %s, expected a list header then one content stream" % em]
    tgt = an.operand_target(raws[0].term.args[1])
    if tgt is None or tgt[2] is not False or tgt[1] not in ([], ["[]"]):
        return problems + ["the framed stream is not a local buffer"]
    stream = shapes.root_local(an, tgt[0])
    sdef = shapes.def_expr(an, stream)
    if not (sdef is not None and sdef.k == "call" and sdef.a[0].name in ("new", "with_capacity")):
        problems.append("stream buffer is not fresh")
    ok, ps, em2, _ = emit.check_content_stream(ctx, fg, stream, False, lambda e: e.k == "param" and e.a[0] == 1, "always" if want_sig else "never", g.name)
    problems += ps
    problems += emit.check_framed(ctx, fg, stream, out_root, out_via)
    return problems


def record_emissions(ctx):
    """(pre, inl): the emissions of the record's own encoding [signature, seq |
    key, value per pair], taken from <Enr as Encodable>::encode with its helpers
    spliced in - or None if encode is not the framed stream (reported by the
    FORM/LAYOUT rules)"""
    encs = [x for x in ctx.facts.fns if x.name == "encode" and (x.impl_trait or "").endswith("alloy_rlp::Encodable") and x.impl_self and x.impl_self.get("adt") == "Enr"]
    if len(encs) != 1 or framed_flat(ctx, encs[0], True, 2):
        return None
    fg = ctx.flat(encs[0])
    an = ctx.an(fg)
    em = emit.sink_emissions(ctx, fg, 2, True)
    raws = [e for e in em if e.kind == "raw"]
    tgt = an.operand_target(raws[0].term.args[1])
    stream = shapes.root_local(an, tgt[0])
    sem = emit.sink_emissions(ctx, fg, stream, False)
    return [e for e in sem if e.loop is None], [e for e in sem if e.loop is not None]


def reported_rule(ctx, report, f):
    """R5: the record returned by decode is made of what was read"""
    from rules.decoder import DecoderModel
    cfg = ctx.config
    m = DecoderModel(ctx, f)
    if m.problems:
        report.violate("REPORTED", "decode/model", "cannot recover the decoder's structure: %s" % m.problems, fn=f.path, sp=f.span, config=cfg)
        return
    an = m.an
    for b in f.blocks:
        if b.idx not in an.cfg.succ:
            continue
        for i, s in enumerate(b.stmts):
            if s.kind == "assign" and s.rv.kind == "aggregate" and s.rv.j.get("adt") == "Enr":
                fields = s.rv.j["fields"]
                ops = dict(zip(fields, s.rv.ops))
                e = an.rvalue_expr(s.rv, b.idx, i)
                # signature
                sig = strip(e.a[1]["signature"])
                first = an.call_expr(m.pre[0]["term"], m.pre[0]["bb"]) if m.pre else None
                sig_ok = False
                if first is not None and sig.k == "call" and sig.a[0].name in ("to_vec", "into", "to_owned", "from") and sig.a[1]:
                    p = ok_payload(strip(sig.a[1][0]))
                    sig_ok = p is not None and same_value(p, first)
                report.check("REPORTED", "decode/signature", sig_ok, "the record's signature is the first item read", "the decoded record's signature field is not the signature item that was read: %s" % short(sig, 200), fn=f.path, sp=s.sp, config=cfg)
                # seq
                seq = strip(e.a[1]["seq"])
                second = an.call_expr(m.pre[1]["term"], m.pre[1]["bb"]) if len(m.pre) > 1 else None
                p = ok_payload(seq)
                report.check("REPORTED", "decode/seq", p is not None and second is not None and same_value(p, second), "the record's seq is the second item read",
                             "the decoded record's seq is not the seq item that was read: %s" % short(seq, 200), fn=f.path, sp=s.sp, config=cfg)
                # content
                cl = trace_local(an, ops["content"])
                report.check("REPORTED", "decode/content", cl is not None and m.holds_content(cl, b.idx, i), "the record's content is the map filled by the pair loop",
                             "the decoded record's content is not the map filled from the input", fn=f.path, sp=s.sp, config=cfg)
                # every pair read is stored under its own key
                bb, t = m.insert_ev
                kexpr = strip(an.operand_expr(t.args[1], bb, len(f.blocks[bb].stmts)))
                k_ok = kexpr.k == "call" and kexpr.a[0].name in ("to_vec", "into", "to_owned", "from") and kexpr.a[1] and m.is_key(kexpr.a[1][0])
                uncond = all(an.cfg.dominates(bb, tl) for tl in [n for n in m.loop_body if m.loop_head in an.cfg.succ[n]])
                report.check("REPORTED", "decode/pairs", k_ok and uncond, "every pair read is stored under its own key", "pairs read from the input are not all stored under their own key", fn=f.path, sp=t.sp, config=cfg)


def digest_of_msg(ctx, an, e, msg_param):
    """is e `keccak256(msg)` - as a Digest state (new().chain_update(msg) /
    new()+update(msg)) or as 32 output bytes (digest(msg), Keccak256::digest)?"""
    es = strip(e)
    M = P.param(msg_param)
    state = P.call(name="chain_update", full="Keccak256", args=[P.call(name="new", full="Keccak256", args=[]), M])
    if P.match(es, state) is not None:
        return "state"
    # `let mut h = Keccak256::new(); h.update(msg);` - the hasher local after exactly one update with the message
    if es.k == "mutated" and isinstance(es.a[1], int):
        l = es.a[1]
        d = shapes.def_expr(an, l)
        if d is not None and P.match(d, P.call(name="new", full="Keccak256", args=[])) is not None:
            muts = shapes.mutations(an, l)
            if len(muts) == 1 and muts[0]["kind"] == "mutcall":
                t = muts[0]["term"]
                if t.callee and t.callee.name == "update" and len(t.args) == 2 and P.match(an.operand_expr(t.args[1], muts[0]["bb"], muts[0]["idx"]), M) is not None:
                    return "state"
    # Digest::new_with_prefix(msg) is documented as new().chain_update(msg)
    if P.match(es, P.call(name="new_with_prefix", full="Keccak256", args=[M])) is not None:
        return "state"
    if P.match(es, P.call(target="digest", args=[M])) is not None and es.a[0].local:
        return "bytes"
    if P.match(es, P.call(name="digest", full="Keccak256", args=[M])) is not None:
        return "bytes"
    if P.match(es, P.call(name=("finalize", "into"), args=[state])) is not None:
        return "bytes"
    return None


def keccak_state_local(ctx, an, op, msg_param):
    """`let mut h = Keccak256::new(); h.update(msg);` passed by value"""
    l = trace_local(an, op)
    if l is None:
        return False
    d = shapes.def_expr(an, l)
    if d is None or P.match(d, P.call(name="new", full="Keccak256", args=[])) is None:
        return False
    muts = shapes.mutations(an, l)
    if len(muts) != 1 or muts[0]["kind"] != "mutcall":
        return False
    t = muts[0]["term"]
    if not (t.callee and t.callee.name == "update" and len(t.args) == 2):
        return False
    a = strip(an.operand_expr(t.args[1], muts[0]["bb"], muts[0]["idx"]))
    return a.k == "param" and a.a[0] == msg_param


def verify_v4_rule(ctx, report):
    """R6"""
    cfg = ctx.config
    impls = [f for f in ctx.facts.fns if f.kind == "AssocFn" and f.name == "verify_v4" and (f.impl_trait or "").endswith("EnrPublicKey")]
    feats = set(ctx.facts.features)
    want = ("k256" in feats) + ("rust-secp256k1" in feats) + ("ed25519" in feats) + ("k256" in feats and "ed25519" in feats)
    report.check("FLOOR", "verify_v4-impls", len(impls) == want, "one verify_v4 per enabled back-end (%d)" % want, "expected %d verify_v4 impls, found %d" % (want, len(impls)), config=cfg)
    for f in impls:
        report.analysed_fns.add(f.path)
        bn = backend_name(f.impl_self["s"])
        an = ctx.an(f)
        if bn == "combined":
            from rules.c10 import combined_delegates
            ok, why = combined_delegates(ctx, f, "verify_v4", extra=[2, 3])
            report.check("VERIFYV4", "combined", ok, "CombinedPublicKey::verify_v4 delegates (msg, sig) unchanged to the matching variant's key",
                         "CombinedPublicKey::verify_v4: " + why, fn=f.path, sp=f.span, config=cfg)
            continue
        n_true = 0
        problems = []
        for bb, idx, e, node in ret_exprs(an):
            es = strip(e)
            if es.k == "const":
                if es.a[0] != 0:
                    problems.append("returns the constant true at %s" % node.sp)
                continue
            if not (es.k == "call" and es.a[0].name == "is_ok" and es.a[1]):
                problems.append("returns %s" % short(e, 200))
                continue
            inner = strip(es.a[1][0])
            why = check_lib_verify(ctx, an, f, bn, inner, node)
            if why:
                problems.append(why)
            else:
                n_true += 1
        if n_true == 0 and not problems:
            problems.append("never calls the library verification")
        report.check("VERIFYV4", bn, not problems and n_true >= 1,
                     "%s::verify_v4 is true only as is_ok(library verify(self, scheme digest of msg, strictly parsed sig))" % bn,
                     "%s::verify_v4: %s" % (bn, "; ".join(problems)), fn=f.path, sp=f.span, config=cfg)


def check_lib_verify(ctx, an, f, bn, inner, node):
    """inner = the Result whose is_ok() is returned"""
    SIGP = P.param(3)
    if bn == "k256":
        if not (inner.k == "call" and inner.a[0].name == "verify_digest" and len(inner.a[1]) == 3):
            return "result of %s is returned instead of verify_digest" % short(inner, 160)
        key, dig, sig = inner.a[1]
        if P.match(key, P.param(1)) is None:
            return "verifies with a key other than self"
        if digest_of_msg(ctx, an, dig, 2) != "state":
            # maybe a local hasher updated in place
            ok = False
            for b, t in f.calls():
                if t.callee and t.callee.name == "verify_digest" and b.idx == inner.site:
                    ok = keccak_state_local(ctx, an, t.args[1], 2)
            if not ok:
                return "message digest is %s, expected keccak256 over the whole message" % short(dig, 200)
        p = ok_payload(strip(sig))
        if p is None or P.match(p, P.call(name=("try_from", "from_slice", "from_bytes"), full="Signature", args=[SIGP])) is None:
            return "signature operand is %s, expected Signature::try_from(sig) on the unmodified parameter" % short(sig, 200)
        return None
    if bn == "rust-secp256k1":
        if not (inner.k == "call" and inner.a[0].name == "verify_ecdsa" and len(inner.a[1]) == 4):
            return "result of %s is returned instead of verify_ecdsa" % short(inner, 160)
        _, msg, sig, key = inner.a[1]
        if P.match(key, P.param(1)) is None:
            return "verifies with a key other than self"
        ms = strip(msg)
        if not (ms.k == "call" and ms.a[0].name in ("from_digest", "from_digest_slice", "from_slice") and ms.a[1]):
            return "message operand is %s" % short(msg, 160)
        d = strip(ms.a[1][0])
        if d.k == "call" and d.a[0].name == "expect":
            d = strip(d.a[1][0])
        if digest_of_msg(ctx, an, d, 2) != "bytes":
            return "message digest is %s, expected keccak256 over the whole message" % short(d, 200)
        p = ok_payload(strip(sig))
        if p is None or P.match(p, P.call(name="from_compact", full="Signature", args=[SIGP])) is None:
            return "signature operand is %s, expected Signature::from_compact(sig) on the unmodified parameter" % short(sig, 200)
        return None
    if bn == "ed25519":
        # is_ok(try_from(sig).and_then(|s| self.verify(msg, &s)))  or  match forms
        VER = lambda s: P.call(name=("verify", "verify_strict"), full="ed25519_dalek", args=[P.param(1), P.param(2), s])
        TRY = P.call(name=("try_from", "from_slice", "from_bytes"), full="Signature", args=[SIGP])
        if inner.k == "call" and inner.a[0].name == "and_then" and len(inner.a[1]) == 2:
            if P.match(inner.a[1][0], TRY) is None:
                return "signature is parsed by %s" % short(inner.a[1][0], 160)
            cl = closure_of(inner.a[1][1])
            if cl is None:
                return "and_then does not receive a closure"
            from kernel import E
            sarg = E("closure-arg")
            body = closures.closure_return(ctx, cl[0], cl[1], [sarg])
            if not body or len(body) != 1:
                return "closure with several returns"
            b = strip(body[0])
            if not (b.k == "call" and b.a[0].name in ("verify", "verify_strict") and len(b.a[1]) == 3):
                return "closure returns %s" % short(b, 160)
            if P.match(b.a[1][0], P.param(1)) is None:
                return "verifies with a key other than self"
            if P.match(b.a[1][1], P.param(2)) is None:
                return "verifies %s, expected the whole message" % short(b.a[1][1], 120)
            if strip(b.a[1][2]).k != "closure-arg":
                return "verifies a signature other than the parsed one"
            return None
        if inner.k == "call" and inner.a[0].name in ("verify", "verify_strict") and len(inner.a[1]) == 3:
            p = ok_payload(strip(inner.a[1][2]))
            if P.match(inner.a[1][0], P.param(1)) is None or P.match(inner.a[1][1], P.param(2)) is None:
                return "does not verify (self, whole message)"
            if p is None or P.match(p, TRY) is None:
                return "signature operand is %s" % short(inner.a[1][2], 160)
            return None
        return "result of %s is returned instead of Verifier::verify" % short(inner, 160)
    return "unknown back-end"


def forbidden_rule(ctx, report):
    cfg = ctx.config
    hits = []
    ncalls = 0
    for f in ctx.facts.fns:
        for b, t in f.calls():
            ncalls += 1
            if t.callee and t.callee.name in FORBIDDEN:
                hits.append((f.path, t.callee.full, t.sp))
            if t.callee and ("Recoverable" in t.callee.full or "::der::" in t.callee.full):
                hits.append((f.path, t.callee.full, t.sp))
    for path, full, sp in hits:
        report.violate("NOLAUNDER", "%s/%s" % (path.split("::")[-1], full.split("::")[-1]), "signature normaliser / lax parser `%s` is called: a high-S or re-encoded signature could be accepted" % full, fn=path, sp=sp, config=cfg)
    report.ob("NOLAUNDER", "census", not hits, "no normalize_s/to_low_s/DER/recoverable-signature call among %d call sites" % ncalls, cfg, nontrivial=False)


def entry_rule(ctx, report):
    """R8"""
    cfg = ctx.config
    facts = ctx.facts
    from rules.decoder import find_decode
    dec_paths = {f.path for f in find_decode(ctx)}
    fs = [f for f in facts.fns if f.name == "from_str" and (f.impl_trait or "").endswith("FromStr") and f.impl_self and f.impl_self.get("adt") == "Enr"]
    if not fs:
        report.violate("ENTRY", "from_str", "anchor <Enr as FromStr>::from_str not found", config=cfg)
    for f in fs:
        report.analysed_fns.add(f.path)
        an = ctx.an(f)
        n = 0
        for bb, idx, e, node in ret_exprs(an):
            es = strip(e)
            if es.k == "agg" and es.a[0].endswith("Result::Ok"):
                n += 1
                v = strip(es.a[1]["0"])
                cur = v
                ok = False
                for _ in range(6):
                    p = ok_payload(cur)
                    if p is not None:
                        cur = strip(p)
                        continue
                    if cur.k == "call" and cur.a[0].name in ("map_err", "map", "inspect_err") and cur.a[1]:
                        cur = strip(cur.a[1][0])
                        continue
                    break
                if cur.k == "call" and cur.a[0].name == "decode" and cur.a[0].self_ty and cur.a[0].self_ty.get("adt") == "Enr":
                    ok = True
                report.check("ENTRY", "from_str/ok", ok, "from_str returns Ok only with the record Self::decode returned", "from_str returns Ok(%s) which is not the result of Self::decode" % short(v, 200), fn=f.path, sp=node.sp, config=cfg)
            elif es.k == "call" and es.a[0].name in ("map_err", "map") and es.a[1]:
                n += 1
                cur = strip(es.a[1][0])
                ok = cur.k == "call" and cur.a[0].name == "decode" and cur.a[0].self_ty and cur.a[0].self_ty.get("adt") == "Enr"
                report.check("ENTRY", "from_str/ok", ok, "from_str returns what Self::decode returned", "from_str returns %s" % short(es, 200), fn=f.path, sp=node.sp, config=cfg)
        report.check("ENTRY", "from_str/has-ok", n >= 1, "from_str has a success path", fn=f.path, sp=f.span, config=cfg)
    ds = [f for f in facts.fns if f.name == "deserialize" and (f.impl_trait or "").endswith("Deserialize<'de>") and f.impl_self and f.impl_self.get("adt") == "Enr"]
    if "serde" in facts.features and not ds:
        report.violate("ENTRY", "deserialize", "anchor <Enr as Deserialize>::deserialize not found", config=cfg)
    for f in ds:
        report.analysed_fns.add(f.path)
        an = ctx.an(f)
        # every result that can be Ok is from_str's own result (up to error conversion); plain errors are free
        from kernel import result_passthrough
        rest = []
        for r in ret_exprs(an):
            es = strip(r[2])
            if (es.k == "call" and es.a[0].name == "from_residual") or (es.k == "agg" and es.a[0].endswith("Result::Err")):
                continue
            rest.append(r)
        oks, bad = result_passthrough(an, rest, lambda c: c.a[0].name == "from_str" and bool(c.a[0].self_ty) and c.a[0].self_ty.get("adt") == "Enr")
        report.check("ENTRY", "deserialize", oks >= 1 and not bad, "Deserialize returns what from_str returned", "Deserialize can produce a record that did not go through from_str: %s" % bad, fn=f.path, sp=f.span, config=cfg)
    # constructor census
    sites = []
    for f in facts.fns:
        for b in f.blocks:
            if b.cleanup:
                continue
            for s in b.stmts:
                if s.kind == "assign" and s.rv.kind == "aggregate" and s.rv.j.get("adt") == "Enr" and s.rv.j.get("agg") == "adt":
                    sites.append((f.path, f.name, s.sp))
    names = sorted({n for _, n, _ in sites})
    report.check("ENTRY", "constructors", names == ["build", "clone", "decode"], "records are constructed only in decode, build and clone",
                 "records are constructed in %s" % [(p, sp) for p, n, sp in sites if n not in ("build", "clone", "decode")], config=cfg)


def run(ctx, report):
    from rules.decoder import find_decode
    cfg = ctx.config
    decs = find_decode(ctx)
    if not decs:
        report.violate("ANCHOR", "decode", "anchor <Enr as Decodable>::decode not found", config=cfg)
    for f in decs:
        report.analysed_fns.add(f.path)
        gate_rule(ctx, report, f)
        reported_rule(ctx, report, f)
    verify_rule(ctx, report)
    pubkey_rule(ctx, report)
    payload_rule(ctx, report)
    verify_v4_rule(ctx, report)
    forbidden_rule(ctx, report)
    entry_rule(ctx, report)


_own_run = run


def run(ctx, report):
    _own_run(ctx, report)
    from common import Only
    from rules import c02
    # "over exactly the pairs the decoded record then reports": duplicate keys would be collapsed before the signature is checked
    c02._own_run(ctx, Only(report, {"KEYS": "KEYS"}))
    # "a byte string or text is accepted only if ..": the text is that record's text form (exact prefix handling)
    from rules import c12
    c12._own_run(ctx, Only(report, {"PREFIX": "TEXT-PREFIX"}))
    # the outcome of a call is decided by its arguments: no static carries state from one call to the next
    from rules.purity import hidden_state
    hidden_state(ctx, report)

