"""C08 - builder and updates behave like a sorted key/value map."""
import pattern as P
import rlpclass
from common import short
import closures
import shapes
from kernel import closure_of, ok_payload, same_value, strip
from rules import api
from rules.c01 import ret_exprs
from rules.decoder import PROBES, RESERVED
from rules.tables import ValidatorModel
from rules.typestate import trace_local

EXPLANATION = (
    "Table-driven and shape rules over MIR against the T-API oracle: each typed setter / builder method / socket setter writes exactly its wire key(s) with the "
    "canonical encoding of its argument; each remover names exactly its keys and inserts nothing; set_socket's (family, is_tcp) table is {ip,tcp}/{ip,udp}/{ip6,tcp6}/"
    "{ip6,udp6}; insert_raw_rlp returns the value its own content.insert displaced, remove_insert the vectors of displaced values in call order, typed setters the "
    "decoded previous value; the validator accepts for every reserved key exactly the class the decoder reads (so setting the signer's own public key succeeds) and "
    "has no extra rejections; build() hands out a clone of the builder's pairs plus id and the signer's key; every Error variant is constructed only under its cause. "
    "Not decided: equality of whole maps along concrete histories (the write census shows only the named keys change)."
    " Re-uses C05 TS/WRAP/BUILD (every commit and build stores the signer's public key last, validated first)."
)
TRUSTED = ["std BTreeMap::insert/remove return the displaced value"]
ASSUMPTIONS = ["T-API oracle transcribed from the property statement, EIP-778 and EIP-7636"]


def run(ctx, report):
    cfg = ctx.config
    api.writers_rule(ctx, report, "WRITE")
    api.removers_rule(ctx, report, "REMOVE")
    api.set_socket_rule(ctx, report, "SOCKET")
    api.client_info_writers(ctx, report, "CLIENT")
    returns_rule(ctx, report)
    validator_rule(ctx, report, "VALID")
    set_public_key_rule(ctx, report)
    build_content_rule(ctx, report)
    error_kinds_rule(ctx, report)


# ------------------------------------------------------------------ returns


from kernel import assume  # noqa: E402


def returns_rule(ctx, report):
    cfg = ctx.config
    # insert_raw_rlp: Ok(previous value of the caller's key)
    f = api.fn_or_violate(ctx, report, "RETURN", "Enr::<K>::insert_raw_rlp")
    if f is not None:
        an = ctx.an(f)
        good = 0
        bad = []
        for bb, idx, e, node in ret_exprs(an):
            es = strip(e)
            if es.k == "agg" and es.a[0].endswith("Result::Ok"):
                v = strip(es.a[1]["0"])
                if v.k == "call" and v.a[0].name == "insert" and "BTreeMap" in v.a[0].fn:
                    k = strip(v.a[1][1])
                    kk = k.a[1][0] if (k.k == "call" and k.a[0].name in ("to_vec", "into", "to_owned", "from", "clone") and k.a[1]) else k
                    kk = strip(kk)
                    val = strip(v.a[1][2])
                    if kk.k == "param" and kk.a[0] == 2 and val.k == "param" and val.a[0] == 3:
                        good += 1
                        continue
                bad.append(short(v, 160))
        report.check("RETURN", "insert_raw_rlp", good >= 1 and not bad, "insert_raw_rlp returns the value displaced by inserting (key, value)",
                     "insert_raw_rlp returns %s, not the previous value of the caller's key" % bad, fn=f.path, sp=f.span, config=cfg)
    # remove_insert: Ok((removed, inserted)) - vectors of remove()/insert() results pushed in loop order
    f = api.fn_or_violate(ctx, report, "RETURN", "Enr::<K>::remove_insert")
    if f is not None:
        an = ctx.an(f)
        ok = False
        why = "no Ok((removed, inserted))"
        for bb, idx, e, node in ret_exprs(an):
            es = strip(e)
            if es.k == "agg" and es.a[0].endswith("Result::Ok"):
                rv = node.rv
                tl = trace_local(an, rv.ops[0])
                # the tuple aggregate (possibly handed back through Ok(..)/`?` by a spliced-in helper or closure)
                from rules.typestate import value_chain as _vc
                ch = _vc(an, bb, idx, rv.ops[0])
                if ch:
                    tl = ch[0]
                d = an.unique_def(tl) if tl is not None else None
                if d is None and tl is not None:
                    rds = an.reaching_defs(tl, bb, idx)
                    d = rds[0] if len(rds) == 1 and rds[0] != "entry" else None
                if d is None or getattr(d[2], "rv", None) is None or d[2].rv.kind != "aggregate":
                    why = "Ok payload is not a tuple built in place"
                    continue
                from rules.typestate import value_chain
                comps = []
                for o in d[2].rv.ops:
                    ch = value_chain(an, d[0], d[1], o)
                    comps.append(ch[0] if ch else trace_local(an, o))
                kinds = []
                for cl in comps:
                    pushes = []
                    evs = an.events(cl, False) if cl is not None else {}
                    for b2 in sorted(evs):
                        for ev in evs[b2]:
                            if ev["kind"] == "mutcall" and ev["term"].callee and ev["term"].callee.name == "push":
                                t = ev["term"]
                                x = strip(an.operand_expr(t.args[1], ev["bb"], ev["idx"]))
                                px = ok_payload(x)
                                if px is not None:
                                    x = strip(px)  # Ok(content.insert(..)) unwrapped by a collect into Result<Vec<_>, _>
                                pushes.append(x.a[0].name if x.k == "call" and "BTreeMap" in x.a[0].fn else "?")
                            elif ev["kind"] in ("mutcall", "write") and not (ev.get("term") and ev["term"].callee and ev["term"].callee.name in ("push",)):
                                pushes.append("other")
                    kinds.append(pushes)
                ok = kinds == [["remove"], ["insert"]]
                why = "the two returned vectors collect %s" % kinds
        report.check("RETURN", "remove_insert", ok, "remove_insert returns (results of content.remove per key, results of content.insert per pair)",
                     "remove_insert: " + why, fn=f.path, sp=f.span, config=cfg)
    # typed setters: decoded previous value
    for path, rows in api.SETTERS.items():
        f = ctx.facts.fn(path)
        if f is None:
            continue
        an0 = ctx.an(f)
        name = f.name
        somes_per = []
        bad = []
        for guard, _key, _cls in rows:
            an = an0
            if guard is not None:
                def pred(cond, names, _g=guard):
                    c = strip(cond)
                    if c.k == "discr" and names and strip(c.a[0]).k == "param" and strip(c.a[0]).a[0] == 2:
                        return {_g}
                    return None
                an = assume(an0, pred)
            somes = 0
            for bb, idx, e, node in ret_exprs(an):
                es = strip(e)
                if es.k == "call" and es.a[0].name == "map" and (es.a[0].fn or "").startswith("std::result::Result") and len(es.a[1]) == 2:
                    v = es  # `self.insert(..).map(|prev| prev.and_then(decode))`: the Ok payload is the closure's result
                elif not (es.k == "agg" and es.a[0].endswith("Result::Ok")):
                    continue
                else:
                    v = strip(es.a[1]["0"])
                if v.k == "agg" and v.a[0].endswith("Option::None"):
                    continue
                # some decoder applied to the Some payload of the insert result
                exprs = [v] + array_sources(ctx, f, an, v)
                decs, prev = [], []
                for ex in exprs:
                    for c in ex.walk():
                        if c.k == "call" and c.a[0].name == "decode" and (c.a[0].trait or "").endswith("Decodable"):
                            decs.append(c)
                        if c.k == "call" and c.a[0].target() == "Enr::<K>::insert":
                            prev.append(c)
                        cl = closure_of(c) if c.k == "agg" else None
                        if cl is not None:
                            from kernel import E
                            body = closures.closure_return(ctx, cl[0], cl[1], [E("closure-arg")]) or []
                            for bexp in body:
                                for c2 in bexp.walk():
                                    if c2.k == "call" and c2.a[0].name == "decode" and (c2.a[0].trait or "").endswith("Decodable"):
                                        decs.append(c2)
                                    # a private decoding helper passed by name: `prev.and_then(decode_previous_port)`
                                    if c2.k == "const" and isinstance(c2.a[0], tuple) and c2.a[0][0] == "fn":
                                        hf = ctx.facts.fn(c2.a[0][1])
                                        if hf is not None and hf.vis != "pub":
                                            for _bb, _i, he, _n in ret_exprs(ctx.an(hf)):
                                                for c3 in he.walk():
                                                    if c3.k == "call" and c3.a[0].name == "decode" and (c3.a[0].trait or "").endswith("Decodable"):
                                                        decs.append(c3)
                if decs and prev:
                    cls = rlpclass.consumer_class_from_callee(decs[0].a[0]) if hasattr(rlpclass, "consumer_class_from_callee") else rlpclass.class_of_type(decs[0].a[0].self_ty["s"])
                    want = rows[0][2] if len(rows) == 1 else None
                    if want is not None and cls != want:
                        bad.append("previous value decoded as %s" % rlpclass.fmt(cls))
                    elif want is None and cls not in (("BYTES", None), ("BYTES", 4), ("BYTES", 16)):
                        bad.append("previous value decoded as %s" % rlpclass.fmt(cls))
                    else:
                        somes += 1
                else:
                    bad.append("returns %s without decoding the previous raw value" % short(v, 100))

            somes_per.append(somes)
        somes = min(somes_per) if somes_per else 0
        bad = sorted(set(bad))
        report.check("RETURN", name, somes >= 1 and not bad, "%s returns the decoded previous value of its key" % name,
                     "%s does not return the decoded previous value (%d decoding return paths; %s)" % (name, somes, bad), fn=f.path, sp=f.span, config=cfg)


def array_sources(ctx, f, an, v):
    """sources copied into local arrays that feed `From<[u8;N]>::from` calls of v"""
    out = []
    sites = {c.site for c in v.walk() if c.k == "call" and c.a[0].name == "from"}
    for b, t in f.calls():
        if b.idx in sites and t.callee and t.callee.name == "from" and t.args:
            buf = trace_local(an, t.args[0])
            if buf is not None and f.locals[buf]["ty"].get("k") == "array":
                fills, others = shapes.array_fills(an, buf)
                out.extend(fl["src"] for fl in fills)
    # an array that reaches the conversion through an Option/Result payload (built by a spliced-in helper): the origin
    # tree names the local that was filled in place
    if not out:
        for c in v.walk():
            if c.k == "mutated" and isinstance(c.a[1], int) and c.a[1] < len(f.locals) and f.locals[c.a[1]]["ty"].get("k") == "array":
                fills, others = shapes.array_fills(an, c.a[1])
                out.extend(fl["src"] for fl in fills)
    return out


# ------------------------------------------------------------------ validator


def validator_rule(ctx, report, rule="VALID"):
    """the validator accepts, per key, exactly what the decoder reads"""
    cfg = ctx.config
    v = ValidatorModel(ctx)
    if v.problems:
        report.violate(rule, "validator", "cannot find/recover the reserved-key validator: %s" % v.problems, config=cfg)
        return None
    report.analysed_fns.add(v.fn.path)
    an = v.an
    for key, want in list(RESERVED.items()) + [(p, ("ITEM",)) for p in PROBES]:
        r = v.row(key)
        kname = key.decode() or "<empty>"
        ok = r["cls"] == want and r["full"] and (key != b"id" or r["v4"])
        # no rejection beyond the item's own decode (+ v4 for id, + length equality for ITEM)
        extra = extra_rejections(v, r, key)
        report.check(rule, "key:%s" % kname, ok and not extra,
                     "validator accepts for %r exactly one complete %s item%s" % (kname, rlpclass.fmt(want), " equal to v4" if key == b"id" else ""),
                     "validator reads the value of %r as %s%s%s%s; the decoder / EIP-778 say %s" % (
                         kname, rlpclass.fmt(r["cls"]) if r["cls"] else "nothing", "" if r["full"] else " without checking that nothing follows it",
                         " without insisting on v4" if key == b"id" and not r["v4"] else "", (" and additionally rejects on %s" % extra) if extra else "", rlpclass.fmt(want)),
                     fn=v.fn.path, sp=r["sites"][0] if r["sites"] else v.fn.span, config=cfg)
    return v


def extra_rejections(v, r, key):
    """conditions, other than the item decode / full-consumption / v4 tests,
    under which this key's path returns Err"""
    an = v.an
    cfg = an.cfg
    leaf = r["leaf"]
    region = cfg.reach(leaf)
    out = []
    oks = v.ok_blocks()
    for n in sorted(region):
        info = an.switch_info(n)
        if info is None:
            continue
        cond, targets, otherwise, names = info
        c = strip(cond)
        while c.k == "unop" and c.a[0] == "Not":
            c = strip(c.a[1])
        if c.k == "discr":
            continue  # `?` on a decode result
        if c.k == "call" and c.a[0].name == "is_empty":
            continue
        if c.k == "call" and c.a[0].name in ("eq", "ne") and any(strip(x).k == "const" and strip(x).a[0] == b"v4" for x in c.a[1]):
            continue
        if c.k == "binop" and c.a[0] in ("Eq", "Ne") and any(strip(x).k == "field" and strip(x).a[1] == "payload_length" for x in (c.a[1], c.a[2])):
            continue
        # does one edge lead to Err only?
        from kernel import feasible_reach
        tbs = {tb for _, tb in targets} | {otherwise}
        dead = [tb for tb in tbs if not any(ob in feasible_reach(an, tb) for ob in oks)]
        if dead:
            out.append(short(cond, 100))
    return out


def set_public_key_rule(ctx, report):
    cfg = ctx.config
    f = api.fn_or_violate(ctx, report, "WRITE", "Enr::<K>::set_public_key")
    if f is None:
        return
    an = ctx.an(f)
    cs = [(b, t) for b, t in f.calls() if t.callee and t.callee.target() == "Enr::<K>::insert"]
    ok = len(cs) == 1
    why = "%d insert calls" % len(cs)
    if ok:
        b, t = cs[0]
        args = [strip(an.operand_expr(a, b.idx, len(b.stmts))) for a in t.args]
        k_ok = args[1].k == "call" and args[1].a[0].name == "enr_key" and strip(args[1].a[1][0]).k == "param" and strip(args[1].a[1][0]).a[0] == 2
        v = args[2]
        v_ok = v.k == "call" and v.a[0].name == "encode" and (v.a[0].trait or "").endswith("EnrPublicKey") and strip(v.a[1][0]).k == "param" and strip(v.a[1][0]).a[0] == 2
        s_ok = args[3].k == "param" and args[3].a[0] == 3
        ty = t.callee.targs[1]["s"] if len(t.callee.targs) > 1 else "?"
        ok = k_ok and v_ok and s_ok and rlpclass.class_of_type(ty) == ("BYTES", None)
        why = "insert(%s, %s as %s, %s)" % (short(args[1], 60), short(v, 60), ty, short(args[3], 30))
    report.check("WRITE", "set_public_key", ok, "set_public_key stores public_key.encode() as a byte string under public_key.enr_key()",
                 "set_public_key: " + why, fn=f.path, sp=f.span, config=cfg)


# ------------------------------------------------------------------ build


def build_content_rule(ctx, report, rule="BUILD"):
    cfg = ctx.config
    f = api.fn_or_violate(ctx, report, rule, "builder::Builder::<K>::build")
    if f is None:
        return
    an = ctx.an(f)
    found = False
    for b in f.blocks:
        if b.idx not in an.cfg.succ:
            continue
        for i, s in enumerate(b.stmts):
            if s.kind == "assign" and s.rv.kind == "aggregate" and s.rv.j.get("adt") == "Enr":
                found = True
                e = an.rvalue_expr(s.rv, b.idx, i)
                c = strip(e.a[1]["content"])
                ok = c.k == "call" and c.a[0].name == "clone" and (c.a[0].trait or "").endswith("Clone") and P.match(c.a[1][0], P.field(P.param(1), "content")) is not None
                report.check(rule, "build/content", ok, "the built record's pairs are a clone of the builder's map (builder reusable, nothing lost)",
                             "build() does not give the record a clone of the builder's pairs: content = %s" % short(c, 160), fn=f.path, sp=s.sp, config=cfg)
    if not found:
        report.violate(rule, "build/content", "build() constructs no record", fn=f.path, sp=f.span, config=cfg)
    # id = rlp("v4") and the signer's public key are added (on build() with its helpers spliced in)
    from rules.c05 import build_facts
    from rules.typestate import is_pubkey_method
    bf = build_facts(ctx)
    ws = bf.get("writes", []) if bf.get("fn") is not None else []
    ok = True
    idok = False
    pkok = False
    for w in ws:
        if w["kind"] != "insert":
            continue
        if w.get("key") == b"id":
            v = w["value"]
            # the value is rlp(self.id bytes) and build() insists on id == "v4" (checked by ERRKIND / validator for other paths)
            idok = v.get("kind") == "rlp"
        if w.get("pubkey_of") is not None:
            v = w["value"]
            pkok = v.get("kind") == "rlp" and is_pubkey_method(v.get("value"), "encode") is not None and v.get("ty") in ("[u8]", "&[u8]")
    names = [w["what"].split("::")[-1] for w in ws]
    report.check(rule, "build/id-and-key", ok and idok and pkok, "build() adds id and the signer's public key (enr_key() -> encode() as bytes) to the builder's pairs",
                 "build() does not add both `id` and the signer's public key entry (calls: %s)" % names, fn=f.path, sp=f.span, config=cfg)


# ------------------------------------------------------------------ error kinds


def error_kinds_rule(ctx, report, rule="ERRKIND"):
    cfg = ctx.config
    n = 0
    for f in ctx.facts.fns:
        if f.kind not in ("AssocFn", "Fn", "Closure"):
            continue
        an = None
        for b in f.blocks:
            if b.cleanup:
                continue
            for i, s in enumerate(b.stmts):
                if not (s.kind == "assign" and not s.exp and s.rv.kind == "aggregate" and s.rv.j.get("adt") == "error::Error"):
                    continue
                an = an or ctx.an(f)
                if b.idx not in an.cfg.succ:
                    continue
                var = s.rv.j.get("variant")
                n += 1
                ok, why = cause_ok(ctx, f, an, b.idx, i, s, var)
                key = "%s/%s" % (f.name or f.path.split("::")[-2], var)
                report.check(rule, key, ok, "Error::%s in %s is constructed only under its cause" % (var, f.name or f.path), "Error::%s in %s: %s" % (var, f.name or f.path, why), fn=f.path, sp=s.sp, config=cfg)
    report.check(rule, "census", n >= 8, "at least 8 hand-written Error constructions examined (%d)" % n, config=cfg)


def cause_ok(ctx, f, an, bb, idx, s, var):
    cons = an.constraints_at(bb)
    if var == "ExceedsMaxSize":
        return True, ""  # decided by C09 CAUSE
    if var == "SequenceNumberTooHigh":
        # argument of ok_or on a checked_add, or the None branch of one
        for b2, t in f.calls():
            if t.callee and t.callee.name in ("ok_or", "ok_or_else") and len(t.args) == 2:
                a0 = strip(an.operand_expr(t.args[0], b2.idx, len(b2.stmts)))
                a1 = trace_local(an, t.args[1])
                if a0.k == "call" and a0.a[0].name == "checked_add" and s.place.is_local() and a1 == s.place.local:
                    return True, ""
        for d, cond, allowed, alll in cons:
            if cond.k == "discr" and allowed <= {"None"} and strip(cond.a[0]).k == "call" and strip(cond.a[0]).a[0].name == "checked_add":
                return True, ""
        return False, "not tied to a checked_add overflow"
    if var == "UnsupportedIdentityScheme":
        # eagerly built argument of `self.id().ok_or(E)`: the cause is the missing id
        for b2, t in f.calls():
            if t.callee and t.callee.name in ("ok_or", "ok_or_else") and len(t.args) == 2:
                a0 = strip(an.operand_expr(t.args[0], b2.idx, len(b2.stmts)))
                a1 = trace_local(an, t.args[1])
                if a0.k == "call" and a0.a[0].target() == "Enr::<K>::id" and s.place.is_local() and a1 == s.place.local:
                    return True, ""
        # comparisons with the literals: the rejection is taken when the value is NOT v4 (and, if the key is tested, when it IS id)
        saw_v4 = False
        saw_id_key = False
        needs_key = False
        for d, cond, allowed, alll in cons:
            c0 = strip(cond)
            neg = False
            while c0.k == "unop" and c0.a[0] == "Not":
                neg = not neg
                c0 = strip(c0.a[1])
            if not (c0.k == "call" and c0.a[0].name in ("eq", "ne") and len(c0.a[1]) == 2):
                continue
            true_edge = ("otherwise" in allowed or 1 in allowed) and 0 not in allowed
            false_edge = allowed == {0}
            holds = (true_edge and not neg) or (false_edge and neg)
            fails = (false_edge and not neg) or (true_edge and neg)
            equal = (c0.a[0].name == "eq" and holds) or (c0.a[0].name == "ne" and fails)
            differ = (c0.a[0].name == "eq" and fails) or (c0.a[0].name == "ne" and holds)
            lits = [strip(x).a[0] for x in c0.a[1] if strip(x).k == "const"]
            if any(l in (b"v4", "v4") for l in lits):
                if equal:
                    return False, "taken when the value equals v4"
                if differ:
                    saw_v4 = True
                    # whose value is compared? the record's own id entry, or a value the caller passed for some key
                    other = [strip(x) for x in c0.a[1] if strip(x).k != "const"]
                    own = any((x.k == "call" and x.a[0].target() in ("Enr::<K>::id", "Enr::<K>::get", "Enr::<K>::get_raw_rlp")) or (x.k == "field" and x.a[1] == "id") for o_ in other for x in o_.walk())
                    if not own:
                        needs_key = True
            elif any(l in (b"id", "id") for l in lits):
                if differ:
                    return False, "taken for keys other than id"
                if equal:
                    saw_id_key = True
        if saw_v4 and needs_key and not saw_id_key:
            # inside the validator / decoder arm for `id` the key was dispatched on (not an eq call): accept a dispatch on the key
            if not any(c_.k in ("discr", "call", "binop") and any(x.k == "const" and x.a[0] in (b"id", "id") for x in c_.walk()) for _, c_, _, _ in cons) and f.name not in ("check_spec_reserved_keys",) and ctx.facts.j.get("role_anchors", {}).get("validator") != f.path:
                return False, "a caller-supplied value is compared with v4 whatever its key"
        if saw_v4:
            return True, ""
        for d, cond, allowed, alll in cons:
            txt = repr(cond)
            if ("v4" in txt) or ("id" in txt and "::id(" in txt):
                return True, ""
        return False, "not control-dependent on a comparison with v4"
    if var == "SigningError":
        # inside a map_err closure applied to sign_v4, or under a non-v4 id
        if f.kind == "Closure":
            parent = ctx.facts.fn(f.parent) if f.parent else None
            if parent is not None:
                pan = ctx.an(parent)
                for b2, t in parent.calls():
                    if t.callee and t.callee.name == "map_err":
                        a0 = strip(pan.operand_expr(t.args[0], b2.idx, len(b2.stmts)))
                        if a0.k == "call" and a0.a[0].name == "sign_v4":
                            return True, ""
            else:
                # the closure's parent is a private helper that was spliced into its callers: look the closure up where it is used
                from kernel import closure_of
                uses = []
                for h in ctx.facts.fns:
                    if h.kind not in ("Fn", "AssocFn", "Closure"):
                        continue
                    han = None
                    for b2, t in h.calls():
                        if t.callee and t.callee.name == "map_err" and len(t.args) == 2:
                            han = han or ctx.an(h)
                            c = closure_of(han.operand_expr(t.args[1], b2.idx, len(b2.stmts)))
                            if c is not None and c[0] == f.path:
                                a0 = strip(han.operand_expr(t.args[0], b2.idx, len(b2.stmts)))
                                uses.append(a0.k == "call" and a0.a[0].name == "sign_v4")
                if uses and all(uses):
                    return True, ""
            return False, "closure is not the map_err of a sign_v4 result"
        for d, cond, allowed, alll in cons:
            if "v4" in repr(cond):
                return True, ""
            # a test on the identity scheme itself (a slice pattern compares length and bytes one by one)
            if any(x.k == "field" and x.a[1] == "id" and strip(x.a[0]).k == "param" for x in cond.walk()) or any(x.k == "call" and x.a[0].target() == "Enr::<K>::id" for x in cond.walk()):
                return True, ""
        return False, "not tied to a signing failure"
    if var == "InvalidRlpData":
        if f.name == "from" and "From<alloy_rlp::Error>" in f.path:
            return True, ""
        # eagerly built argument of `slice.get(..).ok_or(E)`: the cause is the failed sub-slice
        for b2, t in f.calls():
            if t.callee and t.callee.name in ("ok_or", "ok_or_else") and len(t.args) == 2:
                a0 = strip(an.operand_expr(t.args[0], b2.idx, len(b2.stmts)))
                a1 = trace_local(an, t.args[1])
                if a0.k == "call" and a0.a[0].name in ("get", "first", "last", "split_first", "checked_sub", "strip_prefix") and s.place.is_local() and a1 == s.place.local:
                    return True, ""
        # explicit form of `?`: wraps the very error an alloy-rlp decoder returned
        e = an.rvalue_expr(s.rv, bb, idx)
        if e.k == "agg" and "0" in e.a[1]:
            inner = strip(e.a[1]["0"])
            if inner.k == "vfield" and inner.a[1] == "Err" and strip(inner.a[0]).k == "call" and strip(inner.a[0]).a[0].krate == "alloy_rlp":
                return True, ""
        # explicit: must carry an alloy error and sit under a length/emptiness test of a value
        for d, cond, allowed, alll in cons:
            c = strip(cond)
            while c.k == "unop":
                c = strip(c.a[1])
            if (c.k == "call" and c.a[0].name in ("is_empty", "len")) or (c.k == "binop" and any("len" in repr(x) for x in (c.a[1], c.a[2]))):
                return True, ""
        return False, "not tied to a malformed-value test"
    return False, "unknown variant"


_own_run = run


def run(ctx, report):
    _own_run(ctx, report)
    from common import Only
    from rules import c05
    # "the builder's pairs plus id=v4 and the signer's public key", "an update re-keys": the typestate verdicts of C05
    c05._own_run(ctx, Only(report, {"TS": "TS", "WRAP": "WRAP", "BUILD": "KEYED-BUILD", "SIGN": "SIGN"}))
    from rules import c07
    # "a failing call reports the error kind that matches its cause": in particular it reports an error at all
    c07.run(ctx, Only(report, {"ONCE": "ERRKIND"}, keys=lambda r, k: k.endswith("swallows-error")))
    # the pairs of the map model are what iter() yields
    api.readers_rule(ctx, Only(report, {"READ": "READ"}, keys=lambda r, k: k == "iter"))
    # "plus ... the signer's public key": under the key name of the signer's own scheme (CombinedPublicKey delegates)
    from rules import c11
    c11._own_run(ctx, Only(report, {"DELEG": "DELEG"}))

