"""C12 - text and JSON forms are canonical and strictly parsed."""
import fmtstr
import pattern as P
import shapes
from common import short
from kernel import ok_payload, same_value, strip
from rules.c01 import framed_by_append, ret_exprs
from rules.typestate import trace_local

EXPLANATION = (
    "Abstract-string and shape rules over MIR: to_base64() is the literal \"enr:\" followed by Display of URL_SAFE_NO_PAD.encode(buffer filled only by the "
    "record's own Encodable::encode), whose encode is list-header||[signature seq pairs]; Display writes exactly to_base64(); Serialize is serialize_str of it; "
    "from_str hands the base64 decoder either the parameter or the parameter minus a prefix equal to that same literal (no trim/case/replace), uses the same "
    "engine constant, returns Ok only with decode's record and only if the buffer given to decode is proved empty afterwards; Deserialize goes through from_str "
    "with the string unchanged. Not decided: the base64 crate's engine strictness (padding, trailing bits, alphabet) - library behaviour."
    " Re-uses the C13 rules as CURSOR (decode leaves exactly the unread suffix, which from_str's trailing-data check relies on)."
)
TRUSTED = ["base64 0.22 URL_SAFE_NO_PAD engine rejects padding, foreign alphabet characters and non-zero trailing bits (default config)"]
ASSUMPTIONS = []
PREFIX = b"enr:"
ENGINE = "URL_SAFE_NO_PAD"


def engine_of(e):
    """named constant(s) behind an engine operand"""
    e = strip(e)
    if e.k == "const" and e.meta:
        if e.meta.get("named"):
            return [e.meta["named"]]
        return e.meta.get("refs") or []
    return []


def run(ctx, report):
    cfg = ctx.config
    facts = ctx.facts
    # ---------------- to_base64
    f = ctx.method("to_base64")
    lit = None
    if f is None:
        report.violate("FORM", "to_base64", "anchor Enr::to_base64 not found", config=cfg)
    else:
        report.analysed_fns.add(f.path)
        an = ctx.an(f)
        rets = ret_exprs(an)
        ok, why = False, "unrecognised shape"
        if len(rets) == 1:
            pieces = fmtstr.pieces_of_string(rets[0][2], an)
            if pieces is None:
                why = "return value is not a format!() string: %s" % short(rets[0][2], 200)
            elif len(pieces) == 2 and pieces[0][0] == "lit" and pieces[1][0] == "arg":
                lit = pieces[0][1]
                kind, v, ty, opts = pieces[1][1:]
                enc = strip(v)
                if lit != PREFIX:
                    why = "prefix literal is %r" % lit
                elif kind != "display" or opts:
                    why = "payload is formatted with {:%s} %s" % (kind, opts)
                elif not (enc.k == "call" and (enc.a[0].name, len(enc.a[1])) in (("encode", 2), ("encode_string", 3)) and (enc.a[0].trait or "").endswith("base64::Engine")):
                    why = "payload is %s, expected ENGINE.encode(bytes)" % short(enc, 160)
                elif not any(n.endswith(ENGINE) for n in engine_of(enc.a[1][0])):
                    why = "base64 engine is %s, expected %s" % (engine_of(enc.a[1][0]), ENGINE)
                else:
                    # the encoded bytes: alloy_rlp::encode(self), or a fresh buffer filled only by self.encode
                    from rules.emit import is_encoding_of_self
                    buf = None
                    bexpr = None
                    for b, t in f.calls():
                        if b.idx == enc.site and t.callee and (t.callee.name, len(t.args)) in (("encode", 2), ("encode_string", 3)):
                            bexpr = an.operand_expr(t.args[1], b.idx, len(b.stmts))
                            buf = trace_local(an, t.args[1])
                            if buf is not None and f.local_ty(buf).get("k") == "ref":
                                # the bytes are passed by reference: the buffer is what it points to
                                tg = an.resolve_ref(buf)
                                buf = shapes.root_local(an, tg[0]) if tg is not None and tg[1] == [] and tg[2] is False else None
                    if bexpr is None:
                        why = "cannot find the encoded buffer"
                    elif is_encoding_of_self(ctx, f, an, bexpr) or (buf is not None and is_encoding_of_self(ctx, f, an, None, buf)):
                        ok = True
                    else:
                        why = "the base64 input is not a fresh buffer filled only by self.encode()"
            else:
                why = "text form is %s, expected literal + one argument" % [(p[0], p[1]) for p in pieces]
        report.check("FORM", "to_base64", ok, "to_base64() = \"enr:\" ++ URL_SAFE_NO_PAD(rlp(self))", "to_base64(): " + why, fn=f.path, sp=f.span, config=cfg)

    # ---------------- Encodable::encode of the record
    encs = [x for x in facts.fns if x.name == "encode" and (x.impl_trait or "").endswith("alloy_rlp::Encodable") and x.impl_self and x.impl_self.get("adt") == "Enr"]
    if not encs:
        report.violate("FORM", "encode", "anchor <Enr as Encodable>::encode not found", config=cfg)
    for x in encs:
        report.analysed_fns.add(x.path)
        problems = framed_by_append(ctx, x, True, None, out_param=2)
        report.check("FORM", "encode", not problems, "encode() = list-header(len(stream)) || stream with stream = signature seq pairs",
                     "encode() is not the framed [signature, seq, pairs] stream: %s" % "; ".join(problems), fn=x.path, sp=x.span, config=cfg)

    # ---------------- Display
    ds = [x for x in facts.fns if x.name == "fmt" and (x.impl_trait or "") == "std::fmt::Display" and x.impl_self and x.impl_self.get("adt") == "Enr"]
    if not ds:
        report.violate("FORM", "Display", "anchor <Enr as Display>::fmt not found", config=cfg)
    for x in ds:
        report.analysed_fns.add(x.path)
        an = ctx.an(x)
        rets = ret_exprs(an)
        ok = False
        why = "unrecognised shape"
        if len(rets) == 1:
            pieces = fmtstr.write_fmt_pieces(rets[0][2])
            if pieces is not None and len(pieces) == 1 and pieces[0][0] == "arg":
                kind, v, ty, opts = pieces[0][1:]
                if kind == "display" and not opts and P.match(v, P.call(target="Enr::<K>::to_base64", args=[P.param(1)])) is not None:
                    ok = True
                else:
                    why = "writes {:%s} of %s" % (kind, short(v, 120))
            elif pieces is not None:
                why = "writes %s" % [(p[0], p[1]) for p in pieces]
        report.check("FORM", "Display", ok, "Display writes exactly to_base64()", "Display: " + why, fn=x.path, sp=x.span, config=cfg)

    # ---------------- Serialize
    ss = [x for x in facts.fns if x.name == "serialize" and (x.impl_trait or "").endswith("Serialize") and x.impl_self and x.impl_self.get("adt") == "Enr"]
    if "serde" in facts.features and not ss:
        report.violate("FORM", "Serialize", "anchor <Enr as Serialize>::serialize not found", config=cfg)
    for x in ss:
        report.analysed_fns.add(x.path)
        an = ctx.an(x)
        rets = ret_exprs(an)
        ok = len(rets) == 1 and P.match(rets[0][2], P.call(name="serialize_str", args=[P.param(2), P.call(target="Enr::<K>::to_base64", args=[P.param(1)])])) is not None
        report.check("FORM", "Serialize", ok, "Serialize = serializer.serialize_str(&self.to_base64())", "Serialize does not emit exactly to_base64(): %s" % (short(rets[0][2], 200) if rets else "?"), fn=x.path, sp=x.span, config=cfg)

    from_str_rules(ctx, report, lit)

    # ---------------- Deserialize passes the string unchanged
    dd = [x for x in facts.fns if x.name == "deserialize" and (x.impl_trait or "").endswith("Deserialize<'de>") and x.impl_self and x.impl_self.get("adt") == "Enr"]
    for x in dd:
        report.analysed_fns.add(x.path)
        an = ctx.an(x)
        ok = False
        for bb, idx, e, node in ret_exprs(an):
            es = strip(e)
            if es.k == "call" and es.a[0].name in ("map_err", "map") and es.a[1]:
                es = strip(es.a[1][0])
            if es.k == "call" and es.a[0].name == "from_str" and es.a[1]:
                arg = strip(es.a[1][0])
                p = ok_payload(arg)
                if p is not None and strip(p).k == "call" and strip(p).a[0].name == "deserialize":
                    ok = True
                    st = strip(p).a[0].self_ty or {}
                    owned = st.get("s") in ("std::string::String", "std::borrow::Cow<'_, str>", "std::boxed::Box<str>") or (st.get("adt") in ("std::string::String", "std::borrow::Cow", "std::boxed::Box"))
                    report.check("JSON", "Deserialize/owned", owned, "the JSON string is deserialised into an owned (or Cow) string, so every deserializer and escaped input is accepted",
                                 "the JSON string is deserialised as %s: a borrowed &str only deserialises from input the deserializer can lend out (fails for from_value, from_reader and strings with escapes)" % st.get("s"),
                                 fn=x.path, sp=x.span, config=cfg)
        if not ok:
            # `match Self::from_str(&text) { Ok(enr) => Ok(enr), Err(m) => Err(D::Error::custom(m)) }`: from_str's result up to
            # error conversion, on the deserialised string
            from kernel import result_passthrough

            def is_src(c):
                if not (c.k == "call" and c.a[0].name == "from_str" and c.a[1]):
                    return False
                p_ = ok_payload(strip(c.a[1][0]))
                return p_ is not None and strip(p_).k == "call" and strip(p_).a[0].name == "deserialize"
            rets = [r for r in ret_exprs(an) if not (strip(r[2]).k == "call" and strip(r[2]).a[0].name == "from_residual")]
            n_tied, probs = result_passthrough(an, rets, is_src)
            if n_tied >= 1 and not probs:
                ok = True
                src = [c for r in rets for c in strip(r[2]).walk() if is_src(c)]
                st = strip(ok_payload(strip(src[0].a[1][0]))).a[0].self_ty or {} if src else {}
                owned = st.get("s") in ("std::string::String", "std::borrow::Cow<'_, str>", "std::boxed::Box<str>") or (st.get("adt") in ("std::string::String", "std::borrow::Cow", "std::boxed::Box"))
                report.check("JSON", "Deserialize/owned", owned, "the JSON string is deserialised into an owned (or Cow) string, so every deserializer and escaped input is accepted",
                             "the JSON string is deserialised as %s: a borrowed &str only deserialises from input the deserializer can lend out" % st.get("s"), fn=x.path, sp=x.span, config=cfg)
        report.check("JSON", "Deserialize", ok, "Deserialize parses the deserialised string, unchanged, with from_str", "Deserialize does not hand the JSON string unchanged to from_str", fn=x.path, sp=x.span, config=cfg)


def from_str_rules(ctx, report, lit):
    cfg = ctx.config
    fs = [f for f in ctx.facts.fns if f.name == "from_str" and (f.impl_trait or "").endswith("FromStr") and f.impl_self and f.impl_self.get("adt") == "Enr"]
    if not fs:
        report.violate("PARSE", "from_str", "anchor <Enr as FromStr>::from_str not found", config=cfg)
    for f in fs:
        report.analysed_fns.add(f.path)
        an = ctx.an(f)
        g = an.cfg
        # the base64 decode call
        b64 = [(b, t) for b, t in f.calls() if t.callee and t.callee.name == "decode" and (t.callee.trait or "").endswith("base64::Engine")]
        if len(b64) != 1:
            report.violate("PARSE", "from_str/base64", "from_str calls the base64 decoder %d times" % len(b64), fn=f.path, sp=f.span, config=cfg)
            continue
        b, t = b64[0]
        eng = engine_of(an.operand_expr(t.args[0], b.idx, len(b.stmts)))
        report.check("ENGINE", "from_str/engine", any(n.endswith(ENGINE) for n in eng), "from_str decodes with URL_SAFE_NO_PAD, the engine to_base64 uses",
                     "from_str decodes with engine %s, to_base64 encodes with %s" % (eng, ENGINE), fn=f.path, sp=t.sp, config=cfg)
        # what string is decoded
        s = an.operand_expr(t.args[1], b.idx, len(b.stmts))
        alts = strip(s).a[0] if strip(s).k == "phi" else [s]
        problems = []
        n_suffix = 0
        n_plain = 0
        # `input.strip_prefix(LIT).unwrap_or(input)`: both accepted forms in one expression
        s0 = strip(s)
        if s0.k == "call" and s0.a[0].name == "unwrap_or" and len(s0.a[1]) == 2:
            sp0 = strip(s0.a[1][0])
            dflt = strip(s0.a[1][1])
            if sp0.k == "call" and sp0.a[0].name == "strip_prefix" and len(sp0.a[1]) == 2 and strip(sp0.a[1][0]).k == "param" and dflt.k == "param" and dflt.a[0] == strip(sp0.a[1][0]).a[0] == 1:
                l0 = strip(sp0.a[1][1])
                if l0.k == "const" and isinstance(l0.a[0], bytes):
                    alts = []
                    n_plain = n_suffix = 1
                    if l0.a[0] != (lit or PREFIX):
                        problems.append("strips the prefix %r, to_base64 writes %r" % (l0.a[0], lit or PREFIX))
        for a in alts:
            a = strip(a)
            if a.k == "param" and a.a[0] == 1:
                n_plain += 1
                continue
            suf = suffix_of_param(an, f, a, b.idx)
            if suf is None:
                problems.append("decodes %s" % short(a, 160))
                continue
            n_suffix += 1
            cut, guard_lit, why = suf
            if why:
                problems.append(why)
            elif guard_lit != (lit or PREFIX):
                problems.append("strips the prefix %r, to_base64 writes %r" % (guard_lit, lit or PREFIX))
        if n_plain == 0:
            problems.append("the un-prefixed form is not accepted")
        if n_suffix == 0:
            problems.append("the enr: prefixed form is not accepted")
        report.check("PREFIX", "from_str/input", not problems, "from_str decodes the parameter, or the parameter minus exactly the `enr:` prefix, untransformed",
                     "from_str: " + "; ".join(problems), fn=f.path, sp=t.sp, config=cfg)
        # trailing data
        trailing_rule(ctx, report, f, an)
        text_rejections(ctx, report, f, an)


def text_rejections(ctx, report, f, an):
    """REJECT: from_str refuses nothing that is the text form of a record.  Every
    explicit `Err(..)` exit is taken only when the string is shorter than any
    record's text can be (a length test whose rejected lengths are all below 64),
    when the base64 decoder or the record decoder failed, when a checked prefix
    operation failed, or when bytes are left after the record."""
    import guards
    from rules.c01 import ret_exprs
    from rules.typestate import const_int
    cfg = ctx.config

    def alts(e, depth=0):
        e = strip(e)
        if e.k == "phi" and depth < 8:
            for a in e.a[0]:
                yield from alts(a, depth + 1)
        else:
            yield e

    def failed_call(e):
        return any(x.k == "call" and (x.a[0].local or x.a[0].name in ("decode", "get", "strip_prefix", "split_at_checked", "split_once", "from_utf8")) for x in e.walk())
    bad = []
    n = 0
    for bb, idx, e, node in ret_exprs(an):
        for es in alts(e):
            if not (es.k == "agg" and es.a[0].endswith("Result::Err")):
                continue
            n += 1
            okw = None
            if any(x.k == "vfield" and x.a[1] in ("Err", "Break") for x in es.walk()):
                okw = "converted from a failure"
            for d, cond, allowed, alll in an.constraints_at(bb):
                if okw:
                    break
                c = strip(cond)
                if c.k == "discr":
                    if allowed and allowed <= {"Err", "Break", "None"} and failed_call(c.a[0]):
                        okw = "failed call"
                    continue
                r = guards.constraint_set(cond, allowed, const_int, strip)
                if r is not None:
                    q = strip(r[0])
                    if q.k == "call" and q.a[0].name == "len" and q.a[1] and any(x.k == "param" and x.a[0] == 1 for x in q.a[1][0].walk()):
                        if all(hi != guards.INF and hi < 64 for lo, hi in r[1]):
                            okw = "too short for any record"
                        continue
                neg = False
                c0 = c
                while c0.k == "unop" and c0.a[0] == "Not":
                    neg = not neg
                    c0 = strip(c0.a[1])
                true_edge = ("otherwise" in allowed or 1 in allowed) and 0 not in allowed
                false_edge = allowed == {0}
                holds = (true_edge and not neg) or (false_edge and neg)
                fails = (false_edge and not neg) or (true_edge and neg)
                if c0.k == "call" and c0.a[0].name == "is_empty" and fails and c0.a[1] and strip(c0.a[1][0]).k != "param":
                    okw = "bytes left after the record"
                if c0.k == "call" and c0.a[0].name in ("is_char_boundary",) and fails:
                    okw = "not a character boundary"
            if okw is None:
                bad.append(getattr(node, "sp", None) or "bb%d" % bb)
    report.check("REJECT", "from_str/only-justified", not bad,
                 "each of from_str's %d explicit rejections is taken only for strings too short for any record, after a failed decoder / prefix operation, or when bytes follow the record" % n,
                 "from_str has a rejection that nothing in the text form's definition justifies (or a justified test with the polarity reversed): valid texts can be refused (at %s)" % sorted(set(map(str, bad))),
                 fn=f.path, sp=f.span, config=cfg)


def suffix_of_param(an, f, a, at_bb):
    """a = the parameter with a constant-length prefix removed under a
    starts_with/strip_prefix guard: returns (cut, literal, problem)"""
    p = ok_payload(a)
    cur = strip(p) if p is not None else a
    if cur.k == "call" and cur.a[0].name in ("ok_or", "ok_or_else") and cur.a[1]:
        cur = strip(cur.a[1][0])
    # strip_prefix(param, "lit")
    if cur.k == "call" and cur.a[0].name == "strip_prefix" and len(cur.a[1]) == 2 and strip(cur.a[1][0]).k == "param":
        l = strip(cur.a[1][1])
        if l.k == "const" and isinstance(l.a[0], bytes):
            return len(l.a[0]), l.a[0], None
    cut = None
    if cur.k == "call" and cur.a[0].name in ("get", "index") and len(cur.a[1]) == 2 and strip(cur.a[1][0]).k == "param" and strip(cur.a[1][0]).a[0] == 1:
        r = shapes.range_of(cur.a[1][1])
        if r is not None and r[1] is None and isinstance(r[0], int):
            cut = r[0]
    if cut is None:
        return None
    # the guard: starts_with(param, LIT) true on the way here
    site = cur.site
    lit = None
    for d, cond, allowed, alll in an.constraints_at(site):
        c = strip(cond)
        if c.k == "call" and c.a[0].name == "starts_with" and len(c.a[1]) == 2 and strip(c.a[1][0]).k == "param":
            l = strip(c.a[1][1])
            if l.k == "const" and isinstance(l.a[0], bytes) and allowed <= {"otherwise", 1}:
                lit = l.a[0]
    if lit is None:
        return cut, None, "cuts %d bytes off the input without a starts_with guard" % cut
    if len(lit) != cut:
        return cut, lit, "cuts %d bytes but the guarded prefix %r has %d" % (cut, lit, len(lit))
    return cut, lit, None


def trailing_rule(ctx, report, f, an):
    cfg = ctx.config
    g = an.cfg
    decs = [(b, t) for b, t in f.calls() if t.callee and t.callee.name in ("decode", "decode_exact") and t.callee.self_ty and t.callee.self_ty.get("adt") == "Enr"]
    if not decs:
        decs = [(b, t) for b, t in f.calls() if t.callee and t.callee.name == "decode_exact"]
    if len(decs) != 1:
        report.violate("TRAILING", "from_str/decode", "from_str calls the record decoder %d times" % len(decs), fn=f.path, sp=f.span, config=cfg)
        return
    b, t = decs[0]
    if t.callee.name == "decode_exact":
        report.ob("TRAILING", "from_str/nothing-after", True, "decode_exact rejects trailing bytes", cfg, t.sp)
        return
    cursor = an.operand_target(t.args[0])
    ok = False
    why = "the slice handed to decode is a temporary that is never looked at again"
    if cursor is not None and cursor[2] is False:
        cl = cursor[0]
        # every Ok exit must be constrained by is_empty(cursor) == true evaluated after the decode
        oks = []
        for bb, idx, e, node in ret_exprs(an):
            es = strip(e)
            if es.k == "agg" and es.a[0].endswith("Result::Ok"):
                oks.append((bb, node))
        good_all = bool(oks)
        for bb, node in oks:
            good = False
            for d, cond, allowed, alll in an.constraints_at(bb):
                c = strip(cond)
                neg = False
                if c.k == "unop" and c.a[0] == "Not":
                    neg, c = True, strip(c.a[1])
                test = None
                if c.k == "call" and c.a[0].name == "is_empty":
                    test = ("empty", c.site)
                elif c.k == "binop" and c.a[0] in ("Eq", "Ne"):
                    sides = [strip(c.a[1]), strip(c.a[2])]
                    ln = [x for x in sides if x.k == "call" and x.a[0].name == "len"]
                    z = [x for x in sides if x.k == "const" and x.a[0] == 0]
                    if ln and z:
                        test = ("empty" if c.a[0] == "Eq" else "nonempty", ln[0].site)
                if test is None:
                    continue
                # the tested slice is the cursor local, read after the decode call
                reads = [ev for evs in an.events(cl, False).values() for ev in evs if ev["kind"] in ("read", "readcall")]
                site_ok = any(g.dominates(b.idx, ev["bb"]) and ev["bb"] != b.idx and (ev["bb"] == test[1] or g.dominates(ev["bb"], test[1])) for ev in reads)
                truth = ("otherwise" in allowed or 1 in allowed) and 0 not in allowed
                if neg:
                    truth = allowed == {0}
                is_empty_true = truth if test[0] == "empty" else (allowed == {0} if not neg else truth)
                if site_ok and is_empty_true:
                    good = True
            good_all = good_all and good
        ok = good_all
        if not ok:
            why = "Ok is returned without checking that nothing is left after the record"
    report.check("TRAILING", "from_str/nothing-after", ok, "from_str returns Ok only if the decoded buffer is empty after the record",
                 "from_str accepts bytes after the record: " + why, fn=f.path, sp=t.sp, config=cfg)


_own_run = run


def run(ctx, report):
    _own_run(ctx, report)
    from common import Only
    from rules import c13
    # from_str's trailing-data check presupposes that decode leaves exactly the unread suffix in the cursor
    c13._own_run(ctx, Only(report, {"MODEL": "CURSOR", "OUTER": "CURSOR", "PAYLOAD": "CURSOR", "SUFFIX": "CURSOR"}))
    # "any bytes after the record are rejected" includes bytes smuggled inside an enlarged list: the pair loop ends only on an empty payload
    from rules import c02
    c02._own_run(ctx, Only(report, {"LOOP": "LOOP", "SKEL": "SKEL"}))
    # "parsing it returns an equal record": the parser reads back the public key the record was signed under
    from rules import c01
    c01.pubkey_rule(ctx, Only(report, {"PUBKEY": "PUBKEY"}))

