"""C16 - NodeId value type."""
import fmtstr
import guards
import pattern as P
import shapes
from common import short
from kernel import ok_payload, strip
from rules.c01 import ret_exprs
from rules.typestate import const_int, trace_local

EXPLANATION = (
    "Guard-set, shape and abstract-string rules over MIR: the set of len(input) for which NodeId::parse can reach Ok is exactly {32} and the id is a copy of the "
    "whole input; new/raw/From<[u8;32]>/AsRef/PartialEq<[u8;32]>/From<Enr> are pure projections or copies of the raw field; the serde form is the literal \"0x\" "
    "followed by hex::encode(raw), written with serialize_str, and deserialisation strips at most one prefix equal to that literal before <[u8;32] as FromHex>::from_hex "
    "(64 digits by its contract); Debug is \"0x\" + hex::encode(raw); the data-dependent parts of Display are exactly hex of the first two and of the last two bytes. "
    "Not decided: the hex crate's behaviour (lower-case output, mixed-case input)."
)
TRUSTED = ["hex 0.4: encode() is lower-case, 2 digits per byte; <[u8;32] as FromHex>::from_hex accepts exactly 64 hex digits (either case)"]
WITNESSES = ['W4']  # compile-fail witnesses run in the thorough tier (witness/src/lib.rs)
ASSUMPTIONS = []


def one_ret(ctx, f):
    an = ctx.an(f)
    rets = ret_exprs(an)
    return an, rets


def run(ctx, report):
    cfg = ctx.config
    facts = ctx.facts
    # ------------------------------------------------------------ parse
    f = facts.fn("node_id::NodeId::parse")
    if f is None:
        report.violate("PARSE", "parse", "anchor NodeId::parse not found", config=cfg)
    else:
        report.analysed_fns.add(f.path)
        an = ctx.an(f)
        oks = []
        for bb, idx, e, node in ret_exprs(an):
            es = strip(e)
            if es.k == "agg" and es.a[0].endswith("Result::Ok"):
                oks.append((bb, es, node))
            elif es.k == "call" and es.a[0].name in ("map", "map_err") and es.a[1]:
                inner = strip(es.a[1][0])
                if inner.k == "call" and inner.a[0].name == "try_from" and "[u8; 32]" in inner.a[0].full and strip(inner.a[1][0]).k == "param":
                    oks.append((bb, None, node))
        report.check("PARSE", "parse/has-ok", bool(oks), "parse has a success path", fn=f.path, sp=f.span, config=cfg)
        for bb, es, node in oks:
            if es is None:
                report.ob("PARSE", "parse/exactly-32", True, "parse succeeds via <[u8;32]>::try_from(slice): exactly 32 bytes", cfg, node.sp)
                continue
            # Ok(NodeId { raw }) with raw the success payload of <[u8;32]>::try_from(input): exactly 32 bytes, copied (std contract)
            v0 = strip(es.a[1]["0"])
            if v0.k == "call" and v0.a[0].target() == "node_id::NodeId::new" and len(v0.a[1]) == 1:
                # NodeId::new(r) with r: &[u8; 32] = the success payload of <&[u8; 32]>::try_from(input) (new copies *r: IDENT/new)
                r0 = strip(v0.a[1][0])
                while r0.k in ("deref", "ref"):
                    r0 = strip(r0.a[0])
                src0 = ok_payload(r0)
                sc0 = strip(src0) if src0 is not None else None
                if sc0 is not None and sc0.k == "call" and sc0.a[0].name in ("try_from", "try_into") and "[u8; 32]" in sc0.a[0].full and strip(sc0.a[1][0]).k == "param" and strip(sc0.a[1][0]).a[0] == 1:
                    report.ob("PARSE", "parse/exactly-32", True, "parse succeeds via <&[u8;32]>::try_from(slice): exactly 32 bytes", cfg, node.sp)
                    report.ob("PARSE", "parse/copies-input", True, "the parsed id is NodeId::new of the array <&[u8;32]>::try_from borrowed from the input", cfg, node.sp)
                    continue
            if v0.k == "agg" and v0.a[0].endswith("NodeId::NodeId"):
                raw0 = strip(v0.a[1]["raw"])
                while raw0.k == "deref":
                    raw0 = strip(raw0.a[0])  # `*r` with r: &[u8; 32] from <&[u8; 32]>::try_from(slice)
                src = ok_payload(raw0)
                sc = strip(src) if src is not None else None
                if sc is not None and sc.k == "call" and sc.a[0].name in ("try_from", "try_into") and "[u8; 32]" in sc.a[0].full and strip(sc.a[1][0]).k == "param" and strip(sc.a[1][0]).a[0] == 1:
                    report.ob("PARSE", "parse/exactly-32", True, "parse succeeds via <[u8;32]>::try_from(slice): exactly 32 bytes", cfg, node.sp)
                    report.ob("PARSE", "parse/copies-input", True, "the parsed id is the array <[u8;32]>::try_from copied from the input", cfg, node.sp)
                    continue
            adm = [(0, guards.INF)]
            for d, cond, allowed, alll in an.constraints_at(bb):
                r = guards.constraint_set(cond, allowed, const_int, strip)
                if r is None:
                    continue
                q, s = r
                qs = strip(q)
                if qs.k == "call" and qs.a[0].name == "len" and qs.a[1] and strip(qs.a[1][0]).k == "param" and strip(qs.a[1][0]).a[0] == 1:
                    adm = guards.intersect(adm, s)
            report.check("PARSE", "parse/exactly-32", adm == [(32, 32)], "parse returns Ok only for slices of exactly 32 bytes",
                         "parse returns Ok for slices whose length is in %s (must be exactly 32)" % guards.fmt(adm), fn=f.path, sp=node.sp, config=cfg)
            # the id is the input
            v = strip(es.a[1]["0"])
            good = False
            if v.k == "agg" and v.a[0].endswith("NodeId::NodeId"):
                buf = None
                for b in f.blocks:
                    for i, s in enumerate(b.stmts):
                        if s.kind == "assign" and s.rv.kind == "aggregate" and s.rv.j.get("adt") == "node_id::NodeId":
                            buf = trace_local(an, s.rv.ops[0])
                if buf is not None:
                    fills, others = shapes.array_fills(an, buf)
                    if len(fills) == 1 and not others and fills[0]["src"].k == "param" and fills[0]["src"].a[0] == 1 and fills[0]["range"][0] == 0:
                        good = True
                raw = strip(v.a[1]["raw"])
                if raw.k == "call" and raw.a[0].name in ("expect", "unwrap") and raw.a[0].fn.startswith("std::result::Result") and raw.a[1]:
                    raw = strip(raw.a[1][0])  # the length is pinned by the guard decided above
                    raw = raw if not (raw.k == "call" and raw.a[0].name in ("try_into", "try_from") and not (raw.a[1] and strip(raw.a[1][0]).k == "param" and strip(raw.a[1][0]).a[0] == 1)) else v
                if raw.k == "deref" or (raw.k == "call" and raw.a[0].name in ("try_into", "try_from")):
                    good = True
            report.check("PARSE", "parse/copies-input", good, "the parsed id is a copy of the input bytes from offset 0", "parse does not copy the whole input into the id", fn=f.path, sp=node.sp, config=cfg)

    # ------------------------------------------------------------ identity accessors
    RAW = P.field(P.param(1), "raw")
    specs = [
        ("node_id::NodeId::new", "new", lambda e: P.match(e, P.agg("NodeId::NodeId", {"raw": P.param(1)})) is not None),
        ("node_id::NodeId::raw", "raw", lambda e: P.match(e, RAW) is not None),
        ("<node_id::NodeId as std::convert::From<[u8; 32]>>::from", "From<[u8;32]>", lambda e: P.match(e, P.agg("NodeId::NodeId", {"raw": P.param(1)})) is not None),
        ("<node_id::NodeId as std::convert::AsRef<[u8]>>::as_ref", "AsRef<[u8]>", lambda e: P.match(e, RAW) is not None or P.match(e, ("index", RAW, P.agg("RangeFull"))) is not None),
        ("<node_id::NodeId as std::cmp::PartialEq<[u8; 32]>>::eq", "PartialEq<[u8;32]>", lambda e: P.match(e, P.call(name="eq", trait="PartialEq", args=[RAW, P.param(2)])) is not None or P.match(e, P.call(name="eq", trait="PartialEq", args=[P.param(2), RAW])) is not None),
        ("<node_id::NodeId as std::convert::From<Enr<T>>>::from", "From<Enr>", lambda e: P.match(e, P.call(name="node_id", args=[P.param(1)])) is not None),
        ("<node_id::NodeId as std::convert::From<&Enr<T>>>::from", "From<&Enr>", lambda e: P.match(e, P.call(name="node_id", args=[P.param(1)])) is not None),
    ]
    def find_ident(path, nm):
        f0 = facts.fn(path)
        if f0 is not None:
            return f0
        # the same impl under another spelling of the array type (e.g. a named length constant)
        for x in facts.fns:
            if not (x.impl_self and x.impl_self.get("adt") == "node_id::NodeId" and x.impl_trait):
                continue
            t = x.impl_trait
            arr = any(i.get("k") == "array" and i.get("n") == 32 for i in x.inputs) or any(i.get("k") == "ref" and i.get("of", {}).get("k") == "array" and i["of"].get("n") == 32 for i in x.inputs)
            if nm == "From<[u8;32]>" and x.name == "from" and t.startswith("std::convert::From<[u8;"):
                return x
            if nm == "PartialEq<[u8;32]>" and x.name == "eq" and t.startswith("std::cmp::PartialEq<[u8;"):
                return x
        return None

    for path, nm, pred in specs:
        f = find_ident(path, nm)
        if f is None:
            report.violate("IDENT", nm, "anchor %s not found" % path, config=cfg)
            continue
        report.analysed_fns.add(f.path)
        an, rets = one_ret(ctx, f)
        ok = len(rets) == 1 and pred(rets[0][2])
        report.check("IDENT", nm, ok, "%s is a pure projection/copy of the 32 raw bytes" % nm, "%s is not the identity on the raw bytes: %s" % (nm, short(rets[0][2], 160) if rets else "?"), fn=f.path, sp=f.span, config=cfg)

    # ------------------------------------------------------------ Debug / Display
    HEXRAW = P.call(name="encode", fn="hex::encode", args=[RAW])
    f = facts.fn("<node_id::NodeId as std::fmt::Debug>::fmt")
    if f is None:
        report.violate("TEXT", "Debug", "anchor <NodeId as Debug>::fmt not found", config=cfg)
    else:
        report.analysed_fns.add(f.path)
        an, rets = one_ret(ctx, f)
        pieces = fmtstr.flatten_pieces(an, fmtstr.write_fmt_pieces(rets[0][2])) if len(rets) == 1 else None
        ok = pieces is not None and len(pieces) == 2 and pieces[0] == ("lit", b"0x") and pieces[1][0] == "arg" and pieces[1][1] == "display" and not pieces[1][4] and P.match(pieces[1][2], HEXRAW) is not None
        report.check("TEXT", "Debug", ok, "Debug prints \"0x\" followed by hex of all 32 bytes", "Debug is not \"0x\" + hex::encode(raw): %s" % describe(pieces), fn=f.path, sp=f.span, config=cfg)
    f = facts.fn("<node_id::NodeId as std::fmt::Display>::fmt")
    if f is None:
        report.violate("TEXT", "Display", "anchor <NodeId as Display>::fmt not found", config=cfg)
    else:
        report.analysed_fns.add(f.path)
        an, rets = one_ret(ctx, f)
        pieces = fmtstr.flatten_pieces(an, fmtstr.write_fmt_pieces(rets[0][2])) if len(rets) == 1 else None
        ok = False
        why = describe(pieces)
        if pieces is not None:
            args = [p for p in pieces if p[0] == "arg"]
            if len(args) == 2 and all(a[1] == "display" and not a[4] for a in args):
                r0 = hex_byte_range(args[0][2])
                r1 = hex_byte_range(args[1][2])
                ok = r0 == (0, 2) and r1 == (30, 32)
                why = "data parts cover bytes %s and %s, expected (0,2) and (30,32)" % (r0, r1)
        report.check("TEXT", "Display", ok, "Display shows hex of the first two and of the last two bytes", "Display: " + why, fn=f.path, sp=f.span, config=cfg)
        if pieces is not None:
            tmpl = b"".join(p_[1] if p_[0] == "lit" else b"{}" for p_ in pieces)
            report.check("TEXT", "Display/template", tmpl == b"0x{}..{}", "the constant parts of Display are `0x`, `..` around the two hex groups (the documented short form 0xabcd..ef12)",
                         "Display's constant parts are %r, the short form is 0x{}..{}" % tmpl, fn=f.path, sp=f.span, config=cfg)

    # ------------------------------------------------------------ serde
    if "serde" not in facts.features:
        return
    serde_rules(ctx, report)


def serde_rules(ctx, report):
    """NodeId's derived Serialize/Deserialize route the raw [u8;32] through a
    `with =` module: analyse that module's functions (or, when they were
    inlined because they are not anchors, the derived impl itself)."""
    from rules.typestate import trace_local
    cfg = ctx.config
    facts = ctx.facts
    RAW = P.field(P.param(1), "raw")
    for nm in ("serialize", "deserialize"):
        fs = [x for x in facts.fns if x.name == nm and x.impl_self and x.impl_self.get("adt") == "node_id::NodeId" and "_serde::" in (x.impl_trait or "")]
        if not fs:
            report.violate("JSON", "derive/" + nm, "derived %s for NodeId not found" % nm, config=cfg)
            continue
        x = fs[0]
        report.analysed_fns.add(x.path)
        an = ctx.an(x)
        rets = ret_exprs(an)
        # does the derived impl delegate to a module function that still exists as its own body?
        target = None
        for bb, idx, e, node in rets:
            for c in e.walk():
                if c.k == "call" and c.a[0].local and c.a[0].name == nm and not c.a[0].trait and facts.fn(c.a[0].target()) is not None:
                    target = c
        if target is not None:
            g = facts.fn(target.a[0].target())
            report.analysed_fns.add(g.path)
            t32 = any(t["s"].startswith("[u8; ") for t in target.a[0].targs)
            if nm == "serialize":
                routed = t32 and P.match(target.a[1][0], RAW) is not None
            else:
                routed = t32
            report.check("JSON", "derive/" + nm, routed, "NodeId's serde %s goes through the 0x-hex module on the raw [u8;32]" % nm,
                         "NodeId's derived %s does not hand the raw field to the hex module" % nm, fn=x.path, sp=x.span, config=cfg)
            body_fn, data_pat, ser_param = g, P.param(1), 2
        else:
            report.ob("JSON", "derive/" + nm, True, "NodeId's serde %s (hex module inlined)" % nm, cfg, x.span)
            body_fn, data_pat, ser_param = x, RAW, 2
        ban = ctx.an(body_fn)
        if nm == "serialize":
            ok, why = serialize_shape(ctx, body_fn, ban, data_pat, ser_param)
            report.check("JSON", "serialize", ok, "the JSON form is the string \"0x\" + hex::encode(raw)", "serialize: " + why, fn=body_fn.path, sp=body_fn.span, config=cfg)
        else:
            ok, why = deserialize_shape(ctx, body_fn, ban)
            report.check("JSON", "deserialize", ok, "deserialisation = from_hex(string minus at most one \"0x\" prefix), string otherwise unchanged", "deserialize: " + why, fn=body_fn.path, sp=body_fn.span, config=cfg)


def serialize_shape(ctx, f, an, data_pat, ser_param):
    from rules.typestate import trace_local
    rets = ret_exprs(an)
    if len(rets) != 1:
        return False, "%d return paths" % len(rets)
    bb, idx, e, node = rets[0]
    es = strip(e)
    if not (es.k == "call" and es.a[0].name == "serialize_str" and len(es.a[1]) == 2 and strip(es.a[1][0]).k == "param"):
        return False, short(es, 160)
    pieces = fmtstr.pieces_of_string(es.a[1][1])
    if pieces is None:
        # a String assembled with push_str
        for b, t in f.calls():
            if b.idx == es.site and t.callee and t.callee.name == "serialize_str":
                tgt = an.operand_target(t.args[1])
                if tgt is not None and tgt[2] is False:
                    import shapes
                    pieces = fmtstr.pieces_of_string_buffer(an, shapes.root_local(an, tgt[0]))
    HEXD = P.call(name="encode", fn="hex::encode", args=[data_pat])
    ok = pieces is not None and len(pieces) == 2 and pieces[0] == ("lit", b"0x") and pieces[1][0] == "arg" and pieces[1][1] == "display" and not pieces[1][4] and P.match(pieces[1][2], HEXD) is not None
    return ok, describe(pieces)


def success_sources(e, depth=0):
    """terminal expressions a Result-valued return can take its Ok from"""
    e = strip(e)
    if depth > 12:
        yield e
        return
    if e.k == "phi":
        for a in e.a[0]:
            yield from success_sources(a, depth + 1)
    elif e.k == "mutated":
        yield from success_sources(e.a[0], depth + 1)
    elif e.k == "call" and e.a[0].name in ("map", "map_err") and e.a[1] and e.a[0].fn.startswith("std::result::Result"):
        yield from success_sources(e.a[1][0], depth + 1)
    elif e.k == "call" and e.a[0].name == "from_residual":
        return
    elif e.k == "agg" and e.a[0].endswith("Result::Err"):
        return
    elif e.k == "agg" and e.a[0].endswith("Result::Ok"):
        p = ok_payload(e.a[1]["0"])
        yield from success_sources(p if p is not None else e.a[1]["0"], depth + 1)
    else:
        yield e


def deserialize_shape(ctx, f, an):
    good = 0
    bad = []
    for bb, idx, e, node in ret_exprs(an):
        for cur in success_sources(e):
            if cur.k == "call" and cur.a[0].name == "from_hex" and (cur.a[0].trait or "").endswith("FromHex") and cur.a[1]:
                if hex_source_ok(cur.a[1][0]):
                    good += 1
                else:
                    bad.append("hex source is %s" % short(cur.a[1][0], 200))
            else:
                bad.append(short(cur, 160))
    # nothing but the string deserialiser and the hex decoder rejects: an explicit Err is taken only when one of
    # them failed, or on a length of the hex source that the decoder refuses anyway (!= 64 digits for 32 bytes)
    import guards
    from rules.typestate import const_int

    def lib_failure(x):
        return x.k == "call" and ((x.a[0].name == "from_hex" and (x.a[0].trait or "").endswith("FromHex")) or (x.a[0].name or "").startswith("deserialize"))
    for bb, idx, e, node in ret_exprs(an):
        for es in _alternatives(strip(e)):
            if not (es.k == "agg" and es.a[0].endswith("Result::Err")):
                continue
            derived = any(lib_failure(x) for x in es.walk())
            adm = [(0, guards.INF)]
            for d, cond, allowed, alll in an.constraints_at(bb):
                if cond.k == "discr" and allowed and allowed <= {"Err", "Break", "None"} and any(lib_failure(x) for x in cond.walk()):
                    derived = True
                r = guards.constraint_set(cond, allowed, const_int, strip)
                if r is not None:
                    q = strip(r[0])
                    if q.k == "call" and q.a[0].name == "len" and q.a[1] and hex_source_ok(q.a[1][0]):
                        adm = guards.intersect(adm, r[1])
            if derived or not any(lo <= 64 <= hi for lo, hi in adm):
                continue
            bad.append("a rejection that is neither the string deserialiser's nor the hex decoder's (at %s): strings the specification accepts may be refused" % getattr(node, "sp", "?"))
    return good >= 1 and not bad, "; ".join(bad) or "from_hex not reached"


def _alternatives(e, depth=0):
    if e.k == "phi" and depth < 8:
        for a in e.a[0]:
            yield from _alternatives(strip(a), depth + 1)
    else:
        yield e


def hex_source_ok(src):
    """S, or S minus at most one leading "0x" (strip_prefix), S = the deserialised string"""
    src = strip(src)
    S = None
    if src.k == "call" and src.a[0].name == "unwrap_or" and len(src.a[1]) == 2:
        sp = strip(src.a[1][0])
        if sp.k == "call" and sp.a[0].name == "strip_prefix" and len(sp.a[1]) == 2 and strip(sp.a[1][1]).k == "const" and strip(sp.a[1][1]).a[0] == b"0x":
            if repr(strip(sp.a[1][0])) == repr(strip(src.a[1][1])):
                S = strip(sp.a[1][0])
    elif src.k == "phi":
        # match raw.strip_prefix("0x") { Some(x) => x, None => &raw }
        alts = [strip(a) for a in src.a[0]]
        plain = [a for a in alts if ok_payload(a) is None]
        stripped = [a for a in alts if ok_payload(a) is not None]
        if len(plain) == 1 and len(stripped) == 1:
            sp = strip(ok_payload(stripped[0]))
            if sp.k == "call" and sp.a[0].name == "strip_prefix" and len(sp.a[1]) == 2 and strip(sp.a[1][1]).k == "const" and strip(sp.a[1][1]).a[0] == b"0x":
                if repr(strip(sp.a[1][0])) == repr(plain[0]):
                    S = plain[0]
    if S is None:
        return False
    banned = ("trim", "to_lowercase", "to_uppercase", "replace", "trim_start_matches", "trim_matches", "trim_end_matches", "to_ascii_lowercase", "split_at")
    return any(c.k == "call" and (c.a[0].name or "").startswith("deserialize") for c in S.walk()) and not any(c.k == "call" and c.a[0].name in banned for c in S.walk())


def describe(pieces):
    if pieces is None:
        return "not a recognisable format string"
    out = []
    for p in pieces:
        if p[0] == "lit":
            out.append(repr(p[1]))
        else:
            out.append("{%s:%s}" % (p[1], short(p[2], 80)))
    return " ".join(out)


def hex_byte_range(e):
    """which bytes of self.raw a displayed &str shows: hex(raw)[a..b] -> (a/2, b/2);
    hex(raw[a..b]) -> (a, b)"""
    e = strip(e)
    RAW = P.field(P.param(1), "raw")
    sub = shapes.ascii_sub(e)
    if sub is not None and not (sub[1] == 0 and sub[0] is e):
        root, lo, hi = sub
        if P.match(root.a[1][0], RAW) is None or lo % 2 or hi % 2:
            return None
        return (lo // 2, hi // 2)
    if e.k == "call" and e.a[0].name == "encode" and "hex::encode" in e.a[0].fn and e.a[1]:
        inner = strip(e.a[1][0])
        if inner.k == "call" and inner.a[0].name == "index" and P.match(inner.a[1][0], RAW) is not None:
            r = shapes.range_of(inner.a[1][1])
            if r and isinstance(r[0], tuple) and r[1] is None:
                # raw[raw.len() - c ..] on the 32-byte array
                x = strip(r[0][1])
                if x.k == "field" and x.a[1] == "0" and x.a[0].k == "binop":
                    x = x.a[0]
                if x.k == "binop" and x.a[0].startswith("Sub"):
                    a_, b_ = strip(x.a[1]), strip(x.a[2])
                    if a_.k == "call" and a_.a[0].name == "len" and a_.a[1] and P.match(a_.a[1][0], RAW) is not None and b_.k == "const" and isinstance(b_.a[0], int) and 0 <= b_.a[0] <= 32:
                        return (32 - b_.a[0], 32)
            if r and isinstance(r[0], int) and (r[1] is None or isinstance(r[1], int)):
                return (r[0], 32 if r[1] is None else r[1])
        # any constant sub-slice of raw: split_at halves, nested ranges
        r = shapes.slice_range(inner)
        if r is not None and r != (0, None) and isinstance(r[0], int) and (r[1] is None or isinstance(r[1], int)) and P.match(shapes.slice_base(inner), RAW) is not None:
            return (r[0], 32 if r[1] is None else r[1])
    return None
