"""Effect (write-set) analysis for functions that receive `&mut Enr<K>`:
which fields of the record may have been modified, and not restored, when a
given exit is reached.  Used by C06 (atomicity) and by the typestate rules.
"""
from common import is_enr_ty, is_ref_to, short
from kernel import E, ok_payload, strip, try_payload


def takes_mut_record(fn):
    return bool(fn.inputs) and is_ref_to(fn.inputs[0], is_enr_ty, mut=True)


def returns_result(fn):
    o = fn.output
    return bool(o) and o.get("k") == "adt" and o.get("adt") == "std::result::Result"


def result_call_site(e):
    """If e denotes the Result produced by a call (possibly seen through
    Try::branch), return that call node."""
    e = strip(e)
    if e.k == "call" and e.a[0].trait == "std::ops::Try" and e.a[0].name == "branch":
        e = strip(e.a[1][0])
    if e.k == "call":
        return e
    return None


ERR_PRESERVING = ("map", "map_err", "and_then", "inspect", "inspect_err")


class Summary:
    def __init__(self, atomic, writes_on_ok, returns_old, is_result):
        self.atomic = atomic  # Err => *self unchanged
        self.writes_on_ok = writes_on_ok  # set of field names, may contain '*'
        self.returns_old = returns_old  # field whose previous value is the Ok payload
        self.is_result = is_result


class EffectAnalysis:
    """Forward may-analysis of dirty tokens (field, origin, site)."""

    def __init__(self, ctx, fn, summaries):
        self.ctx = ctx
        self.fn = fn
        self.an = ctx.an(fn)
        self.summaries = summaries
        self.events = self.an.events(1, True)
        self.problems = []  # unrecognised shapes (fail closed)
        self._state_in = None

    # ---- classify one event into gen/kill ------------------------------
    def _callee_summary(self, ev):
        t = ev.get("term")
        if t is None or t.callee is None:
            return None
        tgt = t.callee.target()
        if ev["path"] == [] and ev["arg"] == 0 and tgt in self.summaries:
            return self.summaries[tgt]
        return None

    def transfer_event(self, ev, state, bb):
        """returns new state (frozenset of tokens)"""
        kind = ev["kind"]
        st = set(state)
        field = ev["path"][0] if ev["path"] else "*"
        site = (ev["bb"], ev["idx"])
        if kind == "write":
            s = ev.get("stmt")
            restored = False
            if s is not None and s.rv is not None and s.rv.kind == "use" and field != "*":
                restored = self._is_restore(s, field, st, ev)
            if restored:
                st = {t for t in st if t[0] != field}
            else:
                st.add((field, "direct", site))
        elif kind == "mutcall":
            summ = self._callee_summary(ev)
            if summ is not None:
                if summ.atomic and summ.is_result:
                    for f in summ.writes_on_ok:
                        st.add((f, "call", site))
                else:
                    for f in summ.writes_on_ok or {"*"}:
                        st.add((f, "direct", site))
            else:
                st.add((field, "direct", site))
        elif kind == "escape":
            st.add(("*", "direct", site))
        return frozenset(st)

    def _is_restore(self, stmt, field, st, ev):
        """`self.f = X` where X provably holds the value f had on entry."""
        an = self.an
        op = stmt.rv.ops[0]
        if op.kind not in ("copy", "move"):
            return False
        e = an.operand_expr(op, ev["bb"], ev["idx"])
        # (b) previous value handed back by an atomic callee (e.g. sign)
        inner = ok_payload(e)
        if inner is not None:
            c = result_call_site(inner)
            if c is not None:
                tgt = c.a[0].target()
                summ = self.summaries.get(tgt)
                if summ is not None and summ.returns_old == field:
                    # every dirty token of this field must stem from that call
                    toks = [t for t in st if t[0] == field]
                    if toks and all(t[1] == "call" and t[2][0] == c.site for t in toks):
                        return True
            return False
        # (a) a local that saved the field before its first write
        cur = op.place
        hops = 0
        while cur.is_local() and hops < 6:
            d = an.unique_def(cur.local)
            if d is None:
                return False
            dbb, didx, node = d
            rv = getattr(node, "rv", None)
            if rv is None or rv.kind != "use" or rv.ops[0].kind not in ("copy", "move"):
                return False
            src = rv.ops[0].place
            r = an.resolve_place(src)
            if r is not None and r[0] == 1 and r[2] is True and r[1] == [field]:
                # value read from self.f at (dbb, didx): must be clean there
                stt = self.state_before(dbb, didx)
                return not any(t[0] in (field, "*") for t in stt)
            cur = src
            hops += 1
        return False

    # ---- fixpoint -------------------------------------------------------
    def solve(self):
        cfg = self.an.cfg
        state_in = {n: frozenset() for n in cfg.nodes}
        self._state_in = state_in
        work = list(cfg.rpo())
        iters = 0
        while work and iters < 10000:
            iters += 1
            n = work.pop(0)
            st = state_in[n]
            for ev in self.events.get(n, []):
                st = self.transfer_event(ev, st, n)
            for s in cfg.succ[n]:
                new = state_in[s] | st
                if new != state_in[s]:
                    state_in[s] = new
                    if s not in work:
                        work.append(s)
        return state_in

    def state_before(self, bb, idx):
        if self._state_in is None:
            self.solve()
        st = self._state_in.get(bb, frozenset())
        for ev in self.events.get(bb, []):
            if ev["idx"] >= idx:
                break
            st = self.transfer_event(ev, st, bb)
        return st

    def state_at_end(self, bb):
        return self.state_before(bb, 10**9)

    # ---- exits ------------------------------------------------------------
    def ret_sites(self):
        """all assignments to the return place: (bb, idx, expr, node)"""
        an = self.an
        out = []
        for d in an.defs().get(0, []):
            bb, idx, node = d
            if bb not in an.cfg.succ:
                continue
            rv = getattr(node, "rv", None)
            if rv is not None:
                e = an.rvalue_expr(rv, bb, idx)
            else:
                e = an.call_expr(node, bb)
            out.append((bb, idx, e, node))
        return out

    def classify_ret(self, e):
        """-> list of (class, info): class in Ok / Err / Pass(site) / Unknown"""
        if e.k == "agg" and e.a[0] == "std::result::Result::Err":
            return [("Err", e)]
        if e.k == "agg" and e.a[0] == "std::result::Result::Ok":
            return [("Ok", e)]
        if e.k == "phi":
            out = []
            for a in e.a[0]:
                out.extend(self.classify_ret(a))
            return out
        if e.k == "call":
            c = e.a[0]
            if c.trait == "std::ops::FromResidual" and c.name == "from_residual":
                return [("Err", e)]
            tgt = c.target()
            if tgt in self.summaries and c.local:
                return [("Pass", e)]
            if c.name in ERR_PRESERVING and c.fn.startswith("std::result::Result") and e.a[1]:
                inner = strip(e.a[1][0])
                if inner.k == "call" and inner.a[0].target() in self.summaries:
                    return [("Pass", inner)]
        return [("Unknown", e)]

    def err_cause(self, cls, e):
        """short, line-free name of an exit"""
        if cls == "Err" and e.k == "agg":
            inner = e.a[1].get("0")
            if inner is not None and inner.k == "agg":
                return inner.a[0].split("::")[-1]
            if inner is not None:
                ci = strip(inner)
                if ci.k == "call":
                    return "err:" + (ci.a[0].name or "?")
                if ci.k in ("vfield",):
                    src = result_call_site(ci.a[0])
                    if src is not None:
                        return "err-of:" + (src.a[0].name or "?")
            return "Err"
        if cls == "Err" and e.k == "call":
            # from_residual((branch(X) as Break).0)
            arg = strip(e.a[1][0]) if e.a[1] else None
            if arg is not None and arg.k == "vfield" and arg.a[1] == "Break":
                b = arg.a[0]
                if b.k == "call" and b.a[1]:
                    x = strip(b.a[1][0])
                    names = []
                    cur = x
                    for _ in range(4):
                        if cur.k == "call":
                            names.append(cur.a[0].name or "?")
                            if cur.a[1]:
                                cur = strip(cur.a[1][0])
                                continue
                        break
                    if not names:
                        return "?"
                    if names[0] in ("ok_or", "ok_or_else", "map_err", "map", "and_then") and len(names) > 1:
                        return "?:" + names[0] + "<-" + names[1]
                    return "?:" + names[0]
            return "?"
        if cls == "Pass":
            return "tail:" + (e.a[0].name or "?")
        return "unknown-exit"

    def exit_verdicts(self):
        """For every non-Ok exit: (bb, idx, cause, dirty tokens, later writes)"""
        an = self.an
        cfg = an.cfg
        res = []
        for bb, idx, e, node in self.ret_sites():
            for cls, info in self.classify_ret(e):
                if cls == "Ok":
                    continue
                st = set(self.state_before(bb, idx))
                # tokens of atomic callees that are known to have failed here
                failed_sites = set()
                for d, cond, allowed, alll in an.constraints_at(bb):
                    if cond.k != "discr":
                        continue
                    c = result_call_site(cond.a[0])
                    if c is None:
                        continue
                    if allowed and allowed <= {"Err", "Break"}:
                        failed_sites.add(c.site)
                if cls == "Pass":
                    failed_sites.add(info.site)
                dirty = sorted(t for t in st if not (t[1] == "call" and t[2][0] in failed_sites))
                # writes after the exit value was produced
                later = []
                for ev in self.events.get(bb, []):
                    if ev["idx"] > idx and ev["kind"] in ("write", "mutcall", "escape"):
                        if not (cls == "Pass" and ev["idx"] == idx):
                            later.append(ev)
                for n in cfg.reach(bb) - {bb}:
                    for ev in self.events.get(n, []):
                        if ev["kind"] in ("write", "mutcall", "escape"):
                            later.append(ev)
                res.append((bb, idx, cls, self.err_cause(cls, info), dirty, later, node))
        return res


def add_escape_events(an, events, root=1):
    """Conservatively flag any place where a mutable alias of the record is
    stored in an aggregate (closure capture, struct) instead of being passed
    straight to a call."""
    fn = an.fn
    for b in fn.blocks:
        if b.cleanup or b.idx not in an.cfg.succ:
            continue
        for i, s in enumerate(b.stmts):
            if s.kind != "assign" or s.rv.kind != "aggregate":
                continue
            for o in s.rv.ops:
                if o.kind in ("copy", "move") and o.place.is_local():
                    tgt = an.resolve_ref(o.place.local)
                    if tgt is not None and tgt[0] == root and tgt[2] is True:
                        ds = an.defs().get(o.place.local, [])
                        mut = False
                        if len(ds) == 1:
                            rv = getattr(ds[0][2], "rv", None)
                            mut = bool(rv is not None and rv.kind == "ref" and rv.j["mut"])
                        if mut:
                            events.setdefault(b.idx, []).append(
                                dict(kind="escape", bb=b.idx, idx=i, path=tgt[1], stmt=s, sp=s.sp)
                            )
                            events[b.idx].sort(key=lambda e: e["idx"])


def compute_summaries(ctx):
    """Bottom-up summaries for every local fn taking `&mut Enr<K>` first."""
    fns = [f for f in ctx.facts.fns if f.kind in ("AssocFn", "Fn") and takes_mut_record(f)]
    by_path = {f.path: f for f in fns}
    summaries = {}
    analyses = {}
    pending = dict(by_path)
    progress = True
    while pending and progress:
        progress = False
        for path, f in list(pending.items()):
            an = ctx.an(f)
            deps = set()
            for b, t in f.calls():
                if t.callee is not None and t.callee.target() in by_path and t.callee.target() != path:
                    deps.add(t.callee.target())
            if any(d in pending for d in deps):
                continue
            ea = EffectAnalysis(ctx, f, summaries)
            add_escape_events(an, ea.events)
            ea.solve()
            verdicts = ea.exit_verdicts()
            atomic = all(not dirty and not later for (_, _, _, _, dirty, later, _) in verdicts)
            # fields possibly written on an Ok exit
            writes = set()
            for n, evs in ea.events.items():
                for ev in evs:
                    if ev["kind"] == "write":
                        writes.add(ev["path"][0] if ev["path"] else "*")
                    elif ev["kind"] == "mutcall":
                        s = ea._callee_summary(ev)
                        if s is not None:
                            writes |= set(s.writes_on_ok)
                        else:
                            writes.add(ev["path"][0] if ev["path"] else "*")
                    elif ev["kind"] == "escape":
                        writes.add("*")
            # does the Ok payload hand back the old value of a field?
            returns_old = None
            for bb, idx, e, node in ea.ret_sites():
                if e.k == "agg" and e.a[0] == "std::result::Result::Ok":
                    p = strip(e.a[1].get("0")) if e.a[1].get("0") is not None else None
                    if p is not None and p.k == "call" and p.a[0].fn in ("std::mem::replace", "core::mem::replace"):
                        arg0 = p.a[1][0]
                        # &mut self.f
                        t = strip(arg0)
                        if t.k == "field" and strip(t.a[0]).k == "param" and writes == {t.a[1]}:
                            returns_old = t.a[1]
            summaries[path] = Summary(atomic, writes, returns_old, returns_result(f))
            analyses[path] = (ea, verdicts)
            del pending[path]
            progress = True
    # recursion / unresolved: pessimistic
    for path, f in pending.items():
        summaries[path] = Summary(False, {"*"}, None, returns_result(f))
        analyses[path] = (None, None)
    return summaries, analyses
