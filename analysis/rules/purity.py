"""STATE: the crate keeps no state between calls.

Every property that says "the outcome is decided by the input" (C01 acceptance,
C02 the accepted set, C10 node id = f(public key), C11 back-ends agree, C13
same outcome whatever precedes or follows, C17 export/derivation) needs, as a
necessary condition, that no call can leave something behind for the next one.
In safe Rust the only carriers are statics that are `static mut`, thread-local,
or have interior mutability (atomics, Cell/RefCell, Mutex, OnceLock ...).  The
driver lists every `static` item of the crate, including the ones the
`thread_local!` macro nests inside a const block, with mutability, the
`#[thread_local]` flag and `Freeze`-ness of its type.

Accepted: an immutable `Freeze` static (a plain constant table), and
`LazyLock`/`once_cell::sync::Lazy` (the initialiser of a static cannot capture
and takes no argument, so the value does not depend on any call).
Today's tree has no static item at all; the seeded changes C10-s10, C11-s8,
C13-s9, C13-s11 and C17-s11 are the positive examples (thorough tier,
checker_liveness)."""
import re


def carrier_name(path):
    # thread_local! NAME expands to NAME::{constant#0}::{closure#k}::__RUST_STD_INTERNAL_VAL
    return re.split(r"::\{constant#", path)[0]


def hidden_state(ctx, report, rule="STATE"):
    cfg = ctx.config
    n = 0
    bad = {}
    for it in ctx.facts.items:
        if not it.get("static"):
            continue
        n += 1
        ty = it.get("ty", "")
        if not (it.get("mut") or it.get("thread_local") or not it.get("freeze", True)):
            continue
        if not it.get("mut") and not it.get("thread_local") and re.match(r"^(std::sync::LazyLock|once_cell::sync::Lazy|std::sync::lazy_lock::LazyLock)<", ty):
            continue
        what = "static mut" if it.get("mut") else "thread-local" if it.get("thread_local") else "interior-mutable"
        bad.setdefault(carrier_name(it["path"]), (what, ty, it.get("span")))
    for name, (what, ty, sp) in sorted(bad.items()):
        report.violate(rule, "static/" + name, "%s static `%s` (%s) can carry state from one call to the next: the outcome of a call is no longer decided by its arguments alone" % (what, name, ty), sp=sp, config=cfg)
    report.ob(rule, "no-hidden-state", not bad, "the crate keeps no state between calls (%d static item(s), none mutable, thread-local or interior-mutable)" % n, cfg)
