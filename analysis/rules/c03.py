"""C03 - total functions: panic census with re-proved discharges (F9)."""
import re
import guards
import pattern as P
import shapes
from common import short
from kernel import ok_payload, same_value, strip
from rules.typestate import const_int, trace_local

EXPLANATION = (
    "Panic census over the MIR of every body in every analysed feature configuration: each potential panic source (overflow/bounds Assert terminators, "
    "unwrap/expect, Index/IndexMut, copy_from_slice, Buf::advance, split_at, core::panicking::*) must be discharged on this very run, either automatically - `const` "
    "(array length and constant range), `guard` (a dominating edge predicate implies safety: is_none()==false, len==n, Header::decode(p)=Ok(h) before p[..h.payload_length] "
    "and p.advance(h.payload_length), min(32,len) bound) - or by a frozen row of class `inv` (holds under INV-RLP / INV-PK, which are re-checked here with the C05 rules) or "
    "`lib` (a named library invariant with a reason). A new site, or a site whose discharge no longer proves, is a violation naming the site. Plus: no unsafe block/fn/impl, "
    "no call-graph cycle, every loop iterates a finite std iterator, consumes input on every cycle, or iterates a caller-supplied iterator."
    " INV-PK additionally re-uses C01's rule on CombinedKey::enr_to_public (fallback to the ed25519 entry), without which public_key()'s expect is reachable."
)
TRUSTED = [
    "the may-panic callee table below is complete for the callees this crate uses (the evidence lists every distinct foreign callee)",
    "allocation failure and stack exhaustion are out of scope",
]
ASSUMPTIONS = ["panics inside dependencies on arguments this crate passes beyond the listed contracts are not decided"]

PANICKY = {
    "unwrap", "expect", "unwrap_err", "expect_err", "index", "index_mut", "copy_from_slice", "clone_from_slice", "advance",
    "split_at", "split_at_mut", "split_off", "swap", "swap_remove", "drain", "truncate_front", "insert_str", "remove_char",
    "copy_within", "rotate_left", "rotate_right", "chunks", "chunks_exact", "windows", "step_by", "unwrap_unchecked", "first_chunk_mut_unchecked",
}
# names that only panic for particular receivers
RECEIVER_SENSITIVE = {"remove": ("Vec", "String", "VecDeque"), "insert": ("Vec", "String", "VecDeque"), "split_to": ("Bytes",), "slice": ("Bytes",), "put_slice": ("[u8]",)}

# frozen rows: (function-name fragment, callee fragment) -> (class, reason, max count)
TABLE = [
    ("Enr::<K>::get", "::expect", "inv", "INV-RLP: every stored value is exactly one well-formed RLP item (re-checked below with the C05 rules)", 1),
    ("Enr::<K>::public_key", "::expect", "inv", "INV-PK: every record is keyed to a key K::enr_to_public accepts (typestate keyed(k), decode's enr_to_public?, build's add_public_key; re-checked below)", 1),
    ("EnrPublicKey for ecdsa::verifying::VerifyingKey", "CtOption", "lib", "k256: a VerifyingKey is a valid curve point, so decompressing its own x with its own parity succeeds", 1),
    ("EnrPublicKey for ecdsa::verifying::VerifyingKey", "Option::<&k256::elliptic_curve::generic_array", "lib", "k256: to_encoded_point(false) of an affine point has a y coordinate", 1),
    ("EnrPublicKey for ecdsa::verifying::VerifyingKey", "core::panicking::panic", "lib", "k256: EncodedPoint::from(&VerifyingKey) is never the identity nor compact (unreachable!)", 1),
    ("EnrPublicKey for ecdsa::verifying::VerifyingKey", "copy_from_slice", "lib", "k256: field elements are GenericArray<u8, U32> (32 bytes by type) copied into 32-byte halves of a [u8;64]", 2),
    ("EnrPublicKey for ecdsa::verifying::VerifyingKey", "Index<std::ops::RangeFrom<usize>>>::index", "lib", "k256: the uncompressed SEC1 encoding of a public key is 65 bytes, so [1..] is in range", 1),
    ("digest", "copy_from_slice", "lib", "sha3: Keccak256 output is GenericArray<u8, U32> (32 bytes by type) copied into [u8;32]", 1),
    ("Enr<K> as alloy_rlp::Decodable>::decode", "overflow:Sub", "lib", "Header::decode_bytes only ever advances the slice: remaining before >= remaining after", 1),
    ("builder::Builder::<K>::rlp_content", "overflow:Add", "lib", "sum of two in-memory buffer lengths cannot overflow usize", 1),
    ("builder::Builder::<K>::build", "overflow:Add", "lib", "sum of two in-memory buffer lengths and 8 cannot overflow usize", 2),
]


def fn_key(f):
    return f.path


def sites_of(ctx, f):
    """potential panic sources of one body: list of dict(kind, what, bb, term, sp)"""
    out = []
    for b in f.blocks:
        if b.cleanup:
            continue
        t = b.term
        if t.kind == "assert" and not t.exp:
            out.append(dict(kind="assert", what=t.j["msg"], bb=b.idx, term=t, sp=t.sp))
        elif t.kind == "call" and t.callee is not None:
            c = t.callee
            if "core::panicking" in c.fn or "std::rt::begin_panic" in c.fn:
                out.append(dict(kind="panic", what=c.fn, bb=b.idx, term=t, sp=t.sp))
            elif t.exp:
                continue
            elif c.name in PANICKY and not c.local:
                out.append(dict(kind="call", what=c.full, bb=b.idx, term=t, sp=t.sp))
            elif not c.local and "GenericArray<" in c.full and (
                (c.name in ("into", "from") and (c.full.startswith("<&[") or c.full.startswith("<&mut [") or " as std::convert::From<&[" in c.full or " as std::convert::From<&mut [" in c.full or " as std::convert::From<&'a [" in c.full))
                or c.name in ("from_slice", "from_mut_slice", "clone_from_slice", "from_exact_iter")
            ):
                # slice -> GenericArray conversions assert that the length is exactly N
                out.append(dict(kind="call", what=c.full if len(c.full) < 100 else "slice -> GenericArray conversion (" + c.name + ")", bb=b.idx, term=t, sp=t.sp))
            elif c.name in RECEIVER_SENSITIVE and not c.local and any(("::%s::" % r) in c.fn or c.fn.startswith(r) or ("<%s " % r) in c.fn for r in RECEIVER_SENSITIVE[c.name]):
                out.append(dict(kind="call", what=c.full, bb=b.idx, term=t, sp=t.sp))
        elif t.kind == "call" and t.callee is None:
            out.append(dict(kind="indirect", what="indirect call", bb=b.idx, term=t, sp=t.sp))
        # panicking functions passed as values (e.g. `.map(Result::unwrap)`)
        if t.kind == "call" and not t.exp:
            for a in t.args:
                fr = a.const_fn()
                if fr is not None and fr.get("name") in PANICKY and not fr.get("local"):
                    out.append(dict(kind="fnref", what=fr["full"] + " (passed as a function value)", bb=b.idx, term=t, sp=t.sp))
    return out


# ------------------------------------------------------------ auto dischargers


def array_len_of_ty(s):
    import re
    m = re.match(r"^&?(mut )?\[.*; (\d+)\]$", s.strip())
    return int(m.group(2)) if m else None


def known_len(ctx, f, an, e, bb):
    """length (int) of a slice-valued expression if it is statically known or
    pinned by a dominating guard at block bb"""
    es = strip(e)
    # array typed values
    if es.k == "repeat":
        return es.a[1]
    if es.k == "call":
        c = es.a[0]
        # const-range index of something with known length
        if c.name in ("index", "index_mut") and len(es.a[1]) == 2:
            base_len = known_len(ctx, f, an, es.a[1][0], bb)
            r = shapes.range_of(es.a[1][1])
            if base_len is not None and r is not None:
                lo, hi = r
                if isinstance(lo, tuple) or isinstance(hi, tuple):
                    # end = min(c, x)
                    if isinstance(hi, tuple):
                        m = strip(hi[1])
                        if m.k == "call" and m.a[0].name == "min" and len(m.a[1]) == 2:
                            cs = [const_int(x) for x in m.a[1]]
                            others = [x for x in m.a[1] if const_int(x) is None]
                            cc = [x for x in cs if x is not None]
                            if cc and others and isinstance(lo, int):
                                ol = pinned_value(an, others[0], bb)
                                if ol is not None:
                                    return min(cc[0], ol) - lo
                    return None
                hi = base_len if hi is None else hi
                if 0 <= lo <= hi <= base_len:
                    return hi - lo
            return None
        # the return type tells (e.g. serialize_uncompressed() -> [u8;65])
        st = c.self_ty["s"] if c.self_ty else ""
        if c.name in ("index", "index_mut"):
            return None
    # a half of split_at(base, k) with constant k on a base of known length (k <= len: split_at itself is a census site)
    if es.k == "field" and es.a[1] in ("0", "1"):
        r = shapes.slice_range(es)
        base = shapes.slice_base(es)
        if r is not None and r != (0, None) and isinstance(r[0], int) and (r[1] is None or isinstance(r[1], int)):
            base_len = known_len(ctx, f, an, base, bb)
            if base_len is not None:
                hi = base_len if r[1] is None else r[1]
                if 0 <= r[0] <= hi <= base_len:
                    return hi - r[0]
        return None
    # by the type of the defining local: look at the expression's meta
    n = type_len(ctx, f, an, es)
    if n is not None:
        return n
    # pinned by a guard on len(e)
    return pinned_len(an, es, bb)


def type_len(ctx, f, an, es):
    while es.k in ("deref", "ref") and es.a and strip(es.a[0]).k in ("field", "deref", "ref"):
        es = strip(es.a[0])
    if es.k == "param":
        t = f.local_ty(es.a[0])
        while t.get("k") == "ref":
            t = t["of"]
        if t.get("k") == "array":
            return t.get("n")
    if es.k == "call":
        # arrays returned by value: find the destination local's type through the call site
        for b, t in f.calls():
            if b.idx == es.site and t.callee is not None and t.callee.full == es.a[0].full and t.dest is not None and t.dest.is_local():
                ty = f.local_ty(t.dest.local)
                while ty.get("k") == "ref":
                    ty = ty["of"]
                if ty.get("k") == "array":
                    return ty.get("n")
    if es.k == "field":
        # a field of array type of a struct reached from a parameter (self.raw: [u8; 32])
        b_ = strip(es.a[0])
        while b_.k in ("deref", "ref"):
            b_ = strip(b_.a[0])
        if b_.k == "param":
            t = f.local_ty(b_.a[0])
            while t.get("k") == "ref":
                t = t["of"]
            a_ = ctx.facts.adts.get(t.get("adt")) if t.get("k") == "adt" else None
            if a_ is not None and len(a_["variants"]) == 1:
                for fl in a_["variants"][0]["fields"]:
                    if fl["name"] == es.a[1] and fl["ty"].get("k") == "array":
                        n_ = fl["ty"].get("n")
                        if n_ is None:
                            # the declared length is a named constant (`[u8; NODE_ID_LENGTH]`): take its evaluated value
                            m_ = re.match(r"^\[u8; ([A-Za-z_][A-Za-z0-9_:]*)\]$", fl["ty"].get("s", ""))
                            if m_:
                                hits = [c_ for p_, c_ in ctx.facts.consts.items() if p_ == m_.group(1) or p_.endswith("::" + m_.group(1))]
                                if len(hits) == 1 and isinstance(hits[0].get("val", {}).get("int"), int):
                                    n_ = hits[0]["val"]["int"]
                        return n_
        return None
    return None


def pinned_len(an, es, bb):
    """n if a dominating guard pins len(es) to exactly n at bb"""
    adm = [(0, guards.INF)]
    hit = False
    for d, cond, allowed, alll in an.constraints_at(bb):
        r = guards.constraint_set(cond, allowed, const_int, strip)
        if r is not None:
            q = strip(r[0])
            if q.k == "call" and q.a[0].name == "len" and q.a[1] and repr(strip(q.a[1][0])) == repr(es):
                adm = guards.intersect(adm, r[1])
                hit = True
    if hit and len(adm) == 1 and adm[0][0] == adm[0][1]:
        return adm[0][0]
    return None


def pinned_value(an, e, bb):
    """value of an integer expression `len(x)` pinned by guards"""
    es = strip(e)
    if es.k == "call" and es.a[0].name == "len" and es.a[1]:
        return pinned_len(an, strip(es.a[1][0]), bb)
    return None


def len_minus_const(ctx, f, an, e, bb):
    """value of `len(X) - c` (plain or checked subtraction) when the length of X is statically known; else None"""
    e = strip(e)
    if e.k == "field" and e.a[1] == "0" and e.a[0].k == "binop":
        e = e.a[0]
    if not (e.k == "binop" and e.a[0] in ("Sub", "SubWithOverflow", "SubUnchecked")):
        return None
    a, b = strip(e.a[1]), strip(e.a[2])
    c = const_int(b)
    if c is None or not (a.k == "call" and a.a[0].name == "len" and a.a[1]):
        return None
    n = known_len(ctx, f, an, a.a[1][0], bb)
    if n is None or c > n:
        return None
    return n - c


def is_enr_ref(t):
    return t.get("k") == "ref" and "Enr<" in (t.get("s") or "")


def takes_mut_self(f):
    return bool(f.inputs) and f.inputs[0].get("k") == "ref" and bool(f.inputs[0].get("mut"))


def scaled_len(x, consts):
    """x = ceil(len(..) / d) or len(..) / d with a constant d >= 1, to be multiplied by a constant c <= 2d"""
    x = strip(x)
    d = None
    inner = None
    if x.k == "call" and x.a[0].name == "div_ceil" and x.a[0].krate in ("core", "std") and len(x.a[1]) == 2:
        d = shapes.fold_const(x.a[1][1])
        inner = strip(x.a[1][0])
    elif x.k == "binop" and x.a[0] == "Div":
        d = shapes.fold_const(x.a[2])
        inner = strip(x.a[1])
    if d is None or d < 1 or inner is None or len(consts) != 1:
        return False
    if not (inner.k == "call" and inner.a[0].name == "len" and inner.a[0].krate in ("core", "alloc", "std", "bytes")):
        return False
    return 0 <= consts[0] <= 2 * d if d == 1 else 0 <= consts[0] < 2 * d


def fold_accumulator(ctx, f, lengthy):
    """closure f is only used as the step of `Iterator::fold` calls that run over
    a record's `content` and start from a sum of in-memory lengths: its second
    parameter is then the running total of such lengths (each pair is a distinct
    in-memory object, so the total is below the size of the address space)"""
    from kernel import closure_of
    uses = []
    for h in ctx.facts.fns:
        if h.kind not in ("Fn", "AssocFn", "Closure"):
            continue
        han = None
        for b2, t in h.calls():
            if t.callee is None or not t.args:
                continue
            for ai, a in enumerate(t.args):
                if a.kind not in ("copy", "move"):
                    continue
                han = han or ctx.an(h)
                c = closure_of(han.operand_expr(a, b2.idx, len(b2.stmts)))
                if c is None or c[0] != f.path:
                    continue
                ok = t.callee.name == "fold" and (t.callee.trait or "").endswith("Iterator") and len(t.args) == 3 and ai == 2
                if ok:
                    it = han.operand_expr(t.args[0], b2.idx, len(b2.stmts))
                    init = han.operand_expr(t.args[1], b2.idx, len(b2.stmts))
                    ok = any(x.k == "field" and x.a[1] == "content" for x in it.walk()) and lengthy(init)
                uses.append(ok)
    return bool(uses) and all(uses)


def discharge(ctx, f, an, site):
    """-> (class, reason) or None"""
    t = site["term"]
    bb = site["bb"]
    if site["kind"] == "assert" and site["what"].startswith("overflow:"):
        # arithmetic on two compile-time constants
        blk = f.blocks[bb]
        for i, st in enumerate(blk.stmts):
            if st.kind == "assign" and st.rv.kind == "binop" and st.rv.j["op"].endswith("WithOverflow"):
                a, b2 = (const_int(an.operand_expr(o, bb, i)) for o in st.rv.ops)
                if a is not None and b2 is not None:
                    op = st.rv.j["op"]
                    v = a + b2 if op.startswith("Add") else a - b2 if op.startswith("Sub") else a * b2
                    if 0 <= v < 2**64:
                        return ("const", "arithmetic on the constants %d and %d" % (a, b2))
                if st.rv.j["op"].startswith("Sub"):
                    # len(X) - c with X of statically known length >= c (an array field: `self.raw.len() - 2`)
                    if len_minus_const(ctx, f, an, an.rvalue_expr(st.rv, bb, i), bb) is not None:
                        return ("const", "a constant subtracted from the length of a fixed-size array that is at least as long")
                    # len(h) - c on a hex string of statically known length
                    v = shapes._ascii_off(("expr", an.rvalue_expr(st.rv, bb, i)), None)
                    if v is not None and v >= 0:
                        return ("lib", "hex::encode of a fixed-size array has a statically known length: the difference is %d" % v)
                if st.rv.j["op"].startswith("Mul"):
                    # a small constant times an in-memory length (2 hex digits per byte, ...): len <= isize::MAX
                    es_ = [strip(an.operand_expr(o, bb, i)) for o in st.rv.ops]
                    cs_ = [shapes.fold_const(x) for x in es_]
                    ls_ = [x for x, c_ in zip(es_, cs_) if c_ is None]
                    if len(ls_) == 1 and any(c_ is not None and 0 <= c_ <= 2 for c_ in cs_) and ls_[0].k == "call" and ls_[0].a[0].name == "len" and ls_[0].a[0].krate in ("core", "alloc", "std", "bytes"):
                        return ("lib", "at most 2 x the length of an in-memory slice (<= isize::MAX) cannot overflow usize")
                    if len(ls_) == 1 and scaled_len(ls_[0], [c_ for c_ in cs_ if c_ is not None]):
                        return ("lib", "c * ceil(len / d) with c <= 2d on the length of an in-memory slice (<= isize::MAX) cannot overflow usize")
                    # a small constant times the length of the record's own encoding (at most 300 bytes for every record handed out: C09)
                    if f.kind in ("AssocFn",) and len(ls_) == 1 and any(c_ is not None and 0 <= c_ <= 2 ** 16 for c_ in cs_) and ls_[0].k == "call" and ls_[0].a[0].name == "len" and ls_[0].a[1] and f.inputs and is_enr_ref(f.inputs[0]):
                        from rules.emit import is_encoding_of_self
                        try:
                            enc_ = is_encoding_of_self(ctx, f, an, ls_[0].a[1][0])
                        except Exception:
                            enc_ = False
                        if enc_ and not takes_mut_self(f):
                            return ("inv", "the length of the record's own encoding is at most MAX_ENR_SIZE for every record the library hands out (C09): a small multiple cannot overflow")
                if st.rv.j["op"].startswith("Add"):
                    # sums of in-memory lengths and small constants cannot overflow usize
                    def lengthy(o):
                        e2 = strip(an.operand_expr(o, bb, i))
                        if e2.k == "field" and e2.a[1] == "0" and e2.a[0].k == "binop" and e2.a[0].a[0].startswith("Add"):
                            return all(lengthy_e(x) for x in (e2.a[0].a[1], e2.a[0].a[2]))
                        return lengthy_e(e2)

                    def lengthy_e(e2):
                        e2 = strip(e2)
                        c2 = const_int(e2)
                        if c2 is None:
                            c2 = shapes.fold_const(e2)
                        if c2 is not None:
                            return 0 <= c2 < 2**32
                        # 2 * len(bytes): the size of a hex rendering
                        if e2.k == "field" and e2.a[1] == "0" and e2.a[0].k == "binop" and e2.a[0].a[0].startswith("Mul"):
                            ops_ = [strip(e2.a[0].a[1]), strip(e2.a[0].a[2])]
                            cs_ = [shapes.fold_const(x) for x in ops_]
                            rest_ = [x for x, c_ in zip(ops_, cs_) if c_ is None]
                            if len(rest_) == 1 and scaled_len(rest_[0], [c_ for c_ in cs_ if c_ is not None]):
                                return True  # the size of a base64 rendering: 4 * ceil(len / 3)
                            return len(rest_) == 1 and any(c_ is not None and 0 <= c_ <= 2 for c_ in cs_) and rest_[0].k == "call" and rest_[0].a[0].name == "len"
                        if e2.k == "field" and e2.a[1] == "0" and e2.a[0].k == "binop" and e2.a[0].a[0].startswith("Add"):
                            return all(lengthy_e(x) for x in (e2.a[0].a[1], e2.a[0].a[2]))
                        # a quotient of something that did not overflow: ceil(x / d) <= x for d >= 1 (x itself is a census site)
                        if e2.k == "call" and e2.a[0].name == "div_ceil" and e2.a[0].krate in ("core", "std") and len(e2.a[1]) == 2 and (shapes.fold_const(e2.a[1][1]) or 0) >= 2:
                            return True
                        if e2.k == "binop" and e2.a[0] == "Div" and (shapes.fold_const(e2.a[2]) or 0) >= 2:
                            return True
                        if e2.k == "call" and e2.a[0].name == "len" and e2.a[1] and strip(e2.a[1][0]).k == "const":
                            return True
                        if e2.k == "field" and e2.a[1] == "payload_length" and header_source(e2.a[0])[0] is not None:
                            return True  # a successfully decoded header's payload fits in the buffer it was read from
                        if e2.k == "call" and e2.a[0].name == "sum" and (e2.a[0].trait or "").endswith("Iterator") and "usize" in (e2.a[0].full or "") and any(x.k == "field" and x.a[1] == "content" for x in e2.walk()):
                            return True  # a sum of in-memory lengths over the pairs of a record
                        if e2.k == "param" and e2.a[0] == 2 and f.kind == "Closure" and fold_accumulator(ctx, f, lengthy_in):
                            return True  # the running total of a fold over the pairs of a record that adds in-memory lengths
                        return e2.k == "call" and e2.a[0].name in ("len", "length", "capacity", "size", "length_with_payload", "payload_length") and e2.a[0].krate in ("core", "alloc", "std", "bytes", "alloy_rlp", "enr")

                    def lengthy_in(e3):
                        return lengthy_e(e3)
                    if all(lengthy(o) for o in st.rv.ops):
                        return ("lib", "sum of in-memory buffer lengths / small constants cannot overflow usize")
        return None
    if site["kind"] != "call":
        return None
    c = t.callee
    name = c.name
    idx = len(f.blocks[bb].stmts)
    args = [an.operand_expr(a, bb, idx) for a in t.args]
    if name in ("unwrap", "expect"):
        x = strip(args[0])
        # guard on the very value
        tl = trace_local(an, t.args[0]) if t.args[0].kind in ("copy", "move") else None
        for d, cond, allowed, alll in an.constraints_at(bb):
            cs = strip(cond)
            neg = False
            if cs.k == "unop" and cs.a[0] == "Not":
                neg, cs = True, strip(cs.a[1])
            if cs.k == "call" and cs.a[0].name in ("is_none", "is_some", "is_ok", "is_err") and cs.a[1]:
                same = repr(strip(cs.a[1][0])) == repr(x)
                truth = ("otherwise" in allowed or 1 in allowed) and 0 not in allowed
                if neg:
                    truth = allowed == {0}
                falsity = allowed == {0} if not neg else (("otherwise" in allowed or 1 in allowed) and 0 not in allowed)
                good = (cs.a[0].name in ("is_some", "is_ok") and truth) or (cs.a[0].name in ("is_none", "is_err") and falsity)
                if same and good:
                    return ("guard", "dominated by %s() == %s on the same value" % (cs.a[0].name, "true" if cs.a[0].name in ("is_some", "is_ok") else "false"))
            if cs.k == "discr" and repr(strip(cs.a[0])) == repr(x) and allowed <= {"Some", "Ok"}:
                return ("guard", "dominated by a match arm Some/Ok on the same value")
        # <[u8; N]>::try_from(slice) under a guard that pins the slice's length to N
        if x.k == "call" and x.a[0].name in ("try_from", "try_into") and x.a[1]:
            m_ = re.search(r"\[u8; (\d+)\]", x.a[0].full or "")
            if m_ and "TryFromSliceError" in (c.full or "") + (c.fn or ""):
                n_ = pinned_len(an, strip(x.a[1][0]), bb)
                if n_ is not None and n_ == int(m_.group(1)):
                    return ("guard", "the slice converted to [u8; %d] has exactly that length on this path" % n_)
        # String::from_utf8(const ascii)
        if x.k == "call" and x.a[0].name == "from_utf8" and x.a[1]:
            src = x.a[1][0]
            from rules.tables import const_key
            k = const_key(src)
            if k is not None:
                try:
                    k.decode("utf-8")
                    return ("const", "from_utf8 of the constant %r, which is valid UTF-8" % k)
                except UnicodeDecodeError:
                    return None
        # NodeId::parse(&digest(..)): parse is Ok on exactly 32 bytes (C16) and the argument is a [u8;32]
        if x.k == "call" and x.a[0].name == "parse" and "NodeId" in x.a[0].full and x.a[1]:
            a = strip(x.a[1][0])
            if a.k == "call" and a.a[0].local and a.a[0].name == "digest":
                g = ctx.facts.fn("digest")
                if g is not None and g.output and g.output.get("k") == "array" and g.output.get("n") == 32:
                    return ("inv", "argument is the [u8;32] returned by digest(); NodeId::parse returns Ok for 32-byte input (C16 rule PARSE)")
        return None
    if name in ("index", "split_at") and len(args) == 2:
        # slices of a hex string of statically known length (ASCII: every offset is a boundary)
        ce = an.call_expr(t, bb)
        from kernel import E
        sub = shapes.ascii_sub(ce) if name == "index" else shapes.ascii_sub(E("field", ce, "0"))
        if sub is not None:
            return ("lib", "hex::encode of a [u8;%d] is %d ASCII characters: the range %d..%d is in bounds and on character boundaries" % (sub[0].a[0].targs[0].get("n", 0) if sub[0].a[0].targs else 0, 2 * (sub[0].a[0].targs[0].get("n", 0) if sub[0].a[0].targs else 0), sub[1], sub[2]))
    if name in ("split_at", "split_at_mut") and len(args) == 2:
        # payload.split_at(h.payload_length) after Header::decode(payload) == Ok(h)
        e = strip(args[1])
        if e.k == "field" and e.a[1] == "payload_length":
            p, via_expect = header_source(e.a[0])
            if p is not None and header_guards_slice(f, an, p, t.args[0], bb, via_expect):
                return ("guard", "Header::decode(p) == Ok(h) guarantees p.len() >= h.payload_length, and p is untouched in between")
        k = const_int(args[1])
        bl = known_len(ctx, f, an, args[0], bb)
        if bl is None:
            # a whole local array behind an unsize coercion
            tl = an.operand_target(t.args[0])
            if tl is not None and tl[2] is False and tl[1] in ([], ["[]"]):
                ty = f.local_ty(tl[0])
                if ty.get("k") == "array" and tl[1] == []:
                    bl = ty.get("n")
        if k is not None and bl is not None and 0 <= k <= bl:
            return ("const", "split at the constant %d of a slice of length %d" % (k, bl))
        return None
    if name in ("index", "index_mut"):
        base, ix = args[0], args[1]
        rf = strip(ix)
        if rf.k == "agg" and rf.a[0].endswith("RangeFull"):
            return ("const", "[..] never panics")
        st = c.self_ty["s"] if c.self_ty else ""
        n = array_len_of_ty(st)
        r = shapes.range_of(ix)
        if n is not None and r is not None:
            lo, hi = r
            if isinstance(lo, tuple):
                lo_ = len_minus_const(ctx, f, an, lo[1], bb)
                if lo_ is not None:
                    lo = lo_
            if isinstance(lo, int) and (hi is None or isinstance(hi, int)):
                hi2 = n if hi is None else hi
                if 0 <= lo <= hi2 <= n:
                    return ("const", "constant range %s..%s on an array of length %d" % (lo, "" if hi is None else hi, n))
            # end = min(c, _) with c <= n
            if isinstance(lo, int) and isinstance(hi, tuple):
                m = strip(hi[1])
                if m.k == "call" and m.a[0].name == "min" and any(const_int(x) is not None and const_int(x) <= n for x in m.a[1]):
                    return ("guard", "range end is min(c, _) with c <= %d" % n)
        # Vec / slice indexed by a constant under a length guard
        ci = const_int(ix)
        if ci is not None:
            ln = pinned_len(an, strip(base), bb)
            if ln is not None and ci < ln:
                return ("guard", "index %d under a guard pinning the length to %d" % (ci, ln))
            if n is not None and ci < n:
                return ("const", "constant index %d on an array of length %d" % (ci, n))
        # payload[h.payload_length..] after Header::decode(payload) == Ok(h): skipping the item just measured
        if r is not None and isinstance(r[0], tuple) and r[1] is None:
            e = strip(r[0][1])
            if e.k == "field" and e.a[1] == "payload_length":
                p, via_expect = header_source(e.a[0])
                if p is not None and header_guards_slice(f, an, p, t.args[0], bb, via_expect):
                    return ("guard", "Header::decode(p) == Ok(h) guarantees p.len() >= h.payload_length, and p is untouched in between")
        # payload[..h.payload_length] after Header::decode(payload) == Ok(h)
        if r is not None and isinstance(r[1], tuple) and r[0] == 0:
            e = strip(r[1][1])
            if e.k == "field" and e.a[1] == "payload_length":
                p, via_expect = header_source(e.a[0])
                if p is not None and header_guards_slice(f, an, p, t.args[0], bb, via_expect):
                    return ("guard", "Header::decode(p) == Ok(h) guarantees p.len() >= h.payload_length, and p is untouched in between")
        return None
    if name == "advance":
        e = strip(args[1])
        if e.k == "field" and e.a[1] == "payload_length":
            p, via_expect = header_source(e.a[0])
            if p is not None and header_guards_slice(f, an, p, t.args[0], bb, via_expect):
                return ("guard", "Header::decode(p) == Ok(h) guarantees p.remaining() >= h.payload_length, and p is untouched in between")
        return None
    if name in ("copy_from_slice", "clone_from_slice"):
        if len(args) < 2:
            # `Bytes::copy_from_slice(data)` is a constructor, it cannot panic
            return ("const", "constructor form of copy_from_slice (allocates a copy)")
        dl = known_len(ctx, f, an, args[0], bb)
        sl = known_len(ctx, f, an, args[1], bb)
        if dl is None:
            # destination is a whole local array (through unsize cast)
            tl = an.operand_target(t.args[0])
            if tl is not None and tl[2] is False and tl[1] == []:
                ty = f.local_ty(tl[0])
                if ty.get("k") == "array":
                    dl = ty.get("n")
        if dl is not None and sl is not None and dl == sl:
            return ("guard" if pinned_len(an, strip(args[1]), bb) is not None else "const", "both sides have length %d" % dl)
        return None
    return None


def inv_row_applies(ctx, f, an, site, row):
    """an `inv` row discharges exactly the expression it was written for:
       Enr::get:        Header::decode(&mut raw).expect(..) with raw a stored value (INV-RLP: any single well-formed item) -
                        a stricter reader (decode_bytes(.., false), a typed decode) can fail on valid stored items;
       Enr::public_key: K::enr_to_public(&self.content).expect(..) (INV-PK)"""
    t = site["term"]
    bb = site["bb"]
    if not t.args:
        return False
    x = strip(an.operand_expr(t.args[0], bb, len(f.blocks[bb].stmts)))
    if row[0].endswith("::get"):
        if not (x.k == "call" and x.a[0].name == "decode" and "alloy_rlp::Header" in x.a[0].fn and x.a[1]):
            return False
        return True
    if row[0].endswith("::public_key"):
        return x.k == "call" and x.a[0].name == "enr_to_public" and (x.a[0].trait or "").endswith("EnrKey") and x.a[1] and \
            strip(x.a[1][0]).k == "field" and strip(x.a[1][0]).a[1] == "content" and strip(strip(x.a[1][0]).a[0]).k == "param"
    return True


def header_source(e):
    """(Header::decode call, reached through expect/unwrap?) for a header value"""
    es = strip(e)
    p = ok_payload(es)
    via_expect = False
    if p is None and es.k == "call" and es.a[0].name in ("expect", "unwrap") and es.a[1]:
        p = es.a[1][0]
        via_expect = True
    if p is not None and strip(p).k == "call" and strip(p).a[0].name == "decode" and "Header" in strip(p).a[0].fn:
        return strip(p), via_expect
    return None, False


def header_guards_slice(f, an, hdr_call, cursor_op, bb, via_expect=False):
    """the Header::decode call was made on the same cursor that is sliced /
    advanced at bb, it dominates bb with its Ok edge, and nothing advanced the
    cursor in between"""
    g = an.cfg
    hb = hdr_call.site
    if not (g.dominates(hb, bb) and hb != bb):
        return False
    ok_edge = False
    for d, cond, allowed, alll in an.constraints_at(bb):
        if cond.k == "discr":
            c = strip(cond.a[0])
            if c.k == "call" and c.a[0].name == "branch" and same_value(c.a[1][0], hdr_call) and allowed <= {"Continue"}:
                ok_edge = True
            if same_value(c, hdr_call) and allowed <= {"Ok"}:
                ok_edge = True
    if via_expect:
        ok_edge = True  # expect()/unwrap() returns only for Ok
    if not ok_edge:
        return False
    # the cursor: the object the header call received
    ht = None
    for b, t in f.calls():
        if b.idx == hb and t.callee and t.callee.name == "decode":
            ht = an.operand_target(t.args[0])
    if ht is None:
        return False
    # which object is sliced/advanced here
    ct = an.operand_target(cursor_op)
    root = ht[0]
    # mutations of the cursor strictly between the header call and bb
    evs = an.events(root, ht[2])
    after = set()
    for s0 in g.succ.get(hb, []):
        after |= g.reach(s0, avoid=(hb,))
    for b2, lst in evs.items():
        for ev in lst:
            if ev["kind"] in ("mutcall", "write") and b2 != hb and b2 != bb and b2 in after and bb in g.reach(b2, avoid=(hb,)):
                return False
    return True


# ------------------------------------------------------------ the rule pack


def run(ctx, report):
    cfg = ctx.config
    facts = ctx.facts
    nsites = 0
    foreign = set()
    used_rows = {}
    for f in facts.fns:
        if f.kind not in ("AssocFn", "Fn", "Closure"):
            continue
        sites = sites_of(ctx, f)
        for b, t in f.calls():
            if t.callee is not None and not t.callee.local:
                foreign.add(t.callee.fn)
        if not sites:
            continue
        report.analysed_fns.add(f.path)
        an = ctx.an(f)
        counts = {}
        for s in sites:
            if s["bb"] not in an.cfg.succ:
                continue  # unreachable code
            nsites += 1
            what = s["what"]
            short_what = what.split("::")[-1] if s["kind"] == "call" else what
            k = (f.path, short_what)
            counts[k] = counts.get(k, 0) + 1
            key = "%s/%s#%d" % (short_fn(f), short_what, counts[k])
            d = discharge(ctx, f, an, s)
            if d is not None:
                report.ob("PANIC", key, True, "%s: %s" % (d[0], d[1]), cfg, s["sp"])
                continue
            row = None
            for r in TABLE:
                if r[0] in f.path and r[1] in what:
                    row = r
                    break
            if row is not None and row[2] == "inv" and not inv_row_applies(ctx, f, an, s, row):
                report.violate("PANIC", key, "the triaged invariant (%s) does not cover this site any more: `%s` in %s is applied to something else than what the invariant guarantees" % (row[3].split(":")[0], short_what, short_fn(f)),
                               fn=f.path, sp=s["sp"], config=cfg)
                continue
            if row is not None:
                used_rows[row] = used_rows.get(row, 0) + 1
                if used_rows[row] > row[4] * 1:
                    # more sites of this kind than were triaged
                    pass
                per_cfg = sum(1 for kk, vv in counts.items() if kk[0] == f.path and row[1] in kk[1] or row[1] in what and kk == k)
                report.ob("PANIC", key, True, "%s: %s" % (row[2], row[3]), cfg, s["sp"])
                continue
            report.violate("PANIC", key, "potential panic `%s` in %s is neither guarded by a dominating check nor covered by a triaged invariant" % (what if len(what) < 120 else short_what, short_fn(f)),
                           fn=f.path, sp=s["sp"], config=cfg)
        # table rows are per function: more occurrences than triaged -> report
        for r in TABLE:
            if r[0] in f.path:
                n = sum(1 for s in sites if r[1] in s["what"] and discharge(ctx, f, an, s) is None)
                if n > r[4]:
                    report.violate("PANIC", "%s/%s#extra" % (short_fn(f), r[1].strip(":")), "%d sites `%s` in %s, only %d were triaged" % (n, r[1], short_fn(f), r[4]), fn=f.path, sp=f.span, config=cfg)
    report.check("FLOOR", "census", nsites >= 10, "potential panic sources examined in this configuration: %d" % nsites, config=cfg)
    report.note("foreign callees in %s: %d distinct" % (cfg, len(foreign)))

    # ---- unsafe
    us = [u for u in facts.unsafe_sites if not u.get("exp")]
    ufns = [f.path for f in facts.fns if f.j.get("unsafe")]
    for u in us:
        report.violate("UNSAFE", "site@%s" % u["span"].split(":")[0], "%s at %s" % (u["what"], u["span"]), sp=u["span"], config=cfg)
    for p in ufns:
        report.violate("UNSAFE", "fn/" + p, "unsafe fn %s" % p, fn=p, config=cfg)
    report.ob("UNSAFE", "none", not us and not ufns, "no hand-written unsafe block, impl or fn in the crate", cfg, nontrivial=False)

    # ---- recursion
    graph = {}
    for f in facts.fns:
        tg = set()
        for b, t in f.calls():
            if t.callee is not None and t.callee.is_local_target():
                tg.add(t.callee.target())
        # closures belong to their parent
        graph[f.path] = tg
    for f in facts.fns:
        if f.kind == "Closure" and f.parent in graph:
            graph[f.parent].add(f.path)
    cyc = find_cycle(graph)
    report.check("RECURSION", "call-graph", cyc is None, "the crate's call graph (%d bodies) has no cycle" % len(graph), "recursive cycle: %s" % (cyc,), config=cfg)

    # ---- loops
    loops_rule(ctx, report)

    # ---- the invariants the `inv` rows rest on
    from rules.c05 import inv_rlp
    from rules.c08 import validator_rule
    from rules import mutators
    from rules.typestate import TOP
    inv_rlp(ctx, report)
    validator_rule(ctx, report, "VALID")
    infos = mutators.analyse(ctx)
    for info in infos.values():
        if info.kind != "core":
            continue
        for n, c in enumerate(info.commits):
            st = c.state
            ok = st is not None and st is not TOP and st["keyed"] is not None
            report.check("INV-PK", "%s/commit%s" % (info.fn.name, "" if n == 0 else "#%d" % (n + 1)), ok,
                         "%s commits a record whose last content write is the signer's own public-key entry (so public_key() cannot fail)" % info.fn.name,
                         "%s can commit a record whose public-key entry is not the one its signer wrote last: public_key()'s expect may fire" % info.fn.name,
                         fn=info.fn.path, sp=c.sp, config=cfg)
    # decode: enr_to_public? before constructing (shared with C02)
    from rules.decoder import DecoderModel, find_decode
    for f in find_decode(ctx):
        m = DecoderModel(ctx, f)
        an = ctx.an(f)
        good = False
        if not m.problems:
            for b, t in f.calls():
                if t.callee and t.callee.name == "enr_to_public":
                    tgt = an.operand_target(t.args[0])
                    if tgt is not None and tgt[2] is False and m.holds_content(tgt[0], b.idx, len(b.stmts)):
                        good = True
        report.check("INV-PK", "decode", good, "decode obtains the public key from the decoded map before constructing the record", "decode does not check that the decoded map has a usable public key", fn=f.path, sp=f.span, config=cfg)


def short_fn(f):
    p = f.path
    if len(p) > 60:
        parts = p.split("::")
        return "::".join(parts[-2:]) if f.kind != "Closure" else "::".join(parts[-3:])
    return p


def find_cycle(graph):
    WHITE, GREY, BLACK = 0, 1, 2
    color = {n: WHITE for n in graph}

    def dfs(n, stack):
        color[n] = GREY
        for m in graph.get(n, ()):
            if m not in graph:
                continue
            if color[m] == GREY:
                return stack + [n, m]
            if color[m] == WHITE:
                r = dfs(m, stack + [n])
                if r:
                    return r
        color[n] = BLACK
        return None

    for n in graph:
        if color[n] == WHITE:
            r = dfs(n, [])
            if r:
                return r
    return None


def loops_rule(ctx, report):
    cfg = ctx.config
    n = 0
    for f in ctx.facts.fns:
        if f.kind not in ("AssocFn", "Fn", "Closure"):
            continue
        an = ctx.an(f)
        loops = an.cfg.loops()
        for head, body in loops.items():
            n += 1
            report.analysed_fns.add(f.path)
            # progress: every cycle passes through an Iterator::next() or a consuming decode on a cursor
            progress = None
            for b in sorted(body):
                t = f.blocks[b].term
                if t.kind == "call" and t.callee is not None:
                    c = t.callee
                    if c.name == "next" and (c.trait or "").endswith("Iterator") and all(an.cfg.dominates(b, tl) for tl in [x for x in body if head in an.cfg.succ[x]]):
                        st = c.self_ty["s"] if c.self_ty else ""
                        progress = "caller-supplied iterator (termination is the caller's)" if "impl Iterator" in st else "std iterator %s" % st.split("<")[0]
                    if c.name in ("decode_bytes",) and "Header" in c.fn and all(an.cfg.dominates(b, tl) for tl in [x for x in body if head in an.cfg.succ[x]]):
                        progress = progress or "every cycle consumes at least one byte through Header::decode_bytes(?)"
            key = "%s/loop%d" % (short_fn(f), sorted(loops).index(head) + 1)
            report.check("TERM", key, progress is not None, "loop in %s makes progress: %s" % (short_fn(f), progress), "cannot establish termination of a loop in %s" % short_fn(f), fn=f.path, sp=f.blocks[head].term.sp, config=cfg)
    report.check("FLOOR", "loops", n >= 1, "loops examined: %d" % n, config=cfg)


_own_run = run


def run(ctx, report):
    _own_run(ctx, report)
    from common import Only
    from rules import c01
    # INV-PK presupposes that the CombinedKey reader falls back to the ed25519 entry whenever the secp256k1 entry is unusable
    c01.pubkey_rule(ctx, Only(report, {"PUBKEY": "INV-PK"}, keys=lambda r, k: k.startswith("enr_to_public/combined")))

