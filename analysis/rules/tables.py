"""F1 - key/typing tables recovered from MIR: the validator
(`check_spec_reserved_keys`), writers (every content.insert / insert::<T> /
add_value::<T> site with its key constant and value class), readers
(get_decodable::<T>(key)), and the T-API oracle that says which public API
function touches which wire key."""
import dispatch
import guards
import rlpclass
from common import short
from kernel import feasible_reach, ok_payload, same_value, strip
from rules.decoder import PROBES, RESERVED
from rules.typestate import const_int

# ---------------------------------------------------------------- validator


class ValidatorModel:
    """check_spec_reserved_keys(key: &[u8], mut value: &[u8]) -> Result<(), Error>"""

    def __init__(self, ctx):
        self.ctx = ctx
        self.fn = ctx.facts.fn("check_spec_reserved_keys")
        self.problems = []
        if self.fn is None:
            # any private fn (key, value) -> Result taking two byte slices
            cands = [f for f in ctx.facts.fns if f.kind == "Fn" and len(f.inputs) == 2 and all(i["s"] == "&[u8]" for i in f.inputs) and f.output and "Result" in f.output["s"]]
            if len(cands) == 1:
                self.fn = cands[0]
        if self.fn is None:
            self.problems.append("validator function not found")
            return
        self.an = ctx.an(self.fn)
        # the value cursor: parameter 2 itself (`mut value`), or a local copy of it
        # (`let mut rest = value`) - whichever is handed to the decoders by &mut
        self.cursor = 2
        best = -1
        for cand in [2] + [l for l in range(self.fn.arg_count + 1, len(self.fn.locals)) if self._is_copy_of_value(l)]:
            n = sum(1 for lst in self.an.events(cand, False).values() for ev in lst if ev["kind"] == "mutcall")
            if n > best:
                best, self.cursor = n, cand
        self.vevents = []
        evs = self.an.events(self.cursor, False)
        order = {b: i for i, b in enumerate(self.an.cfg.rpo())}
        for bb in sorted(evs, key=lambda b: order.get(b, 10**6)):
            for ev in evs[bb]:
                if ev["kind"] in ("mutcall", "readcall", "read", "write", "escape"):
                    self.vevents.append(ev)
        self.consumers = [ev for ev in self.vevents if ev["kind"] == "mutcall"]

    def _is_copy_of_value(self, l):
        ds = self.an.defs().get(l, [])
        if not ds or self.fn.locals[l]["ty"]["s"] != "&[u8]":
            return False
        d = min(ds, key=lambda x: (x[0], x[1]))
        rv = getattr(d[2], "rv", None)
        if not (rv is not None and rv.kind == "use" and rv.ops[0].kind in ("copy", "move") and rv.ops[0].place.is_local()):
            return False
        import shapes
        return shapes.root_local(self.an, rv.ops[0].place.local, reborrows=True) == 2

    def is_key(self, e):
        es = strip(e)
        return es.k == "param" and es.a[0] == 1

    def ok_blocks(self):
        an = self.an
        out = []
        for bb, idx, node in an.defs().get(0, []):
            rv = getattr(node, "rv", None)
            if rv is not None and rv.kind == "aggregate" and rv.j.get("variant") == "Ok" and bb in an.cfg.succ:
                out.append(bb)
        return out

    def row(self, key):
        """-> dict(cls, full, v4, sites)"""
        an = self.an
        cfg = an.cfg
        leaf, visited = dispatch.fold(an, 0, self.is_key, key)
        region = cfg.reach(leaf)
        cons = [ev for ev in self.consumers if ev["bb"] in region]
        # consumers reachable on the path of this key only: those not in other leaves.
        # A leaf's own consumers dominate-or-are-dominated within the region: take the
        # ones reachable from the leaf without passing through another dispatch block.
        classes = [(rlpclass.consumer_class(ev["term"]), ev) for ev in cons]
        res = {"cls": None, "full": False, "v4": False, "why": None, "sites": [ev["sp"] for _, ev in classes], "leaf": leaf}
        kinds = [c for c, ev in classes]
        if len(kinds) == 1 and kinds[0][0] in ("UINT", "BYTES", "UTF8", "LIST", "BOOL"):
            res["cls"] = kinds[0]
        elif len(kinds) == 1 and kinds[0] == ("HEADER",):
            res["cls"] = ("ITEM",)
        elif not kinds:
            res["cls"] = None
            res["why"] = "value is not looked at"
        else:
            res["why"] = "consumes %s" % [rlpclass.fmt(k) for k in kinds]
        # full consumption: every Ok reachable from the leaf is behind an emptiness proof
        oks = [b for b in self.ok_blocks() if b in region]
        if not oks:
            res["why"] = (res["why"] or "") + " no Ok exit"
            return res
        # a failure of the item's decoder must keep the validator from answering Ok: the failure edge of each consumer's
        # result is tested and does not reach Ok (`u16::decode(&mut v).ok();` would accept anything)
        for _c, ev in classes:
            cname = ev["term"].callee.name if ev["term"].callee else None
            tested = False
            leaks = False
            sw = []
            for n in an.cfg.nodes:
                if n not in region:
                    continue
                info = an.switch_info(n)
                if info is None or info[0].k != "discr" or not info[3]:
                    continue
                if not any(x.k == "call" and x.site == ev["bb"] and x.a[0].name == cname for x in info[0].walk()):
                    continue
                sw.append((n, info))

            def success_targets(info):
                cond, targets, otherwise, names = info
                out_ = [tb for v, tb in targets if names.get(v) in ("Continue", "Ok", "Some")]
                rest = set(names.values()) - {names.get(x) for x, _ in targets}
                if rest and rest <= {"Continue", "Ok", "Some"}:
                    out_.append(otherwise)
                return out_
            for n, info in sw:
                if any(n1 != n and any(an.cfg.dominates(st_, n) for st_ in success_targets(i1)) for n1, i1 in sw):
                    continue  # re-test on the success path (drop elaboration): the failure edge is infeasible
                cond, targets, otherwise, names = info
                for v, tb in list(targets) + [("otherwise", otherwise)]:
                    lab = names.get(v) if v != "otherwise" else None
                    if lab in ("Continue", "Ok", "Some"):
                        tested = True
                        continue
                    if lab is None and v == "otherwise":
                        covered = {names.get(x) for x, _ in targets}
                        rest = set(names.values()) - covered
                        if rest and rest <= {"Continue", "Ok", "Some"}:
                            tested = True
                        if not rest or rest <= {"Continue", "Ok", "Some"}:
                            continue
                    if tb is not None and any(ob in an.cfg.reach(tb) or ob == tb for ob in oks):
                        leaks = True
            if not tested or leaks:
                res["cls"] = None
                res["why"] = "the value's decode failure does not prevent Ok"
        full_all = True
        for ob in oks:
            full = False
            for d, cond, allowed, alll in an.constraints_at(ob):
                if d not in region and d != leaf:
                    continue
                c = strip(cond)
                neg = False
                while c.k == "unop" and c.a[0] == "Not":
                    neg = not neg
                    c = strip(c.a[1])
                truth = ("otherwise" in allowed or 1 in allowed) and 0 not in allowed
                falsity = allowed == {0}
                val = truth if not neg else falsity
                nval = falsity if not neg else truth
                if c.k == "call" and c.a[0].name == "is_empty" and self._is_value(c.a[1][0]) and val and self._after_consumer(c.site, classes):
                    full = True
                if c.k == "binop" and c.a[0] in ("Eq", "Ne"):
                    sides = [strip(c.a[1]), strip(c.a[2])]
                    ln = [x for x in sides if x.k == "call" and x.a[0].name == "len" and x.a[1] and self._is_value(x.a[1][0])]
                    pl = [x for x in sides if x.k == "field" and x.a[1] == "payload_length"]
                    zero = [x for x in sides if x.k == "const" and x.a[0] == 0]
                    eqv = (val if c.a[0] == "Eq" else nval)
                    if ln and pl and eqv and self._after_consumer(ln[0].site, classes):
                        # header.payload_length == value.len(): the header is the one just decoded
                        src = ok_payload(strip(pl[0].a[0]))
                        if src is not None and classes and same_value(src, an.call_expr(classes[0][1]["term"], classes[0][1]["bb"])):
                            full = True
                    if ln and zero and eqv and self._after_consumer(ln[0].site, classes):
                        full = True
            full_all = full_all and full
        res["full"] = full_all
        # id must be "v4": the `not equal` edge of the comparison must not reach Ok
        if key == b"id" and classes:
            val = an.call_expr(classes[0][1]["term"], classes[0][1]["bb"])
            for n in sorted(region):
                blk = self.fn.blocks[n]
                t = blk.term
                if not (t.kind == "call" and t.callee and t.callee.name in ("eq", "ne") and len(t.args) == 2):
                    continue
                sides = [strip(an.operand_expr(x, n, len(blk.stmts))) for x in t.args]
                lit = [x for x in sides if x.k == "const" and x.a[0] == b"v4"]
                dec = [x for x in sides if ok_payload(x) is not None and same_value(ok_payload(x), val)]
                if not (lit and dec) or t.target is None:
                    continue
                info = an.switch_info(t.target)
                if info is None:
                    continue
                cond, targets, otherwise, names = info
                neg = cond.k == "unop" and cond.a[0] == "Not"
                good = True
                for v, tb in list(targets) + [("otherwise", otherwise)]:
                    is_true = (v != 0) if v != "otherwise" else all(x == 0 for x, _ in targets)
                    equal = is_true if t.callee.name == "eq" else (not is_true)
                    if neg:
                        equal = not equal
                    if not equal and any(ob in feasible_reach(an, tb) for ob in oks):
                        good = False
                res["v4"] = good
        return res

    def _is_value(self, e):
        """the cursor (what is left of the value), possibly stepped over the
        payload of the header that was just decoded"""
        from kernel import unmut
        cur = unmut(e)
        for _ in range(6):
            p = ok_payload(cur)
            if p is not None:
                cur = unmut(p)
                continue
            if cur.k == "phi":
                alts = [unmut(a) for a in cur.a[0]]
                return all(self._is_value(a) for a in alts)
            # cursor.get(h.payload_length..) / &cursor[h.payload_length..]
            if cur.k == "call" and cur.a[0].name in ("get", "index") and len(cur.a[1]) == 2:
                r = strip(cur.a[1][1])
                if r.k == "agg" and r.a[0].endswith("RangeFrom"):
                    st = strip(r.a[1]["start"])
                    if st.k == "field" and st.a[1] == "payload_length":
                        cur = unmut(cur.a[1][0])
                        continue
            break
        return cur.k == "param" and cur.a[0] == 2

    def _after_consumer(self, site, classes):
        # on this key's path the test comes after the item was consumed
        cfg = self.an.cfg
        return all(ev["bb"] == site or (cfg.reaches(ev["bb"], site) and not cfg.reaches(site, ev["bb"])) for _, ev in classes) if classes else True


# ---------------------------------------------------------------- API calls


def const_key(e):
    """bytes if e denotes a constant byte-string key (looking through
    into()/to_vec()/as_bytes()/clone())"""
    cur = strip(e)
    for _ in range(8):
        if cur.k == "const" and isinstance(cur.a[0], bytes):
            return cur.a[0]
        if cur.k == "call" and cur.a[0].name in ("into", "to_vec", "from", "to_owned", "clone", "as_bytes", "as_ref", "as_slice") and cur.a[1]:
            cur = strip(cur.a[1][0])
            continue
        if cur.k == "cast":
            cur = strip(cur.a[1])
            continue
        return None
    return None


def peel_bytes(e):
    """look through conversions that preserve a byte string's content
    (to_vec / to_owned / into / from / clone / as_ref / as_slice / x[..])"""
    from kernel import unmut
    e = unmut(e)
    for _ in range(8):
        if e.k == "call" and len(e.a[1]) == 1 and e.a[0].name in ("to_vec", "to_owned", "into", "from", "clone", "into_vec", "into_boxed_slice") and e.a[0].krate in ("core", "alloc", "std"):
            e = unmut(e.a[1][0])
            continue
        break
    return e


def value_class_of_expr(callee_targ, vexpr):
    """class of what `insert::<T>(key, &v)` / `add_value::<T>` stores, refined
    by the value expression when T is a plain byte slice"""
    cls = rlpclass.class_of_type(callee_targ)
    v = peel_bytes(vexpr)
    if cls == ("BYTES", None):
        if v.k == "call" and v.a[0].name == "octets":
            if "Ipv4Addr" in v.a[0].fn:
                return ("BYTES", 4)
            if "Ipv6Addr" in v.a[0].fn:
                return ("BYTES", 16)
    return cls


def typed_calls(ctx, fn, names):
    """calls in `fn` to local generic helpers named in `names`
    (insert, add_value, get_decodable, remove_key, ...) with a constant key:
    list of dict(name, key, targ, value, bb, sp, term)"""
    an = ctx.an(fn)
    out = []
    for b, t in fn.calls():
        c = t.callee
        if c is None or c.name not in names or not c.local:
            continue
        idx = len(b.stmts)
        args = [an.operand_expr(a, b.idx, idx) for a in t.args]
        # key is the first non-self argument
        key = const_key(args[1]) if len(args) > 1 else None
        targ = c.targs[0]["s"] if c.targs else None
        # for Enr<K>/Builder<K> methods targs[0] is K; the value type follows
        tlist = [x["s"] for x in c.targs]
        out.append(dict(name=c.name, key=key, keyexpr=args[1] if len(args) > 1 else None, targs=tlist, args=args, bb=b.idx, sp=t.sp, term=t, target=c.target()))
    return out
