"""F2 record typestate: a forward must-analysis over the events that touch one
record object (the clone a mutator works on, or *self for in-place code).

State (facts that hold on every path to a point):
  keyed   k  the last content write stored rlp(public(k).encode()) under
             public(k).enr_key()            ('self' = untouched since the clone)
  signed  k  sign(obj, k) succeeded after the last write to seq/content
  idd     k  obj.node_id = NodeId::from(public(k))
  sized      an edge implying size(obj) <= MAX was taken after the last write
  incs       number of `seq := checked_add(seq, 1)` writes (0, 1, 'many')
  seqsrc     how seq was last written: 'self' | 'inc' | ('param', i) | 'unknown'
"""
import guards
from common import is_enr_ty, is_ref_to, short
from kernel import E, ok_payload, strip, try_payload, unmut


# ---------------------------------------------------------------- helpers


def trace_local(an, op):
    """follow plain moves/copies back to the local that first held the value"""
    if op.kind not in ("copy", "move"):
        return None
    if op.place.proj == ["deref"]:
        # *r with r = &mut L (a reference taken once, to a whole local)
        r = an.resolve_ref(op.place.local)
        if r is not None and r[1] == [] and r[2] is False:
            return trace_local_of(an, r[0])
        return None
    if not op.place.is_local():
        op = _field_of_aggregate(an, op.place)
        if op is None or op.kind not in ("copy", "move") or not op.place.is_local():
            return None
    return trace_local_of(an, op.place.local)


def trace_local_of(an, cur):
    for _ in range(20):
        d = an.unique_def(cur)
        if d is None:
            return cur
        rv = getattr(d[2], "rv", None)
        if rv is not None and rv.kind == "use" and rv.ops[0].kind in ("copy", "move"):
            o = rv.ops[0]
            if not o.place.is_local():
                o = _field_of_aggregate(an, o.place)
            if o is not None and o.kind in ("copy", "move") and o.place.is_local():
                cur = o.place.local
                continue
        return cur
    return cur


def _field_of_aggregate(an, place):
    """the operand stored in field f when `place` is `L.f`, L (possibly reached
    through plain moves) is built once by a struct/tuple aggregate and never
    written in part or mutably borrowed afterwards (a value struct that only
    carries its fields from one helper to the next)"""
    if len(place.proj) != 1 or not (isinstance(place.proj[0], dict) and "f" in place.proj[0]):
        return None
    L = place.local
    for _ in range(10):
        if an.mutation_points().get(L):
            return None
        d = an.unique_def(L)
        if d is None:
            return None
        rv = getattr(d[2], "rv", None)
        if rv is None:
            return None
        if rv.kind == "use" and rv.ops[0].kind in ("copy", "move") and rv.ops[0].place.is_local():
            L = rv.ops[0].place.local
            continue
        if rv.kind == "aggregate" and rv.j.get("agg") in ("adt", "tuple"):
            i = place.proj[0]["f"]
            return rv.ops[i] if isinstance(i, int) and i < len(rv.ops) else None
        return None
    return None


def key_param(e):
    """k if e denotes `*param k` of the key type (looked through refs)"""
    e = strip(e)
    if e.k == "param":
        return e.a[0]
    return None


def pubkey_of(e):
    """k if e is `<K as EnrKey>::public(param k)`"""
    e = strip(e)
    if e.k == "call" and e.a[0].name == "public" and (e.a[0].trait or "").endswith("EnrKey") and e.a[1]:
        return key_param(e.a[1][0])
    return None


def is_pubkey_method(e, name):
    """P if e is `<PublicKey as EnrPublicKey>::<name>(&P)`"""
    e = strip(e)
    if e.k == "call" and e.a[0].name == name and (e.a[0].trait or "").endswith("EnrPublicKey") and e.a[1]:
        return e.a[1][0]
    return None


def const_int(e, depth=0):
    """integer value of a constant expression (folds +,-,* of constants,
    including the checked `AddWithOverflow(..).0` form of debug builds)"""
    e = strip(e)
    if e.k == "const" and isinstance(e.a[0], int):
        return e.a[0]
    if depth > 8:
        return None
    if e.k == "call" and e.a[0].name == "size_of" and not e.a[1]:
        import shapes
        return shapes.fold_const(e)
    if e.k == "call" and e.a[0].name == "len" and len(e.a[1]) == 1 and strip(e.a[1][0]).k == "const" and isinstance(strip(e.a[1][0]).a[0], bytes):
        return len(strip(e.a[1][0]).a[0])  # the length of a string / byte-string literal
    if e.k == "field" and e.a[1] == "0" and e.a[0].k == "binop" and e.a[0].a[0].endswith("WithOverflow"):
        e = e.a[0]
    if e.k == "binop":
        a, b = const_int(e.a[1], depth + 1), const_int(e.a[2], depth + 1)
        if a is None or b is None:
            return None
        op = e.a[0].replace("WithOverflow", "").replace("Unchecked", "")
        if op == "Add":
            return a + b
        if op == "Sub":
            return a - b
        if op == "Mul":
            return a * b
    return None


def rlp_encoding_of(an, op):
    """If the operand provably holds the RLP encoding of exactly one value,
    return ('rlp', value_expr, encodable self type string); else None.
    Recognised: BytesMut::new()/with_capacity() filled by exactly one
    `Encodable::encode(v, &mut buf)` then frozen/converted; alloy_rlp::encode(v)."""
    if op.kind not in ("copy", "move"):
        return None
    e = strip(an.operand_expr(op, *_site_of_operand(an, op)))
    return _rlp_expr(an, e, op)


def _site_of_operand(an, op):
    # expression of an operand is position independent for single-def temps;
    # use the unique def site of its local when available
    l = op.place.local
    d = an.unique_def(l)
    if d is not None:
        return d[0], d[1] + 1
    return 0, 0


def _rlp_expr(an, e, op=None):
    e = strip(e)
    # conversions that keep the bytes
    for _ in range(6):
        if e.k == "call" and e.a[0].name in ("freeze", "from", "into", "to_vec", "copy_from_slice", "clone") and e.a[1] and e.a[0].krate in ("bytes", "core", "alloc", "std"):
            inner = strip(e.a[1][0])
            if e.a[0].name == "freeze":
                # need the buffer local: find it through the MIR operand
                return ("freeze", e)
            e = inner
            continue
        break
    if e.k == "call" and e.a[0].fn == "alloy_rlp::encode" and e.a[1]:
        t = e.a[0].targs[0]["s"] if e.a[0].targs else "?"
        return ("rlp", strip(e.a[1][0]), t, e)
    return None


def buffer_fill(an, local):
    """For a local byte buffer: (def_expr, [mutating events]) over the whole fn"""
    evs = an.events(local, False)
    muts = []
    for bb in sorted(evs):
        for ev in evs[bb]:
            if ev["kind"] in ("mutcall", "write", "escape"):
                muts.append(ev)
    return muts


def value_is_rlp_of(an, term, argidx):
    """Decide what a call argument (e.g. the value of content.insert) holds.
    Returns a dict: {'kind': 'rlp', 'value': expr, 'ty': str} when it is the
    RLP encoding of one value; {'kind': 'param', 'idx': i} when it is a caller
    supplied Bytes parameter passed through unchanged; {'kind':'raw', 'expr':e}
    when it is a RAW value taken from a content map; else {'kind':'unknown'}."""
    op = term.args[argidx]
    bbidx = None
    for b in an.fn.blocks:
        if b.term is term:
            bbidx = b.idx
    e = strip(an.operand_expr(op, bbidx, len(an.fn.blocks[bbidx].stmts)))
    # look through byte-preserving conversions
    cur = e
    for _ in range(6):
        by_from = cur.k == "mutated" and isinstance(cur.a[1], int) and cur.a[1] < len(an.fn.locals) and "BytesMut" in an.fn.locals[cur.a[1]]["ty"].get("s", "") and cur is not e
        if (cur.k == "call" and cur.a[0].name == "freeze" and cur.a[0].krate == "bytes") or by_from:
            # find the BytesMut local that is frozen (`buf.freeze()`, or `Bytes::from(buf)`, which is the same conversion)
            buf_local = cur.a[1] if by_from else _find_frozen_local(an, op)
            if buf_local is None:
                return {"kind": "unknown", "expr": e}
            muts = buffer_fill(an, buf_local)
            d = an.unique_def(buf_local)
            if d is None:
                return {"kind": "unknown", "expr": e}
            dexpr = an.call_expr(d[2], d[0]) if not hasattr(d[2], "rv") or d[2].rv is None else an.rvalue_expr(d[2].rv, d[0], d[1])
            if not (dexpr.k == "call" and dexpr.a[0].name in ("new", "with_capacity") and "BytesMut" in dexpr.a[0].fn):
                return {"kind": "unknown", "expr": e}
            enc = [m for m in muts if m["kind"] == "mutcall"]
            if not enc or len(enc) != len(muts):
                return {"kind": "unknown", "expr": e, "why": "buffer filled by %d mutating events" % len(muts)}
            for m in enc:
                t = m["term"]
                if not (t.callee and t.callee.name == "encode" and (t.callee.trait or "").endswith("alloy_rlp::Encodable") and m["arg"] == 1):
                    return {"kind": "unknown", "expr": e, "why": "buffer not filled by Encodable::encode"}
            g = an.cfg
            if len(enc) > 1:
                # several encoders are fine when exactly one runs on every path:
                # pairwise exclusive, and together they cut every path from the
                # buffer's creation to its use
                blocks = [m["bb"] for m in enc]
                for i1, b1 in enumerate(blocks):
                    for b2 in blocks[i1 + 1:]:
                        if b1 == b2 or g.reaches(b1, b2) or g.reaches(b2, b1):
                            return {"kind": "unknown", "expr": e, "why": "buffer may be filled more than once"}
                use_bb = bbidx
                if use_bb in g.reach(d[0], avoid=tuple(blocks)) and d[0] not in blocks:
                    return {"kind": "unknown", "expr": e, "why": "buffer may reach its use without being filled"}
            vals = []
            tys = set()
            for m in enc:
                t = m["term"]
                vals.append(strip(an.operand_expr(t.args[0], m["bb"], m["idx"])))
                tys.add(t.callee.self_ty["s"] if t.callee.self_ty else "?")
            v = vals[0] if len(vals) == 1 else E("phi", vals)
            ty = tys.pop() if len(tys) == 1 else "mixed:" + "|".join(sorted(tys))
            return {"kind": "rlp", "value": v, "ty": ty, "site": enc[0]["term"].sp}
        if cur.k == "call" and cur.a[0].name in ("from", "into", "clone", "to_vec") and cur.a[1] and cur.a[0].krate in ("bytes", "core", "alloc", "std"):
            cur = strip(cur.a[1][0])
            continue
        break
    if cur.k == "call" and cur.a[0].fn == "alloy_rlp::encode" and cur.a[1]:
        ty = cur.a[0].targs[0]["s"] if cur.a[0].targs else "?"
        return {"kind": "rlp", "value": strip(cur.a[1][0]), "ty": ty, "site": None}
    # a choice between encoder outputs (one per path) is an encoder output
    if cur.k == "phi" and cur.a[0] and all(strip(a).k == "call" and strip(a).a[0].fn == "alloy_rlp::encode" and strip(a).a[1] for a in cur.a[0]):
        alts = [strip(a) for a in cur.a[0]]
        tys = {(a.a[0].targs[0]["s"] if a.a[0].targs else "?") for a in alts}
        vals = [strip(a.a[1][0]) for a in alts]
        return {"kind": "rlp", "value": vals[0] if len(vals) == 1 else E("phi", vals), "ty": tys.pop() if len(tys) == 1 else "mixed:" + "|".join(sorted(tys)), "site": None}
    if cur.k == "param":
        return {"kind": "param", "idx": cur.a[0], "expr": cur}
    return {"kind": "unknown", "expr": e}


def _find_frozen_local(an, op):
    """local L such that the operand is (a move of) BytesMut::freeze(move L)"""
    l = trace_local(an, op)
    if l is None:
        return None
    d = an.unique_def(l)
    if d is None:
        return None
    node = d[2]
    if hasattr(node, "callee") and node.callee is not None and node.callee.name == "freeze" and node.args:
        return trace_local(an, node.args[0])
    return None


# ----------------------------------------------------------- the analysis

TOP = "TOP"


def merge(a, b):
    if a is TOP:
        return b
    if b is TOP:
        return a
    out = {}
    for k in a:
        if a[k] == b[k]:
            out[k] = a[k]
        elif k == "sized":
            out[k] = False
        elif k == "incs":
            out[k] = "conflict"
        else:
            out[k] = None
    return out


INITIAL_VALID = {"keyed": "self", "signed": "self", "idd": "self", "sized": True, "incs": 0, "seqsrc": "self"}


class RecordFlow:
    def __init__(self, ctx, fn, root, via_param, chain=()):
        """chain: further locals the same object is moved into, in order (a
        work copy handed by value through an inlined helper and back)"""
        self.ctx = ctx
        self.fn = fn
        self.an = ctx.an(fn)
        self.root = root
        self.via_param = via_param
        self.chain = [root] + list(chain)
        self.events = {}
        for n, r in enumerate(self.chain):
            evs = self.an.events(r, via_param if n == 0 else False)
            for bb, lst in evs.items():
                for ev in lst:
                    if n > 0 and ev["kind"] == "def":
                        continue  # the hand-over itself
                    if n < len(self.chain) - 1 and ev["kind"] == "move":
                        continue
                    ev = dict(ev)
                    ev["root"] = r
                    self.events.setdefault(bb, []).append(ev)
        for bb in self.events:
            self.events[bb].sort(key=lambda ev: ev["idx"])
        self.actions = {}  # (bb, idx, kind) -> interpreted action
        self.notes = []
        self.size_guards = []  # (switch bb, q_expr, label, set)
        self.max_const = None
        self._in = None

    # -- interpretation of one event -------------------------------------
    def interpret(self, ev):
        key = (ev["bb"], ev["idx"], ev["kind"], ev.get("arg"))
        if key in self.actions:
            return self.actions[key]
        a = self._interpret(ev)
        self.actions[key] = a
        return a

    def _interpret(self, ev):
        an = self.an
        kind = ev["kind"]
        path = ev["path"]
        top = path[0] if path else "*"
        if kind == "readcall":
            return ("read", top)
        if kind == "def":
            return ("def",)
        if kind == "move":
            return ("move",)
        if kind == "mutcall":
            t = ev["term"]
            c = t.callee
            if top == "content" and c is not None and "BTreeMap" in c.fn:
                if c.name == "insert" and len(t.args) == 3:
                    kexpr = strip(an.operand_expr(t.args[1], ev["bb"], ev["idx"]))
                    P = is_pubkey_method(kexpr, "enr_key")
                    if P is not None:
                        k = pubkey_of(P)
                        v = value_is_rlp_of(an, t, 2)
                        if k is not None and v["kind"] == "rlp":
                            PV = is_pubkey_method(v["value"], "encode")
                            if PV is not None and pubkey_of(PV) == k and v["ty"] in ("[u8]", "&[u8]"):
                                return ("content", "key", k, t.sp)
                        return ("content", "badkey", short(kexpr), t.sp, v)
                    return ("content", "insert", kexpr, t.sp, value_is_rlp_of(an, t, 2))
                if c.name == "remove":
                    return ("content", "remove", strip(an.operand_expr(t.args[1], ev["bb"], ev["idx"])), t.sp)
                return ("content", "other", c.name, t.sp)
            if top == "*" and c is not None and c.target() == "Enr::<K>::sign" and ev["arg"] == 0:
                k = key_param(an.operand_expr(t.args[1], ev["bb"], ev["idx"]))
                return ("sign", k, t.sp)
            return ("unknown-mut", top, c.full if c else "?", t.sp)
        if kind == "write":
            s = ev.get("stmt")
            if s is None or s.rv is None:
                return ("unknown-mut", top, "call result stored", ev["sp"])
            e = an.rvalue_expr(s.rv, ev["bb"], ev["idx"])
            if top == "seq":
                return self._seq_write(e, ev)
            if top == "node_id":
                es = strip(e)
                if es.k == "call" and es.a[0].name == "from" and "NodeId" in es.a[0].full and es.a[1]:
                    k = pubkey_of(es.a[1][0])
                    if k is not None:
                        return ("node_id", k, ev["sp"])
                return ("node_id", None, ev["sp"], short(e))
            if top == "signature":
                return ("sigwrite", short(e), ev["sp"])
            if top == "content":
                return ("content", "other", "assignment", ev["sp"])
            if top == "*":
                return ("overwrite", e, ev["sp"])
            return ("unknown-mut", top, short(e), ev["sp"])
        if kind == "escape":
            return ("unknown-mut", top, "mutable alias escapes", ev["sp"])
        return ("read", top)

    def _seq_write(self, e, ev):
        """classify `obj.seq = e`"""
        es = strip(e)
        if es.k == "param":
            return ("seq", "param", es.a[0], ev["sp"])
        inner = ok_payload(es)
        err_kind = None
        x = None
        if inner is not None:
            x = strip(inner)
            # the error the None outcome is turned into (`.ok_or(E)`), if written that way
            for c in es.walk():
                if c.k == "call" and c.a[0].name in ("ok_or", "ok_or_else") and len(c.a[1]) > 1:
                    errarg = strip(c.a[1][1])
                    if errarg.k == "agg":
                        err_kind = errarg.a[0].split("::")[-1]
        if x is not None and x.k == "call" and x.a[0].name == "checked_add" and "u64" in x.a[0].fn and len(x.a[1]) == 2:
            base = strip(x.a[1][0])
            step = const_int(x.a[1][1])
            if step is not None and base.k == "field" and base.a[1] == "seq":
                r = unmut(base.a[0])
                same = False
                if self.via_param:
                    same = r.k == "param" and r.a[0] == self.root
                else:
                    # the object's own field: the base must be the object local;
                    # its expression is the object's definition (the clone)
                    rd = self.an.unique_def(self.root)
                    same = rd is not None and self._is_obj_expr(base.a[0])
                if same:
                    if err_kind is None:
                        err_kind = self._none_outcome(x)
                    return ("seq", "inc", step, ev["sp"], err_kind, x.site)
        return ("seq", "unknown", short(e), ev["sp"])

    def _none_outcome(self, call):
        """explicit `match x.checked_add(..) { None => return Err(E), .. }`:
        the error kind every exit reachable from the None edge returns"""
        an = self.an
        cfg = an.cfg
        for d in cfg.nodes:
            info = an.switch_info(d)
            if info is None:
                continue
            cond, targets, otherwise, names = info
            if cond.k != "discr" or not names:
                continue
            c = strip(cond.a[0])
            if not (c.k == "call" and c.site == call.site and c.a[0].name == call.a[0].name):
                continue
            inv = {n: v for v, n in names.items()}
            if "None" not in inv:
                continue
            tb = dict(targets).get(inv["None"], otherwise)
            kinds = set()
            for bb, idx, node in an.defs().get(0, []):
                if bb in cfg.reach(tb, avoid=(d,)):
                    rv = getattr(node, "rv", None)
                    e = an.rvalue_expr(rv, bb, idx) if rv is not None else an.call_expr(node, bb)
                    if e.k == "agg" and e.a[0] == "std::result::Result::Err" and strip(e.a[1]["0"]).k == "agg":
                        kinds.add(strip(e.a[1]["0"]).a[0].split("::")[-1])
                    else:
                        kinds.add("?")
            if len(kinds) == 1:
                return kinds.pop()
            return None
        return None

    def _is_obj_expr(self, e):
        """does expression e denote the work object (its defining expression)?"""
        d = self.an.unique_def(self.root)
        if d is None:
            return False
        node = d[2]
        dexpr = self.an.call_expr(node, d[0]) if (not hasattr(node, "rv") or node.rv is None) else self.an.rvalue_expr(node.rv, d[0], d[1])
        return repr(unmut(e)) == repr(unmut(dexpr))

    # -- transfer -------------------------------------------------------
    def apply(self, st, act):
        if st is TOP:
            return st
        st = dict(st)
        k = act[0]
        if k in ("read", "def", "move"):
            return st
        if k == "content":
            st["signed"] = None
            st["sized"] = False
            st["keyed"] = act[2] if act[1] == "key" else None
            return st
        if k == "seq":
            st["signed"] = None
            st["sized"] = False
            if act[1] == "inc":
                if act[2] == 1 and st["incs"] == 0:
                    st["incs"] = 1
                    st["seqsrc"] = "inc"
                else:
                    st["incs"] = "many" if act[2] == 1 else "bad-step"
                    st["seqsrc"] = "unknown"
            elif act[1] == "param":
                st["seqsrc"] = ("param", act[2])
            else:
                st["seqsrc"] = "unknown"
            return st
        if k == "sign":
            st["signed"] = act[1]
            st["sized"] = False
            return st
        if k == "sigwrite":
            st["signed"] = None
            st["sized"] = False
            return st
        if k == "node_id":
            st["idd"] = act[1]
            return st
        if k in ("unknown-mut", "overwrite"):
            return {"keyed": None, "signed": None, "idd": None, "sized": False, "incs": "unknown", "seqsrc": "unknown"}
        return st

    def edge_effect(self, st, src, dst):
        """size guard: edge implies size(obj) <= MAX"""
        if st is TOP:
            return st
        info = self.an.switch_info(src)
        if info is None:
            return st
        cond, targets, otherwise, names = info
        if names:
            return st
        labels = [v for v, tb in targets if tb == dst]
        if otherwise == dst:
            labels.append("otherwise")
        if len(labels) != 1:
            return st
        r = guards.edge_set(cond, labels[0], const_int)
        if r is None:
            return st
        q, s = r
        qs = strip(q)
        if qs.k == "call" and qs.a[0].target() == "Enr::<K>::size" and qs.a[1] and self._refers_to_obj(qs.a[1][0]):
            self.size_guards.append((src, labels[0], s, self.fn.blocks[src].term.sp))
            if guards.subset(s, [(0, MAX_ENR_SIZE)]):
                st = dict(st)
                st["sized"] = True
        return st

    def _refers_to_obj(self, e):
        e = unmut(e)
        if self.via_param:
            return e.k == "param" and e.a[0] == self.root
        return self._is_obj_expr(e)

    # -- fixpoint -------------------------------------------------------
    def solve(self, start_block, initial):
        """must-analysis from `start_block` (object exists and satisfies
        `initial` on entry to it)."""
        cfg = self.an.cfg
        state_in = {n: TOP for n in cfg.nodes}
        state_in[start_block] = dict(initial)
        self.start_block = start_block
        work = [start_block]
        iters = 0
        while work and iters < 20000:
            iters += 1
            n = work.pop(0)
            st_out = self._flow_block(n, state_in[n])
            for s in cfg.succ[n]:
                es = self.edge_effect(st_out, n, s)
                if s == start_block:
                    continue
                old = state_in[s]
                new = merge(old, es)
                if new != old:
                    state_in[s] = new
                    if s not in work:
                        work.append(s)
        self._in = state_in
        return state_in

    def _flow_block(self, n, st):
        cur = st
        for ev in self.events.get(n, []):
            cur = self.apply(cur, self.interpret(ev))
        return cur

    def state_before(self, bb, idx):
        cur = self._in.get(bb, TOP)
        for ev in self.events.get(bb, []):
            if ev["idx"] >= idx:
                break
            cur = self.apply(cur, self.interpret(ev))
        return cur

    def all_actions(self):
        out = []
        for bb in sorted(self.events):
            for ev in self.events[bb]:
                out.append((ev, self.interpret(ev)))
        return out


MAX_ENR_SIZE = 300  # T-CONST; the crate's constant is checked against it in C09


# ------------------------------------------------------ locating objects


def work_objects(ctx, fn):
    """locals of type Enr<K> defined as a clone of *self, with the commit
    sites `*self = move obj` (possibly through a temporary)."""
    an = ctx.an(fn)
    out = []
    for l, decl in enumerate(fn.locals):
        if l == 0 or l <= fn.arg_count:
            continue
        if not is_enr_ty(decl["ty"]):
            continue
        d = an.unique_def(l)
        if d is None:
            continue
        node = d[2]
        # `let mut work = tmp;` with tmp = self.clone() used for nothing else
        rv0 = getattr(node, "rv", None)
        if rv0 is not None and rv0.kind == "use" and rv0.ops[0].kind == "move" and rv0.ops[0].place.is_local() and is_enr_ty(fn.local_ty(rv0.ops[0].place.local)):
            t0 = rv0.ops[0].place.local
            d0 = an.unique_def(t0)
            uses = [1 for evs in an.events(t0, False).values() for ev in evs if ev["kind"] not in ("def", "move")]
            if d0 is not None and not uses and t0 > fn.arg_count:
                d, node = d0, d0[2]
        if hasattr(node, "callee") and node.callee is not None and node.callee.name == "clone" and node.args:
            src = an.operand_target(node.args[0])
            if src is not None and src[0] == 1 and src[2] is True and src[1] == []:
                out.append((l, d))
    return out


def value_chain(an, bb, idx, op, stop=None, keep=None):
    """Follow a moved value back through plain moves, `Ok(..)`/`Some(..)`
    wrapping, `?` and payload projections, using the reaching definitions at
    each use (unique on a threaded CFG).  Returns the locals that held the
    value itself (not a wrapper of it), oldest first; stops early at the first
    local for which stop(local) holds.  None if the trail is lost before any
    local was recorded."""
    fn = an.fn
    if isinstance(op, int):
        cur = op
    else:
        if op.kind not in ("copy", "move") or op.place.proj:
            return None
        cur = op.place.local
    pos = (bb, idx)
    chain = []
    wrapped = 0
    for _ in range(40):
        if wrapped == 0 and (keep is None or keep(cur)):
            if not chain or chain[0] != cur:
                chain.insert(0, cur)
            if stop is not None and stop(cur):
                return chain
        rds = an.reaching_defs(cur, pos[0], pos[1])
        if len(rds) != 1 or rds[0] == "entry":
            break
        dbb, didx, node = rds[0]
        rv = getattr(node, "rv", None)
        if rv is not None:
            if rv.kind == "use" and rv.ops[0].kind in ("copy", "move"):
                p = rv.ops[0].place
                if p.is_local():
                    cur, pos = p.local, (dbb, didx)
                    continue
                names = [e.get("name") for e in p.proj if isinstance(e, dict)]
                if len(p.proj) == 2 and isinstance(p.proj[0], dict) and "down" in p.proj[0] and names[0] in ("Continue", "Ok", "Some") and names[1] == "0":
                    wrapped += 1
                    cur, pos = p.local, (dbb, didx)
                    continue
                break
            if rv.kind == "aggregate" and rv.j.get("agg") == "adt" and ("%s::%s" % (rv.j.get("adt"), rv.j.get("variant"))) in ("std::result::Result::Ok", "std::option::Option::Some", "std::ops::ControlFlow::Continue") and len(rv.ops) == 1 and rv.ops[0].kind in ("copy", "move") and rv.ops[0].place.is_local() and wrapped > 0:
                wrapped -= 1
                cur, pos = rv.ops[0].place.local, (dbb, didx)
                continue
            break
        c = getattr(node, "callee", None)
        if c is not None and c.trait == "std::ops::Try" and c.name == "branch" and node.args and node.args[0].kind in ("copy", "move") and node.args[0].place.is_local():
            cur, pos = node.args[0].place.local, (dbb, len(fn.blocks[dbb].stmts))
            continue
        break
    return chain if (chain and stop is None) else None


def object_chain(an, bb, idx, op, is_work_object):
    """the record-typed locals a committed value passed through, back to the
    work copy (a clone of *self); None if it does not come from one"""
    fn = an.fn
    return value_chain(an, bb, idx, op, stop=is_work_object, keep=lambda l: is_enr_ty(fn.local_ty(l)))


def commit_sites(ctx, fn):
    """writes of the whole *self: [(bb, idx, source local or None, stmt)]"""
    an = ctx.an(fn)
    evs = an.events(1, True)
    out = []
    for bb in sorted(evs):
        for ev in evs[bb]:
            if ev["kind"] == "write" and ev["path"] == [] and ev.get("stmt") is not None:
                s = ev["stmt"]
                src = None
                if s.rv.kind == "use":
                    src = trace_local(an, s.rv.ops[0])
                out.append((bb, ev["idx"], src, s))
    return out
