"""C06 - a failed update leaves the record untouched.

Effect analysis (DESIGN F2/C06): for every function that receives
`&mut Enr<K>` and every exit that is not a plain `Ok`, no write to `*self`
may be outstanding: either nothing was written on the way (clone-and-commit,
I1) or every written field was restored from a value saved before the write
(save-and-restore, I2).  Callees that are themselves atomic write only when
they return Ok.
"""
from rules.effects import compute_summaries, takes_mut_record

EXPLANATION = (
    "Path-complete effect analysis over MIR: for every fn taking &mut Enr<K> (core mutators, wrappers, sign) and every "
    "non-Ok exit (each `?`, each explicit Err, tail calls), the set of record fields written and not restored on some path "
    "to that exit must be empty. Decides the whole property structurally for all inputs, key types and failure causes, "
    "including the signer-failure `?`."
)
TRUSTED = ["alias resolution of &mut reborrows in kernel.py", "std BTreeMap/Vec/mem::replace write only through the &mut they receive"]
ASSUMPTIONS = [
    "record fields are private and only written by the analysed functions (checked by C05 encapsulation rule)",
    "foreign EnrKey implementations cannot reach the record (they receive no reference to it)",
]

FLOOR_MUTATORS = 24  # 22 public update calls + set_socket + sign, counted by hand


def run(ctx, report):
    cfgname = ctx.config
    summaries, analyses = compute_summaries(ctx)
    muts = [f for f in ctx.facts.fns if f.kind in ("AssocFn", "Fn") and takes_mut_record(f)]
    npub = len([f for f in muts if f.vis == "pub"])
    report.check(
        "FLOOR", "mutators", npub >= 22,
        "the 22 public update calls (functions taking &mut Enr<K>) are analysed (found %d public, %d in all)" % (npub, len(muts)),
        config=cfgname,
    )
    for f in muts:
        report.analysed_fns.add(f.path)
        ea, verdicts = analyses[f.path]
        short = f.name or f.path
        if ea is None:
            report.violate("ATOMIC", "%s/unanalysable" % short, "function is recursive or could not be summarised", fn=f.path, sp=f.span, config=cfgname)
            continue
        seen = {}
        n_exits = 0
        for bb, idx, cls, cause, dirty, later, node in sorted(verdicts, key=lambda v: (v[0], v[1])):
            n_exits += 1
            k = seen.get(cause, 0) + 1
            seen[cause] = k
            key = "%s/exit:%s%s" % (short, cause, "" if k == 1 else "#%d" % k)
            sp = getattr(node, "sp", None)
            if cls == "Unknown" and not dirty and not later:
                # value of unknown Ok/Err-ness but nothing was written: fine
                report.ob("ATOMIC", key, True, "exit with no outstanding write to *self", cfgname, sp)
                continue
            if dirty or later:
                fields = sorted({t[0] for t in dirty})
                wsites = []
                for t in dirty:
                    b2, i2 = t[2]
                    blk = f.blocks[b2]
                    s2 = blk.stmts[i2].sp if i2 < len(blk.stmts) else blk.term.sp
                    wsites.append("%s (%s write at %s)" % (t[0], t[1], s2))
                for ev in later:
                    wsites.append("%s written after the exit value at %s" % (ev["path"][0] if ev["path"] else "*", ev["sp"]))
                report.violate(
                    "ATOMIC", key,
                    "non-Ok exit `%s` of %s is reachable with outstanding writes to the record: %s" % (cause, short, "; ".join(sorted(set(wsites)))),
                    fn=f.path, sp=sp, config=cfgname,
                    path=[{"block": bb, "site": sp}],
                    detail={"fields": fields},
                )
            else:
                report.ob("ATOMIC", key, True, "non-Ok exit `%s` of %s leaves *self unwritten or restored" % (cause, short), cfgname, sp)
        if n_exits == 0:
            report.ob("ATOMIC", "%s/no-err-exit" % short, True, "%s has no non-Ok exit" % short, cfgname, f.span, nontrivial=False)


_own_run = run


def run(ctx, report):
    _own_run(ctx, report)
    from common import Only
    from rules import c09, c12
    # "leaves the record untouched" is observed through the record's encoding, size and text: they are functions of the
    # record's own fields (a cache shared between the record and its working copy would show the rejected candidate)
    c12._own_run(ctx, Only(report, {"FORM": "FORM"}))
    c09._own_run(ctx, Only(report, {"SIZE": "SIZE"}))
