"""C13 - decoding is prefix-local (non-interference of the suffix)."""
from kernel import strip
from rules.c09 import decoder_item_guards
from rules.decoder import DecoderModel, find_decode

EXPLANATION = (
    "Non-interference rule over the MIR of <Enr as Decodable>::decode: the input buffer parameter is used only as the argument of exactly one "
    "Header::decode_bytes(buf, true) (prefix-local and exactly advancing by alloy-rlp's contract); every other computation uses the returned payload; "
    "the only other accepted uses of *buf are the two len() reads whose difference around that call measures the consumed item. Any other read of the "
    "buffer (a whole-buffer size test, is_empty, indexing, passing it on) is a dependence on the bytes after the item and is reported with its site. "
    "Decides the property for all suffixes; Vec::<Enr>::decode is alloy code that calls this decode on the shrinking list payload."
)
TRUSTED = ["alloy-rlp 0.3.16 Header::decode_bytes reads only the item at the front and advances the slice by exactly its length"]
ASSUMPTIONS = []


def uses_of_local(fn, an, local):
    """all (bb, what, node) that mention `local` as an operand/place base"""
    out = []
    for b in fn.blocks:
        if b.cleanup or b.idx not in an.cfg.succ:
            continue
        for i, s in enumerate(b.stmts):
            if s.kind != "assign":
                continue
            hit = False
            for o in s.rv.ops:
                if o.kind in ("copy", "move") and o.place.local == local:
                    hit = True
            if s.rv.place is not None and s.rv.place.local == local:
                hit = True
            if hit:
                out.append((b.idx, i, "stmt", s))
        t = b.term
        if t.kind == "call":
            for a in t.args:
                if a.kind in ("copy", "move") and a.place.local == local:
                    out.append((b.idx, len(b.stmts), "call", t))
        elif t.kind == "switch" and t.discr.kind in ("copy", "move") and t.discr.place.local == local:
            out.append((b.idx, len(b.stmts), "switch", t))
    return out


def run(ctx, report):
    cfg = ctx.config
    decs = find_decode(ctx)
    if not decs:
        report.violate("ANCHOR", "decode", "anchor <Enr as Decodable>::decode not found", config=cfg)
        return
    for f in decs:
        report.analysed_fns.add(f.path)
        m = DecoderModel(ctx, f)
        an = m.an
        if m.problems:
            for what, sp in m.problems:
                report.violate("MODEL", "decode/model", "cannot recover the decoder's structure: " + what, fn=f.path, sp=sp or f.span, config=cfg)
            continue
        # ---- exactly one consuming use of buf, and it is the outer list header read
        muts = [ev for ev in m.buf_events if ev["kind"] in ("mutcall", "write", "escape")]
        ok = len(muts) == 1 and muts[0] is m.outer and m.outer_is_list == 1
        report.check("OUTER", "decode/buf-consumed-once", ok,
                     "the input buffer is advanced only by one Header::decode_bytes(buf, true)",
                     "the input buffer is modified by %d sites (%s); expected exactly one Header::decode_bytes(buf, true)" % (
                         len(muts), [(ev["kind"], ev["sp"]) for ev in muts]),
                     fn=f.path, sp=m.outer["sp"], config=cfg)
        # ---- every other use
        gs, outer_bb = decoder_item_guards(ctx, f)
        consumed_len_sites = set()
        for (n, labs, form, sp) in gs:
            if form != "consumed":
                report.violate("SUFFIX", "decode/guard:%s" % form,
                               "decode tests a quantity of the %s input (%s): the outcome depends on bytes after the record" % ("whole" if form == "whole-buffer" else "remaining", form),
                               fn=f.path, sp=sp, config=cfg)
        nreads = 0
        for ev in m.buf_events:
            if ev["kind"] == "readcall":
                t = ev["term"]
                report.violate("SUFFIX", "decode/read:%s" % (t.callee.name if t.callee else "?"),
                               "the input buffer is handed to %s: the outcome may depend on bytes after the record" % (t.callee.full if t.callee else "a call"),
                               fn=f.path, sp=ev["sp"], config=cfg)
            elif ev["kind"] == "read":
                nreads += 1
                s = ev["stmt"]
                if not s.place.is_local():
                    report.violate("SUFFIX", "decode/read:stored", "the input slice is stored away", fn=f.path, sp=ev["sp"], config=cfg)
                    continue
                tmp = s.place.local
                bad = []
                for (bb, i, kind, node) in uses_of_local(f, an, tmp):
                    # accepted: reborrow `&(*tmp)` that feeds only a len() call
                    if kind == "stmt" and node.rv.kind == "ref" and node.place.is_local():
                        for (bb2, i2, kind2, node2) in uses_of_local(f, an, node.place.local):
                            if not (kind2 == "call" and node2.callee is not None and node2.callee.name == "len" and node2.callee.krate == "core"):
                                bad.append(node2)
                    else:
                        bad.append(node)
                for node in bad:
                    what = node.callee.name if getattr(node, "callee", None) else "use"
                    report.violate("SUFFIX", "decode/read:%s" % what,
                                   "the input buffer is inspected by `%s` outside the outer header read: the outcome depends on bytes after the record" % what,
                                   fn=f.path, sp=node.sp, config=cfg)
        report.ob("SUFFIX", "decode/other-uses", not any(k.startswith("C13/SUFFIX/decode/") and not o["ok"] for k, o in report.obligations.items()),
                  "apart from the outer header read, *buf is only measured (len before/after) - %d reads examined" % nreads, cfg, f.span)
        # ---- everything else works on the payload returned by that call
        report.check("PAYLOAD", "decode/cursor", m.payload_local is not None,
                     "all item reads use the payload slice returned by the outer header read", fn=f.path, sp=f.span, config=cfg)


_own_run = run


def run(ctx, report):
    _own_run(ctx, report)
    from common import Only
    from rules import c09
    # the size limit is a test on the consumed item, not on a quantity that includes what follows the record
    c09._own_run(ctx, Only(report, {"DECODE": "SIZE-GUARD"}))
    # "the same outcome as decoding that item alone": also whatever was decoded before
    from rules import c01
    c01.pubkey_rule(ctx, Only(report, {"PUBKEY": "PUBKEY"}))
    # the outcome of a call is decided by its arguments: no static carries state from one call to the next
    from rules.purity import hidden_state
    hidden_state(ctx, report)

