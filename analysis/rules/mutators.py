"""Classification of every function that receives `&mut Enr<K>` and the
typestate verdict at each of its commit points (shared by C05/C07/C09/C10)."""
from rules.effects import EffectAnalysis, compute_summaries, takes_mut_record
from rules.typestate import INITIAL_VALID, RecordFlow, TOP, commit_sites, work_objects


class Commit:
    def __init__(self, fn, bb, idx, sp, obj, state, flow):
        self.fn = fn
        self.bb = bb
        self.idx = idx
        self.sp = sp
        self.obj = obj
        self.state = state
        self.flow = flow


class MutatorInfo:
    def __init__(self, fn):
        self.fn = fn
        self.kind = None  # core | wrapper | helper
        self.commits = []
        self.flows = []
        self.direct_fields = set()  # fields of *self written directly (not via commit)
        self.calls = []  # (bb, term, callee path) calls handing &mut *self to a local fn
        self.foreign_mut = []  # &mut to (part of) self handed to non-local code
        self.ok_counts = {}  # exit site -> set of possible numbers of mutator calls
        self.problems = []


def analyse(ctx):
    if hasattr(ctx, "_mutators"):
        return ctx._mutators
    summaries, analyses = compute_summaries(ctx)
    muts = [f for f in ctx.facts.fns if f.kind in ("AssocFn", "Fn") and takes_mut_record(f)]
    mut_paths = {f.path for f in muts}
    infos = {}
    for f in muts:
        info = MutatorInfo(f)
        an = ctx.an(f)
        evs = an.events(1, True)
        commits = commit_sites(ctx, f)
        objs = dict(work_objects(ctx, f))
        for bb in sorted(evs):
            for ev in evs[bb]:
                if ev["kind"] == "write" and ev["path"]:
                    info.direct_fields.add(ev["path"][0])
                elif ev["kind"] == "mutcall":
                    t = ev["term"]
                    tgt = t.callee.target() if t.callee else None
                    if tgt in mut_paths and ev["path"] == [] and ev["arg"] == 0:
                        info.calls.append((bb, t, tgt))
                    else:
                        info.foreign_mut.append((bb, t, ev["path"]))
                        if ev["path"]:
                            info.direct_fields.add(ev["path"][0])
                        else:
                            info.direct_fields.add("*")
        if commits:
            info.kind = "core"
            for bb, idx, src, stmt in commits:
                chain = ()
                if stmt.rv.kind == "use":
                    # the work copy was handed by value through an (inlined) helper and came back wrapped in Ok(..)
                    from rules.typestate import object_chain
                    ch = object_chain(an, bb, idx, stmt.rv.ops[0], lambda l: l in objs)
                    if ch:
                        src, chain = ch[0], tuple(ch[1:])
                if src is not None and src in objs:
                    d = objs[src]
                    rf = RecordFlow(ctx, f, src, False, chain=chain)
                    rf.solve(d[2].target, INITIAL_VALID)
                    # state when the object is moved out towards the commit
                    mv = None
                    last = (chain[-1] if chain else src)
                    for b2 in sorted(rf.events):
                        for ev in rf.events[b2]:
                            if ev["kind"] == "move" and ev.get("root", src) == last and an.cfg.reaches(b2, bb):
                                mv = (b2, ev["idx"])
                    if mv is None:
                        st = None
                    else:
                        st = rf.state_before(mv[0], mv[1])
                    info.flows.append(rf)
                    info.commits.append(Commit(f, bb, idx, stmt.sp, src, st, rf))
                else:
                    info.commits.append(Commit(f, bb, idx, stmt.sp, None, None, None))
            _count_commits(ctx, f, info, summaries)
        elif info.direct_fields:
            info.kind = "helper"
            # in-place code: analyse *self itself; commit = every Ok exit
            rf = RecordFlow(ctx, f, 1, True)
            rf.solve(0, INITIAL_VALID)
            info.flows.append(rf)
            ea = EffectAnalysis(ctx, f, summaries)
            for bb, idx, e, node in ea.ret_sites():
                for cls, _ in ea.classify_ret(e):
                    if cls == "Ok":
                        info.commits.append(Commit(f, bb, idx, getattr(node, "sp", None), "self", rf.state_before(bb, idx), rf))
        else:
            info.kind = "wrapper"
            _count_calls(ctx, f, info, summaries)
        infos[f.path] = info
    ctx._mutators = infos
    ctx._summaries = summaries
    return infos


def _count_commits(ctx, f, info, summaries):
    """core mutators: possible numbers of commits (`*self = work`) on the paths
    to each non-Err exit (a success that committed nothing is an update that
    did not happen: no new sequence number, no new signature)"""
    an = ctx.an(f)
    cfg = an.cfg
    commit_at = {}
    for c in info.commits:
        commit_at.setdefault(c.bb, []).append(c.idx)
    state = {n: set() for n in cfg.nodes}
    state[0] = {0}
    work = [0]
    while work:
        n = work.pop(0)
        out = set(state[n])
        for _ in commit_at.get(n, []):
            out = {min(c + 1, 2) for c in out}
        for s in cfg.succ[n]:
            if not out <= state[s]:
                state[s] |= out
                if s not in work:
                    work.append(s)
    ea = EffectAnalysis(ctx, f, summaries)
    info.ok_commit_counts = {}
    for bb, idx, e, node in ea.ret_sites():
        for cls, x in ea.classify_ret(e):
            if cls == "Err":
                continue
            counts = set(state[bb])
            for ci in commit_at.get(bb, []):
                if ci < idx:
                    counts = {min(c + 1, 2) for c in counts}
            info.ok_commit_counts[(bb, idx, cls, getattr(node, "sp", None))] = counts


def _count_calls(ctx, f, info, summaries):
    """possible numbers of mutator calls on the paths to each non-Err exit"""
    an = ctx.an(f)
    cfg = an.cfg
    call_blocks = {bb for bb, t, tgt in info.calls}
    state = {n: set() for n in cfg.nodes}
    state[0] = {0}
    work = [0]
    while work:
        n = work.pop(0)
        out = set(state[n])
        if n in call_blocks:
            out = {min(c + 1, 2) for c in out}
        for s in cfg.succ[n]:
            if not out <= state[s]:
                state[s] |= out
                if s not in work:
                    work.append(s)
    ea = EffectAnalysis(ctx, f, summaries)
    for bb, idx, e, node in ea.ret_sites():
        for cls, x in ea.classify_ret(e):
            if cls == "Err":
                continue
            counts = set(state[bb])
            if cls == "Pass" and bb in call_blocks:
                # the tail call itself happens in this block's terminator
                counts = {min(c + 1, 2) for c in counts}
            info.ok_counts[(bb, idx, cls, getattr(node, "sp", None))] = counts


def swallowed_failures(ctx, info):
    """wrapper call sites whose failure can end in a successful return: an
    Ok(..)/Some(..)-valued exit of the wrapper that is (feasibly) reachable from
    the Err outcome of `self.<mutator>(..)`.  Returns [(callee, sp)]."""
    from kernel import feasible_reach, strip
    f = info.fn
    an = ctx.an(f)
    cfg = an.cfg
    summaries = getattr(ctx, "_summaries", None)
    if summaries is None:
        return []
    ea = EffectAnalysis(ctx, f, summaries)
    ok_blocks = set()
    for bb, idx, e, node in ea.ret_sites():
        for cls, x in ea.classify_ret(e):
            if cls == "Ok":
                ok_blocks.add(bb)
    out = []
    for cb, t, tgt in info.calls:
        r = an.call_expr(t, cb)
        # the Result of the delegated update is not tested at all (`self.insert(..).ok();`, `let _ = ..`) while a
        # successful exit is reachable afterwards
        tested = False
        for n in cfg.nodes:
            si = an.switch_info(n)
            if si is None or si[0].k != "discr":
                continue
            # the Result itself is what is tested: the call, under `?` (branch) and map / map_err / and_then at most -
            # a test of `insert(..).unwrap_or_default()` looks at a value from which the failure is already gone
            c_ = strip(si[0].a[0])
            for _ in range(8):
                if c_.k == "call" and c_.a[0].name == "branch" and c_.a[0].trait == "std::ops::Try" and c_.a[1]:
                    c_ = strip(c_.a[1][0])
                    continue
                if c_.k == "call" and c_.a[0].name in ("map", "map_err", "and_then", "inspect", "inspect_err", "or_else") and (c_.a[0].fn or "").startswith("std::result::Result") and c_.a[1]:
                    c_ = strip(c_.a[1][0])
                    continue
                break
            if c_.k == "call" and c_.site == cb and c_.a[0].full == t.callee.full:
                tested = True
        if not tested:
            returned = False
            for bb, idx, e, node in ea.ret_sites():
                # handed back to the caller as a Result: the call itself, possibly under map / map_err / and_then
                # (`insert(..).unwrap_or_default()`, `.ok()`, `.unwrap_or(..)` turn its failure into a value instead)
                cur = strip(e)
                for _ in range(8):
                    if cur.k == "call" and cur.site == cb and cur.a[0].full == t.callee.full:
                        returned = True
                        break
                    if cur.k == "call" and cur.a[0].name in ("map", "map_err", "and_then", "inspect", "inspect_err", "or_else") and (cur.a[0].fn or "").startswith("std::result::Result") and cur.a[1]:
                        cur = strip(cur.a[1][0])
                        continue
                    break
            if not returned and ok_blocks & (set(cfg.reach(cb)) | {cb}):
                out.append((tgt, t.sp))
                continue
        for n in cfg.nodes:
            si = an.switch_info(n)
            if si is None or si[0].k != "discr" or not si[3]:
                continue
            cond, targets, otherwise, names = si
            c = strip(cond.a[0])
            via_branch = c.k == "call" and c.a[0].name == "branch" and c.a[0].trait == "std::ops::Try" and c.a[1] and strip(c.a[1][0]).k == "call" and strip(c.a[1][0]).site == cb and strip(c.a[1][0]).a[0].full == t.callee.full
            direct = c.k == "call" and c.site == cb and c.a[0].full == t.callee.full
            if not (via_branch or direct):
                continue
            bad_label = "Break" if via_branch else "Err"
            listed = set(v for v, _ in targets)
            err_targets = [tb for v, tb in targets if names.get(v) == bad_label]
            if any(nm == bad_label and v not in listed for v, nm in names.items()):
                err_targets.append(otherwise)
            for tb in err_targets:
                env = {}
                if ok_blocks & feasible_reach(an, tb, env):
                    out.append((tgt, t.sp))
    return out


PUBLIC_MUTATORS = 22  # the public update calls of the API (T-API), counted by hand


def public_mutator_floor(ctx, report, infos=None):
    """anti-vacuity floor that is stable under refactoring: the *public* update
    calls are all found and classified (how many private helpers exist, and
    whether an update is implemented directly or by delegation, may change)"""
    infos = infos or analyse(ctx)
    pub = [i for i in infos.values() if i.fn.vis == "pub" and i.kind in ("core", "wrapper")]
    core = [i for i in infos.values() if i.kind == "core"]
    report.check("FLOOR", "public-mutators", len(pub) >= PUBLIC_MUTATORS, "the %d public update calls are analysed (found %d, %d of all mutators commit directly)" % (PUBLIC_MUTATORS, len(pub), len(core)),
                 "only %d public functions taking &mut Enr<K> were classified as updates (expected %d)" % (len(pub), PUBLIC_MUTATORS), config=ctx.config)
    report.check("FLOOR", "core-mutators", len(core) >= 1, "at least one mutator commits a re-signed copy directly (found %d)" % len(core), config=ctx.config)

