"""C15 - equality, hashing and content comparison are coherent."""
import pattern as P
from common import short
from kernel import strip
from rules.c01 import payload_rule, ret_exprs

EXPLANATION = (
    "Shape rules over MIR: Enr::eq returns true only on paths where self.f == other.f was established for every f in {seq, node_id, signature} "
    "(same field on both sides, no inverted test); Hash feeds only fields that eq compares, unconditionally, each into the caller's hasher; Clone copies "
    "each of the four fields from the same field of self; compare_content is rlp_content(self) == rlp_content(other) and rlp_content is the framed "
    "[seq, pairs] stream without the signature (rule shared with C01). `Equal => identical pairs and encoding` is reduced to C05 (a valid signature binds the content)."
    " Because == ignores the content, coherence with pairs/encoding rests on the always-signed invariant: re-uses C05 TS/WRAP/VALID/INV-RLP, C06 ATOMIC, C09 BUILD and C10 IDD."
)
TRUSTED = ["== on u64, [u8;32] and Vec<u8> is an equivalence relation; derived NodeId PartialEq/Hash compare/hash the raw bytes"]
ASSUMPTIONS = ["C05: every record carries a valid signature over its content (so equal seq, node id and signature imply equal content up to a hash/signature collision)"]


def impl_fn(ctx, trait_end, name):
    return [f for f in ctx.facts.fns if f.name == name and (f.impl_trait or "").endswith(trait_end) and f.impl_self and f.impl_self.get("adt") == "Enr"]


def field_pair(a, b):
    """(field, ok) if a is param1.f and b is param2.f (either order)"""
    a, b = strip(a), strip(b)
    if a.k == "field" and b.k == "field" and a.a[1] == b.a[1]:
        pa, pb = strip(a.a[0]), strip(b.a[0])
        if pa.k == "param" and pb.k == "param" and {pa.a[0], pb.a[0]} == {1, 2}:
            return a.a[1]
    return None


def comparison(cond):
    """-> (field, is_eq) for `self.f == other.f` / `!=` expressions"""
    c = strip(cond)
    neg = False
    while c.k == "unop" and c.a[0] == "Not":
        neg = not neg
        c = strip(c.a[1])
    if c.k == "binop" and c.a[0] in ("Eq", "Ne"):
        f = field_pair(c.a[1], c.a[2])
        if f:
            return f, (c.a[0] == "Eq") != neg
    if c.k == "call" and c.a[0].name in ("eq", "ne") and len(c.a[1]) == 2 and (c.a[0].trait or "").endswith("PartialEq"):
        f = field_pair(c.a[1][0], c.a[1][1])
        if f:
            return f, (c.a[0].name == "eq") != neg
    return None


def tuple_comparison(es):
    """fields f for which `(.., self.f, ..) == (.., other.f, ..)` compares self.f with other.f at the same position
    (tuple equality is the conjunction of the componentwise equalities); None if es is not such a comparison"""
    if not (es.k == "call" and es.a[0].name == "eq" and (es.a[0].trait or "").endswith("PartialEq") and len(es.a[1]) == 2):
        return None
    a, b = strip(es.a[1][0]), strip(es.a[1][1])
    if not (a.k == "agg" and b.k == "agg" and a.a[0] == "tuple" and b.a[0] == "tuple" and set(a.a[1]) == set(b.a[1])):
        return None

    def fld(x):
        x = strip(x)
        for _ in range(6):
            if x.k == "call" and x.a[0].name in ("as_slice", "as_ref", "deref", "as_bytes", "borrow", "clone", "raw") and len(x.a[1]) == 1:
                x = strip(x.a[1][0])
        return x
    out = set()
    for k in a.a[1]:
        f = field_pair(fld(a.a[1][k]), fld(b.a[1][k]))
        if f is None:
            return None
        out.add(f)
    return out


def run(ctx, report):
    cfg = ctx.config
    # ---------------- eq
    eqs = impl_fn(ctx, "std::cmp::PartialEq", "eq")
    eq_fields = None
    if not eqs:
        report.violate("EQ", "eq", "anchor <Enr as PartialEq>::eq not found", config=cfg)
    for f in eqs:
        report.analysed_fns.add(f.path)
        an = ctx.an(f)
        per_exit = []
        problems = []
        for bb, idx, e, node in ret_exprs(an):
            es = strip(e)
            if es.k == "const" and es.a[0] == 0:
                continue
            fields = set()
            for d, cond, allowed, alll in an.constraints_at(bb):
                cmpi = comparison(cond)
                if cmpi is None:
                    continue
                truth = ("otherwise" in allowed or 1 in allowed) and 0 not in allowed
                falsity = allowed == {0}
                if (cmpi[1] and truth) or ((not cmpi[1]) and falsity):
                    fields.add(cmpi[0])
            tup = tuple_comparison(es)
            if tup is not None:
                fields |= tup
            elif not (es.k == "const" and es.a[0] == 1):
                cmpi = comparison(es)
                if cmpi is None:
                    problems.append("returns %s" % short(e, 160))
                elif cmpi[1]:
                    fields.add(cmpi[0])
                else:
                    problems.append("returns an inverted comparison of %s" % cmpi[0])
            per_exit.append(fields)
        common = set.intersection(*per_exit) if per_exit else set()
        eq_fields = common
        need = {"seq", "node_id", "signature"}
        ok = not problems and per_exit and need <= common
        report.check("EQ", "eq", ok, "== is true only when seq, node_id and signature are pairwise equal",
                     "== can be true although %s differ(s) (fields established on every true path: %s) %s" % (sorted(need - common), sorted(common), "; ".join(problems)),
                     fn=f.path, sp=f.span, config=cfg)
    # ---------------- hash
    hs = impl_fn(ctx, "std::hash::Hash", "hash")
    if not hs:
        report.violate("HASH", "hash", "anchor <Enr as Hash>::hash not found", config=cfg)
    for f in hs:
        report.analysed_fns.add(f.path)
        an = ctx.an(f)
        fed = []
        problems = []
        for b, t in f.calls():
            c = t.callee
            if c and c.name in ("hash", "hash_slice") and (c.trait or "").endswith("Hash"):
                v = strip(an.operand_expr(t.args[0], b.idx, len(b.stmts)))
                st = strip(an.operand_expr(t.args[1], b.idx, len(b.stmts)))
                def own_field(x):
                    x = strip(x)
                    for _ in range(4):
                        if x.k == "call" and x.a[0].name in ("as_slice", "as_ref", "deref", "clone") and len(x.a[1]) == 1:
                            x = strip(x.a[1][0])
                    return x.a[1] if x.k == "field" and strip(x.a[0]).k == "param" and strip(x.a[0]).a[0] == 1 else None
                if own_field(v) is not None:
                    fed.append(own_field(v))
                    if not all(an.cfg.dominates(b.idx, x) for x in an.cfg.exits):
                        problems.append("field %s is hashed conditionally" % v.a[1])
                elif v.k == "agg" and v.a[0] == "tuple" and v.a[1] and all(own_field(x) is not None for x in v.a[1].values()):
                    # `(self.seq, self.node_id, &self.signature).hash(state)`: a tuple hashes its components in order
                    fed.extend(own_field(x) for x in v.a[1].values())
                    if not all(an.cfg.dominates(b.idx, x) for x in an.cfg.exits):
                        problems.append("the tuple of fields is hashed conditionally")
                else:
                    problems.append("hashes %s" % short(v, 120))
                if not (st.k == "param" and st.a[0] == 2):
                    problems.append("feeds a hasher other than the caller's")
            elif c and not c.name in ("deref", "as_ref", "as_slice"):
                problems.append("calls %s" % c.full)
        extra = set(fed) - (eq_fields or set())
        ok = not problems and fed and not extra
        report.check("HASH", "hash", ok, "Hash feeds only fields that == compares (%s)" % sorted(set(fed)),
                     "Hash is not coherent with ==: hashes %s, == establishes %s; %s" % (sorted(set(fed)), sorted(eq_fields or []), "; ".join(problems)),
                     fn=f.path, sp=f.span, config=cfg)
    # ---------------- clone
    cs = impl_fn(ctx, "std::clone::Clone", "clone")
    if not cs:
        report.violate("CLONE", "clone", "anchor <Enr as Clone>::clone not found", config=cfg)
    for f in cs:
        report.analysed_fns.add(f.path)
        an = ctx.an(f)
        ok = False
        why = "no Enr aggregate returned"
        for bb, idx, e, node in ret_exprs(an):
            es = strip(e)
            if es.k == "agg" and es.a[0].startswith("Enr::"):
                bad = []
                for fld, v in es.a[1].items():
                    v = strip(v)
                    if v.k == "call" and v.a[0].name in ("clone", "to_vec", "to_owned", "into", "from") and v.a[1]:
                        v = strip(v.a[1][0])
                    if not (v.k == "field" and v.a[1] == fld and strip(v.a[0]).k == "param"):
                        if fld == "phantom":
                            continue
                        bad.append("%s := %s" % (fld, short(v, 80)))
                ok = not bad
                why = "; ".join(bad)
        report.check("CLONE", "clone", ok, "clone() copies every field from the same field of self", "clone() is not field-wise: " + why, fn=f.path, sp=f.span, config=cfg)
    # ---------------- compare_content
    f = ctx.method("compare_content")
    if f is None:
        report.violate("CONTENT", "compare_content", "anchor Enr::compare_content not found", config=cfg)
    else:
        report.analysed_fns.add(f.path)
        an = ctx.an(f)
        rets = ret_exprs(an)
        RC = lambda i: P.call(target="Enr::<K>::rlp_content", args=[P.param(i)])
        ok = len(rets) == 1 and (P.match(rets[0][2], P.call(name="eq", trait="PartialEq", args=[RC(1), RC(2)])) is not None or P.match(rets[0][2], P.call(name="eq", trait="PartialEq", args=[RC(2), RC(1)])) is not None)
        report.check("CONTENT", "compare_content", ok, "compare_content(a, b) = (a.rlp_content() == b.rlp_content())",
                     "compare_content is not equality of the two signed payloads: %s" % (short(rets[0][2], 200) if rets else "?"), fn=f.path, sp=f.span, config=cfg)
    payload_rule(ctx, report, rule="CONTENT")


_own_run = run


def run(ctx, report):
    _own_run(ctx, report)
    from common import Only
    from rules import c05, c06, c09, c10
    # equality ignores the content "on the strength of the always-signed invariant": the rules that invariant rests on
    c05._own_run(ctx, Only(report, {"TS": "TS", "WRAP": "WRAP", "VALID": "VALID", "INV-RLP": "INV-RLP", "SIGN": "SIGN"}))
    c06.run(ctx, Only(report, {"ATOMIC": "ATOMIC"}))
    c09._own_run(ctx, Only(report, {"BUILD": "SIZE-BUILD"}))
    c10._own_run(ctx, Only(report, {"IDD": "IDD"}))
    from rules import c01, c12
    # "a record equals its decode-after-encode image": the writer frames exactly what the reader consumes, and the public-key reader is the one decode uses
    c12._own_run(ctx, Only(report, {"FORM": "FORM"}, keys=lambda r, k: k.startswith("encode")))
    c01.pubkey_rule(ctx, Only(report, {"PUBKEY": "PUBKEY"}))

