"""C04 - lossless canonical round trip between bytes, record, text and JSON."""
import rlpclass
from common import short
from kernel import ok_payload, same_value, strip, unmut
from rules import api, c12
from rules.c01 import framed_by_append, payload_rule, reported_rule
from rules.c05 import builder_payload, inv_rlp
from rules.c08 import validator_rule
from rules.decoder import PROBES, RESERVED, DecoderModel, find_decode

EXPLANATION = (
    "Structural agreement rules over MIR: (LAYOUT) the writer emits list-header, signature BYTES, seq UINT64, then (key BYTES, raw value) per pair of the whole map, "
    "and the reader consumes LIST, BYTES, UINT64, then (BYTES key, one item) until the payload is empty - the same skeleton with equal classes; (CANON) in every dispatch "
    "leaf the decoder stores alloy_rlp::encode::<T>(v) of the very value it decoded with class(T) = the decode class, and for unknown keys header||payload for lists / "
    "encode(payload) for strings of the header just decoded, so the stored bytes are the canonical bytes consumed; (WRITERS) every typed writer's class is within the "
    "decoder's class for its key and every raw caller value passes a validator whose rows equal the decoder's, so what is stored is accepted again; (SIGNED) the builder's "
    "and the record's signing payloads have the same layout; (REPORTED) the decoded record carries exactly the seq, signature and pairs it read; text and JSON forms invert "
    "each other (rules shared with C12). Not decided: byte equality on concrete inputs and injectivity as such (alloy-rlp canonicality is a library fact)."
    " Re-uses C02 KEYS (ordering), C09 BUILD/SIZED (whatever is returned fits the decoder's limit) and C10 IDD/UNCOMP/FROM/DIGEST (node id reported = node id of an independent parse)."
)
TRUSTED = ["alloy-rlp: encode::<T> after T::decode reproduces the canonical item (class table in rlpclass.py); Header::encode reproduces a canonical header"]
ASSUMPTIONS = []


def run(ctx, report):
    cfg = ctx.config
    decs = find_decode(ctx)
    if not decs:
        report.violate("ANCHOR", "decode", "anchor <Enr as Decodable>::decode not found", config=cfg)
    # ---- LAYOUT: writer
    encs = [x for x in ctx.facts.fns if x.name == "encode" and (x.impl_trait or "").endswith("alloy_rlp::Encodable") and x.impl_self and x.impl_self.get("adt") == "Enr"]
    for x in encs:
        report.analysed_fns.add(x.path)
        problems = framed_by_append(ctx, x, True, None, out_param=2)
        report.check("LAYOUT", "writer", not problems, "encode() writes list-header(len) || signature seq (key value)*", "encode(): %s" % "; ".join(problems), fn=x.path, sp=x.span, config=cfg)
    payload_rule(ctx, report, rule="LAYOUT")
    for f in decs:
        report.analysed_fns.add(f.path)
        m = DecoderModel(ctx, f)
        if m.problems:
            report.violate("LAYOUT", "reader", "cannot recover the decoder's structure: %s" % m.problems, fn=f.path, sp=f.span, config=cfg)
            continue
        classes = [rlpclass.consumer_class(ev["term"]) for ev in m.pre]
        kc = rlpclass.consumer_class(m.key_ev["term"])
        ok = m.outer_is_list == 1 and classes == [("BYTES", None), ("UINT", 64)] and kc == ("BYTES", None)
        report.check("LAYOUT", "reader", ok, "decode reads LIST, BYTES signature, UINT64 seq, then BYTES keys each followed by one item - the writer's layout",
                     "decode's layout is %s / key %s" % ([rlpclass.fmt(c) for c in classes], rlpclass.fmt(kc)), fn=f.path, sp=f.span, config=cfg)
        canonical_store(ctx, report, m, f)
        reported_rule(ctx, report, f)
    # ---- WRITERS
    api.writers_rule(ctx, report, "WRITERS")
    api.set_socket_rule(ctx, report, "WRITERS")
    inv_rlp(ctx, report)
    validator_rule(ctx, report, "VALID")
    # ---- SIGNED payloads agree
    rf = ctx.facts.fn("builder::Builder::<K>::rlp_content")
    if rf is None:
        report.violate("SIGNED", "Builder::rlp_content", "anchor not found", config=cfg)
    else:
        report.analysed_fns.add(rf.path)
        problems = builder_payload(ctx, rf)
        report.check("SIGNED", "Builder::rlp_content", not problems, "the builder signs the same layout the record re-builds for verification",
                     "Builder::rlp_content: %s" % "; ".join(problems), fn=rf.path, sp=rf.span, config=cfg)
    # ---- text / JSON
    c12.run(ctx, report)


def canonical_store(ctx, report, m, f):
    """per dispatch leaf: stored value = canonical re-encoding of the decoded value"""
    cfg = ctx.config
    an = m.an
    seen_leaves = {}
    for key in list(RESERVED) + PROBES[:3]:
        leaf = m.leaf_for(key)
        if leaf in seen_leaves:
            continue
        seen_leaves[leaf] = key
        kname = key.decode() or "<other>"
        cl = m.describe_leaf(leaf)
        stored, alts = m.stored_value_for(leaf)
        kinds = [c for c, sp, ev in cl]
        ok = False
        why = "stored value is %s" % [short(s, 120) for s in stored]
        if len(kinds) == 1 and kinds[0][0] in ("UINT", "BYTES", "UTF8", "LIST"):
            dec = an.call_expr(cl[0][2]["term"], cl[0][2]["bb"])
            for s in stored:
                s = strip(s)
                if s.k == "call" and s.a[0].fn == "alloy_rlp::encode" and s.a[1]:
                    v = strip(s.a[1][0])
                    p = ok_payload(v)
                    ecls = rlpclass.encoder_class(s.a[0])
                    if p is not None and same_value(p, dec) and ecls == kinds[0]:
                        ok = True
                    else:
                        why = "re-encodes %s as %s (decoded as %s)" % (short(v, 80), rlpclass.fmt(ecls), rlpclass.fmt(kinds[0]))
        elif kinds == [("HEADER",), ("ADVANCE",)]:
            # two forms: list -> Header::encode(h) || payload[..len]; string -> encode(payload[..len])
            hdr = an.call_expr(cl[0][2]["term"], cl[0][2]["bb"])
            forms = set()
            form_sites = {}
            for s in stored:
                s = unmut(s)
                if s.k == "call" and s.a[0].fn == "alloy_rlp::encode" and s.a[1]:
                    v = strip(s.a[1][0])
                    if sliced_by_header(v, hdr):
                        forms.add("string")
                        form_sites["string"] = s.site
                elif s.k == "call" and s.a[0].name in ("new", "with_capacity") and "Vec" in s.a[0].fn:
                    # buffer filled by Header::encode(h) then extend_from_slice(payload[..len])
                    import shapes
                    from rules.typestate import trace_local
                    bufs = [l for l, d in enumerate(f.locals) if d["ty"]["s"] == "std::vec::Vec<u8>" and l > f.arg_count]
                    for bl in bufs:
                        d = shapes.def_expr(an, bl)
                        if d is None or not same_value(unmut(d), s):
                            continue
                        muts = shapes.mutations(an, bl)
                        names = [(mu["term"].callee.name if mu.get("term") and mu["term"].callee else "?") for mu in muts]
                        if names == ["encode", "extend_from_slice"]:
                            h = strip(an.operand_expr(muts[0]["term"].args[0], muts[0]["bb"], muts[0]["idx"]))
                            pl = strip(an.operand_expr(muts[1]["term"].args[1], muts[1]["bb"], muts[1]["idx"]))
                            hp = ok_payload(h)
                            if hp is not None and same_value(hp, hdr) and sliced_by_header(pl, hdr):
                                forms.add("list")
                                form_sites["list"] = muts[0]["bb"]
            # which form is used is decided by the header's `list` flag, and by nothing else
            ok = forms == {"string", "list"}
            why = "forms recognised: %s" % sorted(forms)
            if ok:
                hb = cl[0][2]["bb"]
                region = m.leaf_region(leaf)
                for n in sorted(region):
                    info = an.switch_info(n)
                    if info is None or n == hb:
                        continue
                    cond = strip(info[0])
                    if cond.k == "discr":
                        continue  # `?`
                    if cond.k == "field" and cond.a[1] == "list":
                        p = ok_payload(strip(cond.a[0]))
                        if p is not None and same_value(p, hdr):
                            continue
                    if an.cfg.reaches(hb, n):
                        ok = False
                        why = "the choice between list and string re-framing also depends on %s" % short(info[0], 100)
                # ... and the right way round: the list form under `list == true`, the string form under `list == false`
                for form, want in (("list", True), ("string", False)):
                    site = form_sites.get(form)
                    if site is None:
                        continue
                    for d, cond, allowed, alll in an.constraints_at(site):
                        c0 = strip(cond)
                        neg = False
                        while c0.k == "unop" and c0.a[0] == "Not":
                            neg = not neg
                            c0 = strip(c0.a[1])
                        if not (c0.k == "field" and c0.a[1] == "list"):
                            continue
                        true_edge = ("otherwise" in allowed or 1 in allowed) and 0 not in allowed
                        false_edge = allowed == {0}
                        holds = (true_edge and not neg) or (false_edge and neg)
                        fails = (false_edge and not neg) or (true_edge and neg)
                        if (want and fails) or (not want and holds):
                            ok = False
                            why = "the %s re-framing is used when the header's list flag is %s" % (form, "false" if want else "true")
        report.check("CANON", "leaf:%s" % kname, ok, "for key class %r the decoder stores the canonical re-encoding of exactly what it decoded" % kname,
                     "decoder leaf for %r: %s" % (kname, why), fn=f.path, sp=cl[0][1] if cl else f.span, config=cfg)


def sliced_by_header(v, hdr):
    """v = payload[..h.payload_length] for the header h decoded by `hdr`"""
    v = strip(v)
    # payload.split_at(h.payload_length).0
    if v.k == "field" and v.a[1] == "0" and strip(v.a[0]).k == "call" and strip(v.a[0]).a[0].name == "split_at" and len(strip(v.a[0]).a[1]) == 2:
        e = strip(strip(v.a[0]).a[1][1])
        if e.k == "field" and e.a[1] == "payload_length":
            p = ok_payload(strip(e.a[0]))
            return p is not None and same_value(p, hdr)
        return False
    if v.k == "call" and v.a[0].name == "index" and len(v.a[1]) == 2:
        r = strip(v.a[1][1])
        if r.k == "agg" and r.a[0].endswith("RangeTo") and "end" in r.a[1]:
            e = strip(r.a[1]["end"])
            if e.k == "field" and e.a[1] == "payload_length":
                p = ok_payload(strip(e.a[0]))
                return p is not None and same_value(p, hdr)
    return False


_own_run = run


def run(ctx, report):
    _own_run(ctx, report)
    from common import Only
    from rules import c01, c02, c05, c09, c10
    c02._own_run(ctx, Only(report, {"KEYS": "KEYS"}))
    # the pairs are observed through iter(): it walks the map itself
    from rules import api
    api.readers_rule(ctx, Only(report, {"READ": "READ"}, keys=lambda r, k: k == "iter"))
    # every record returned by an update verifies (else its encoding cannot be decoded again), under every key type's public-key reader
    c05._own_run(ctx, Only(report, {"TS": "TS", "WRAP": "WRAP", "SIGN": "SIGN", "BUILD": "KEYED-BUILD"}))
    c01.pubkey_rule(ctx, Only(report, {"PUBKEY": "PUBKEY"}))
    # what build() returns must be decodable again (size), and every committed record carries the node id an independent parse computes
    c09._own_run(ctx, Only(report, {"BUILD": "SIZE-BUILD", "SIZED": "SIZED"}))
    c10._own_run(ctx, Only(report, {"IDD": "IDD", "UNCOMP": "UNCOMP", "FROM": "FROM", "DIGEST": "DIGEST"}))

