"""C07 - sequence-number discipline."""
from kernel import ok_payload, strip
from rules import mutators
from rules.typestate import TOP

EXPLANATION = (
    "Typestate over MIR events of the record object each mutator works on: at every commit the sequence number was written exactly once as "
    "the Some-payload of u64::checked_add(old seq, 1) whose None outcome becomes Err(SequenceNumberTooHigh) (set_seq: exactly its u64 parameter); "
    "every wrapper reaches Ok through exactly one core-mutator call; seq travels as u64 through encode/rlp_content/decode/builder. "
    "Decides +1-once, exact-set, no-wrap and 64-bit transport structurally for all histories and starting values."
)
TRUSTED = ["u64::checked_add returns None exactly on overflow (core)", "alloy-rlp u64 codec is canonical and lossless"]
ASSUMPTIONS = []

FLOOR_CORE = 5
FLOOR_WRAPPERS = 18


def run(ctx, report):
    cfg = ctx.config
    infos = mutators.analyse(ctx)
    core = [i for i in infos.values() if i.kind == "core"]
    wrappers = [i for i in infos.values() if i.kind == "wrapper"]
    mutators.public_mutator_floor(ctx, report, infos)

    for info in infos.values():
        f = info.fn
        name = f.name
        report.analysed_fns.add(f.path)
        if info.kind == "core":
            for n, c in enumerate(info.commits):
                key = "%s/commit%s" % (name, "" if n == 0 else "#%d" % (n + 1))
                st = c.state
                if st is None or st is TOP:
                    report.violate("INC", key, "cannot establish the sequence-number discipline: the committed value is not a tracked clone of the record", fn=f.path, sp=c.sp, config=cfg)
                    continue
                if name == "set_seq":
                    ok = isinstance(st["seqsrc"], tuple) and st["seqsrc"][0] == "param" and f.inputs[st["seqsrc"][1] - 1]["s"] == "u64" and st["incs"] == 0
                    report.check("EXACT", key, ok, "set_seq commits seq := its u64 parameter, unmodified",
                                 "set_seq does not commit exactly the requested sequence number (seq source: %s, increments: %s)" % (st["seqsrc"], st["incs"]),
                                 fn=f.path, sp=c.sp, config=cfg)
                else:
                    ok = st["seqsrc"] == "inc" and st["incs"] == 1
                    report.check("INC", key, ok, "%s commits seq := checked_add(old seq, 1), exactly once on every path" % name,
                                 "%s commits a record whose sequence number is not old+1 exactly once (seq source: %s, increments: %s)" % (name, st["seqsrc"], st["incs"]),
                                 fn=f.path, sp=c.sp, config=cfg)
                # the overflow outcome
                for ev, act in c.flow.all_actions():
                    if act[0] == "seq" and act[1] == "inc":
                        report.check("NOWRAP", "%s/overflow" % name, act[4] == "SequenceNumberTooHigh",
                                     "the None outcome of checked_add in %s becomes Err(SequenceNumberTooHigh)" % name,
                                     "overflow of the sequence number in %s is not reported as SequenceNumberTooHigh (got %s)" % (name, act[4]),
                                     fn=f.path, sp=act[3], config=cfg)
                    if act[0] == "seq" and act[1] == "unknown":
                        report.violate("INC", "%s/seq-write" % name, "sequence number written with an unrecognised value: %s" % act[2], fn=f.path, sp=act[3], config=cfg)
            # every successful exit of a core mutator went through exactly one commit
            seen = {}
            for (bb, idx, cls, sp), counts in sorted(getattr(info, "ok_commit_counts", {}).items(), key=lambda kv: kv[0][:2]):
                n = seen.get(cls, 0) + 1
                seen[cls] = n
                key = "%s/exit:%s%s" % (name, cls, "" if n == 1 else "#%d" % n)
                report.check("ONCE", key, counts == {1}, "every path of %s to this successful exit commits the re-signed record exactly once" % name,
                             "%s can return success after %s commits (must be exactly 1): a reported update that did not take place, or took place twice" % (name, sorted(counts)),
                             fn=f.path, sp=sp, config=cfg)
            if not getattr(info, "ok_commit_counts", {}):
                report.violate("ONCE", "%s/no-exit" % name, "core mutator without a recognisable successful exit", fn=f.path, sp=f.span, config=cfg)
        elif info.kind == "wrapper":
            # a failed inner update is reported, never turned into a success
            for callee, sp in mutators.swallowed_failures(ctx, info):
                report.violate("ONCE", "%s/swallows-error" % name, "%s can return success although %s failed: the refusal (size limit, sequence overflow, signing, ill-typed value) is not reported" % (name, callee.split("::")[-1]), fn=f.path, sp=sp, config=cfg)
            if not info.ok_counts:
                report.violate("ONCE", "%s/no-exit" % name, "wrapper without a recognisable exit", fn=f.path, sp=f.span, config=cfg)
            seen = {}
            for (bb, idx, cls, sp), counts in sorted(info.ok_counts.items(), key=lambda kv: kv[0][:2]):
                n = seen.get(cls, 0) + 1
                seen[cls] = n
                key = "%s/exit:%s%s" % (name, cls, "" if n == 1 else "#%d" % n)
                report.check("ONCE", key, counts == {1}, "every path of %s to this exit performs exactly one core update" % name,
                             "%s can reach a successful exit after %s core updates (must be exactly 1)" % (name, sorted(counts)),
                             fn=f.path, sp=sp, config=cfg)
        else:
            # helpers (sign) must not touch seq
            ok = "seq" not in info.direct_fields and "*" not in info.direct_fields
            report.check("INC", "%s/helper" % name, ok, "helper %s does not write seq" % name, "helper %s writes the sequence number" % name, fn=f.path, sp=f.span, config=cfg)

    # arithmetic census: no unchecked arithmetic on a u64 named seq anywhere
    def seq_value_in(e, depth=0):
        """the *value* of a seq field is an arithmetic operand of e (reached through
        arithmetic, casts, copies and value-preserving conversions only: the
        length of its encoding, say, is a different quantity)"""
        if depth > 40:
            return True
        k = e.k
        if k == "field":
            if e.a[1] == "seq":
                return True
            return seq_value_in(e.a[0], depth + 1) if e.a[1] in ("0", "1") else False
        if k in ("ref", "deref", "mutated"):
            return seq_value_in(e.a[0], depth + 1)
        if k == "cast":
            return seq_value_in(e.a[1], depth + 1)
        if k == "binop":
            return seq_value_in(e.a[1], depth + 1) or seq_value_in(e.a[2], depth + 1)
        if k == "unop":
            return any(seq_value_in(x, depth + 1) for x in e.a[1:] if hasattr(x, "k"))
        if k == "phi":
            return any(seq_value_in(x, depth + 1) for x in e.a[0])
        if k == "call":
            n = e.a[0].name or ""
            if n in ("clone", "into", "from", "try_into", "try_from", "unwrap", "unwrap_or", "expect", "to_owned", "min", "max") or n.startswith(("wrapping_", "saturating_", "overflowing_", "unchecked_", "checked_")):
                return any(seq_value_in(x, depth + 1) for x in e.a[1])
            return False
        return False

    bad = []
    for f in ctx.facts.fns:
        an = None
        for b in f.blocks:
            if b.cleanup:
                continue
            for i, s in enumerate(b.stmts):
                if s.kind == "assign" and s.rv.kind == "binop" and s.rv.j["op"].startswith(("Add", "Sub", "Mul")):
                    an = an or ctx.an(f)
                    e = an.rvalue_expr(s.rv, b.idx, i)
                    if seq_value_in(e):
                        bad.append((f, s.sp, "binop " + s.rv.j["op"]))
            t = b.term
            if t.kind == "call" and t.callee and t.callee.name and t.callee.name.startswith(("wrapping_", "saturating_", "overflowing_", "unchecked_")):
                an = an or ctx.an(f)
                e = an.call_expr(t, b.idx)
                if any(seq_value_in(x) for x in e.a[1]):
                    bad.append((f, t.sp, t.callee.name))
    for f, sp, what in bad:
        report.violate("NOWRAP", "%s/arith:%s" % (f.name or f.path, what), "unchecked arithmetic on the sequence number (%s)" % what, fn=f.path, sp=sp, config=cfg)
    report.ob("NOWRAP", "arith-census", not bad, "no unchecked/wrapping arithmetic on seq in %d bodies" % len(ctx.facts.fns), cfg, nontrivial=False)

    transport(ctx, report)


def transport(ctx, report):
    cfg = ctx.config
    facts = ctx.facts
    # field types
    for adt, fld in (("Enr", "seq"), ("builder::Builder", "seq")):
        a = facts.adts.get(adt)
        ty = None
        if a:
            for v in a["variants"]:
                for fl in v["fields"]:
                    if fl["name"] == fld:
                        ty = fl["ty"]["s"]
        report.check("U64", "%s.%s" % (adt, fld), ty == "u64", "%s.%s is a u64" % (adt, fld), "%s.%s has type %s" % (adt, fld, ty), config=cfg)
    # writers
    for path in ("Enr::<K>::append_rlp_content", "builder::Builder::<K>::rlp_content"):
        f = facts.fn(path)
        if f is None and path.endswith("append_rlp_content"):
            # the helper does not exist in this tree: the flattened signing payload writer is examined instead
            g = facts.fn("Enr::<K>::rlp_content")
            f = ctx.flat(g) if g is not None else None
        if f is None:
            report.violate("U64", "emit/" + path, "anchor %s not found" % path, config=cfg)
            continue
        report.analysed_fns.add(f.path)
        an = ctx.an(f)
        hits = []
        for b, t in f.calls():
            c = t.callee
            if c and c.name == "encode" and (c.trait or "").endswith("alloy_rlp::Encodable"):
                e = strip(an.operand_expr(t.args[0], b.idx, len(b.stmts)))
                if e.k == "field" and e.a[1] == "seq":
                    hits.append((c.self_ty["s"] if c.self_ty else "?", t.sp, b.idx))
        ok = len(hits) == 1 and hits[0][0] == "u64" and all(an.cfg.dominates(hits[0][2], x) for x in an.cfg.exits)
        report.check("U64", "emit/" + (path.split("::")[-1]), ok, "%s emits self.seq exactly once, unconditionally, as u64" % path,
                     "%s does not emit self.seq exactly once as u64 (found %s)" % (path, hits), fn=f.path, sp=f.span, config=cfg)
    # reader
    decs = [f for f in facts.fns if f.name == "decode" and (f.impl_trait or "").endswith("alloy_rlp::Decodable") and f.impl_self and f.impl_self.get("adt") == "Enr"]
    if not decs:
        report.violate("U64", "consume/decode", "anchor <Enr as Decodable>::decode not found", config=cfg)
    for f in decs:
        report.analysed_fns.add(f.path)
        an = ctx.an(f)
        found = False
        for b in f.blocks:
            if b.idx not in an.cfg.succ:
                continue
            for i, s in enumerate(b.stmts):
                if s.kind == "assign" and s.rv.kind == "aggregate" and s.rv.j.get("adt") == "Enr":
                    e = an.rvalue_expr(s.rv, b.idx, i)
                    seq = e.a[1].get("seq")
                    src = ok_payload(strip(seq)) if seq is not None else None
                    src = strip(src) if src is not None else None
                    ok = src is not None and src.k == "call" and src.a[0].name == "decode" and src.a[0].self_ty and src.a[0].self_ty["s"] == "u64"
                    found = True
                    report.check("U64", "consume/decode", ok, "the decoded record's seq is the result of <u64 as Decodable>::decode",
                                 "decoded seq does not come from a u64 decode: %r" % (seq,), fn=f.path, sp=s.sp, config=cfg)
        if not found:
            report.violate("U64", "consume/decode", "no Enr aggregate in decode", fn=f.path, sp=f.span, config=cfg)
    # builder: seq(x) stores x; build hands self.seq to the record
    f = facts.fn("builder::Builder::<K>::build")
    if f is not None:
        an = ctx.an(f)
        for b in f.blocks:
            if b.idx not in an.cfg.succ:
                continue
            for i, s in enumerate(b.stmts):
                if s.kind == "assign" and s.rv.kind == "aggregate" and s.rv.j.get("adt") == "Enr":
                    e = an.rvalue_expr(s.rv, b.idx, i)
                    seq = strip(e.a[1].get("seq"))
                    ok = seq.k == "field" and seq.a[1] == "seq" and strip(seq.a[0]).k == "param"
                    report.check("U64", "build/seq", ok, "build() gives the record the builder's seq unmodified", "build() does not copy the builder's seq: %r" % seq, fn=f.path, sp=s.sp, config=cfg)
    else:
        report.violate("U64", "build/seq", "anchor Builder::build not found", config=cfg)
    g = facts.fn("builder::Builder::<K>::seq")
    if g is not None:
        gan = ctx.an(g)
        stored = False
        for b in g.blocks:
            if b.idx not in gan.cfg.succ:
                continue
            for i, s_ in enumerate(b.stmts):
                if s_.kind == "assign" and s_.place.field_names() == ["seq"] and s_.place.proj and s_.place.proj[0] == "deref":
                    tgt = gan.resolve_ref(s_.place.local)
                    v = strip(gan.rvalue_expr(s_.rv, b.idx, i))
                    if tgt is not None and tgt[0] == 1 and v.k == "param" and v.a[0] == 2 and all(gan.cfg.dominates(b.idx, x) or b.idx == x for x in gan.cfg.exits):
                        stored = True
        report.check("U64", "builder/seq-setter", stored, "Builder::seq(n) stores n as the builder's seq", "Builder::seq(n) does not store its argument in the builder's seq", fn=g.path, sp=g.span, config=cfg)
    else:
        report.violate("U64", "builder/seq-setter", "anchor Builder::seq not found", config=cfg)
