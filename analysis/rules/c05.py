"""C05 - every record the library hands out is valid (inductive invariant)."""
import pattern as P
import rlpclass
from common import is_enr_ty, is_ref_to, short
from kernel import ok_payload, same_value, strip
from rules import emit, mutators
from rules.c01 import gate_rule, ret_exprs
from rules.c08 import validator_rule
from rules.typestate import TOP, is_pubkey_method, pubkey_of, value_is_rlp_of

EXPLANATION = (
    "Inductive-invariant argument decided structurally: (ENCAP) all fields of Enr/Builder/NodeId are private, no reachable function hands out &mut into a record, "
    "records are constructed only in decode/build/clone, and every function that writes a record is one of the analysed mutators; (TS) at every commit of the 5 core "
    "mutators the typestate is keyed(k) = signed(k) = idd(k) for one key parameter k (public key stored last in content, signed after the last seq/content write, "
    "node id from the same key) and sized; (WRAP) each of the 18 wrappers only calls conforming mutators; helpers that do not establish the invariant (sign) are not "
    "reachable from outside; (BUILD) build validates every caller value with the reserved-key validator over the whole map, then adds id and the signer's key, signs "
    "the final payload with no later write, checks the size and assembles the record from exactly those parts; (INV-RLP) every value stored in a content map is "
    "encoder output or a caller value that passed the validator, whose per-key rows equal the decoder's; (DECODE) Ok only behind the signature gate. "
    "`Accepted again by the decoder` follows from validator row = decoder row (C02/C08) and the shared layout (C04). Not decided: that sign_v4 and verify_v4 of one "
    "back-end are inverse (library)."
    " Re-uses C09 BUILD (builder size slack) and C10 UNCOMP/FROM/DIGEST (node id = keccak256 of the uncompressed key)."
)
TRUSTED = ["sign_v4/verify_v4 of each crypto library are inverse on the same digest", "alias resolution and event extraction of the kernel"]
WITNESSES = ['W1a', 'W1b', 'W1c', 'W1d', 'W2a', 'W2b', 'W2c', 'W3', 'W6']  # compile-fail witnesses run in the thorough tier (witness/src/lib.rs)
ASSUMPTIONS = ["custom EnrKey implementations satisfy only the trait signatures"]

FLOOR_CORE = 5
FLOOR_WRAPPERS = 18


def run(ctx, report):
    cfg = ctx.config
    encapsulation(ctx, report)
    infos = mutators.analyse(ctx)
    core = [i for i in infos.values() if i.kind == "core"]
    wrappers = [i for i in infos.values() if i.kind == "wrapper"]
    helpers = [i for i in infos.values() if i.kind == "helper"]
    mutators.public_mutator_floor(ctx, report, infos)
    conforming = set()
    for info in core:
        f = info.fn
        report.analysed_fns.add(f.path)
        all_ok = True
        for n, c in enumerate(info.commits):
            key = "%s/commit%s" % (f.name, "" if n == 0 else "#%d" % (n + 1))
            st = c.state
            if st is None or st is TOP:
                report.violate("TS", key, "%s overwrites the record with something that is not a tracked clone of it" % f.name, fn=f.path, sp=c.sp, config=cfg)
                all_ok = False
                continue
            same = st["keyed"] is not None and st["keyed"] == st["signed"] == st["idd"]
            ok = same and st["sized"] is True
            why = []
            if st["keyed"] is None:
                why.append("the signer's public key is not the last thing stored in content before signing")
            elif st["signed"] != st["keyed"]:
                why.append("the record is keyed to %s but signed by %s%s" % (st["keyed"], st["signed"], " (content/seq written after signing)" if st["signed"] is None else ""))
            if st["idd"] != st["keyed"]:
                why.append("node id comes from %s, public key from %s" % (st["idd"], st["keyed"]))
            if not st["sized"]:
                why.append("no size guard after the last write")
            report.check("TS", key, ok, "%s commits a record keyed, signed and identified by the same key parameter, within the size limit" % f.name,
                         "%s can commit an invalid record: %s" % (f.name, "; ".join(why)), fn=f.path, sp=c.sp, config=cfg, detail=st)
            all_ok = all_ok and ok
        # the typestate takes `sign(obj, k)` as "signed by k": that holds only where sign returned Ok - the failure edge
        # of every sign result must be tested and must not lead to a commit (`new_enr.sign(key).ok();` would commit a
        # record carrying its old signature)
        for leak in unchecked_results(ctx, f, [c.bb for c in info.commits], lambda t: t.callee is not None and t.callee.target() == "Enr::<K>::sign"):
            report.violate("TS", "%s/sign-unchecked" % f.name, "%s can commit after sign() failed: the result of sign is %s" % (f.name, leak[1]), fn=f.path, sp=leak[0], config=cfg)
            all_ok = False
        # unknown mutations of the work object
        for rf in info.flows:
            for ev, act in rf.all_actions():
                if act[0] == "unknown-mut":
                    report.violate("TS", "%s/unknown-write" % f.name, "%s modifies the record through %s, which the typestate cannot account for" % (f.name, act[2]), fn=f.path, sp=act[3], config=cfg)
                    all_ok = False
        if all_ok:
            conforming.add(f.path)
    # wrappers: only conforming callees, no direct writes
    changed = True
    wr_ok = {}
    while changed:
        changed = False
        for info in wrappers:
            f = info.fn
            if f.path in conforming:
                continue
            good = bool(info.calls) and all(tgt in conforming for _, _, tgt in info.calls) and not info.foreign_mut and not info.direct_fields
            if good:
                conforming.add(f.path)
                changed = True
    for info in wrappers:
        f = info.fn
        report.analysed_fns.add(f.path)
        bad = [tgt for _, _, tgt in info.calls if tgt not in conforming]
        ok = f.path in conforming
        report.check("WRAP", f.name, ok, "%s only delegates to conforming mutators" % f.name,
                     "%s %s" % (f.name, ("calls non-conforming %s" % bad) if bad else "modifies the record itself or through foreign code" if (info.foreign_mut or info.direct_fields) else "calls no mutator"),
                     fn=f.path, sp=f.span, config=cfg)
    for info in helpers:
        f = info.fn
        report.analysed_fns.add(f.path)
        # a helper that writes fields in place must not be callable from outside the crate
        ok = not f.reachable and f.vis != "pub"
        valid = all(c.state is not None and c.state is not TOP and c.state["keyed"] is not None and c.state["keyed"] == c.state["signed"] == c.state["idd"] and c.state["sized"] for c in info.commits) and bool(info.commits)
        report.check("ENCAP", "helper/%s" % f.name, ok or valid, "in-place helper %s (writes %s) is private" % (f.name, sorted(info.direct_fields)),
                     "%s writes %s of the record in place without re-establishing the invariant and is reachable from outside the crate" % (f.name, sorted(info.direct_fields)),
                     fn=f.path, sp=f.span, config=cfg)
    build_rule(ctx, report)
    sign_rule(ctx, report)
    inv_rlp(ctx, report)
    validator_rule(ctx, report, "VALID")
    from rules.decoder import find_decode
    for f in find_decode(ctx):
        report.analysed_fns.add(f.path)
        gate_rule(ctx, report, f, rule="DECODE")
    shadow_rule(ctx, report, infos)


def unchecked_results(ctx, f, sinks, is_call):
    """[(span, why)] for calls selected by is_call whose Result is not tested, or whose failure edge reaches one of the sink blocks"""
    an = ctx.an(f)
    out = []
    for b, t in f.calls():
        if b.cleanup or not is_call(t) or b.idx not in an.cfg.succ:
            continue
        if not any(s_ == b.idx or s_ in an.cfg.reach(b.idx) for s_ in sinks):
            continue
        tested = False
        leak = False
        sw = []
        for n in an.cfg.nodes:
            info = an.switch_info(n)
            if info is None or info[0].k != "discr" or not info[3]:
                continue
            if not any(x.k == "call" and x.site == b.idx and x.a[0].name == t.callee.name for x in info[0].walk()):
                continue
            sw.append((n, info))

        def success_targets(info):
            cond, targets, otherwise, names = info
            out_ = [tb for v, tb in targets if names.get(v) in ("Continue", "Ok", "Some")]
            rest = set(names.values()) - {names.get(x) for x, _ in targets}
            if rest and rest <= {"Continue", "Ok", "Some"}:
                out_.append(otherwise)
            return out_
        for n, info in sw:
            # a second test of the same result on the success path of the first (drop elaboration re-reads the
            # discriminant to drop the payload): its failure edge is infeasible
            if any(n1 != n and any(an.cfg.dominates(st_, n) for st_ in success_targets(i1)) for n1, i1 in sw):
                continue
            cond, targets, otherwise, names = info
            for v, tb in list(targets) + [("otherwise", otherwise)]:
                lab = names.get(v) if v != "otherwise" else None
                if lab in ("Continue", "Ok", "Some"):
                    tested = True
                    continue
                if lab is None:
                    rest = set(names.values()) - {names.get(x) for x, _ in targets}
                    if rest and rest <= {"Continue", "Ok", "Some"}:
                        tested = True
                    if not rest or rest <= {"Continue", "Ok", "Some"}:
                        continue
                if tb is not None and any(s_ == tb or s_ in an.cfg.reach(tb) for s_ in sinks):
                    leak = True
        if not tested:
            out.append((t.sp, "never tested"))
        elif leak:
            out.append((t.sp, "tested, but its failure edge still reaches the commit"))
    return out


# ------------------------------------------------------------------ encapsulation


def encapsulation(ctx, report):
    cfg = ctx.config
    facts = ctx.facts
    for adt in ("Enr", "builder::Builder", "node_id::NodeId"):
        a = facts.adts.get(adt)
        if a is None:
            report.violate("ENCAP", "fields/" + adt, "type %s not found" % adt, config=cfg)
            continue
        pub = [fl["name"] for v in a["variants"] for fl in v["fields"] if fl["vis"] == "pub"]
        report.check("ENCAP", "fields/" + adt, not pub, "all fields of %s are private" % adt, "%s has public field(s) %s: the invariant can be broken from outside" % (adt, pub), sp=a["span"], config=cfg)
    # no reachable function returns &mut into a record
    bad = []
    for f in facts.fns:
        if f.kind not in ("AssocFn", "Fn") or not f.reachable or not f.output:
            continue
        o = f.output["s"]
        takes_record = any(is_ref_to(t, is_enr_ty) or is_enr_ty(t) for t in f.inputs)
        if takes_record and "&mut" in o:
            bad.append((f.path, o, f.span))
        if takes_record and ("IterMut" in o or "ValuesMut" in o or "Entry<" in o):
            bad.append((f.path, o, f.span))
    for path, o, sp in bad:
        report.violate("ENCAP", "mutref/" + path.split("::")[-1], "%s returns %s: callers can modify a record without re-signing" % (path, o), fn=path, sp=sp, config=cfg)
    report.ob("ENCAP", "no-mut-handles", not bad, "no reachable function returns a mutable handle into a record", cfg)
    # every function that has a write/&mut event on a record it did not create is a &mut-self mutator
    from rules.effects import takes_mut_record
    rogue = []
    for f in facts.fns:
        if f.kind not in ("AssocFn", "Fn", "Closure"):
            continue
        if takes_mut_record(f):
            continue
        an = ctx.an(f)
        for l, decl in enumerate(f.locals):
            t = decl["ty"]
            if l == 0:
                continue
            if is_enr_ty(t) and f.name not in ("decode", "build", "clone"):
                evs = an.events(l, False)
                for bb, lst in evs.items():
                    for ev in lst:
                        if ev["kind"] in ("write", "mutcall") and ev["path"]:
                            rogue.append((f.path, ev["sp"]))
            if is_ref_to(t, is_enr_ty, mut=True) and l <= f.arg_count:
                rogue.append((f.path, f.span))
    for path, sp in rogue:
        report.violate("ENCAP", "writer/" + path.split("::")[-1], "%s writes into a record but is not one of the analysed mutators" % path, fn=path, sp=sp, config=cfg)
    report.ob("ENCAP", "writers-census", not rogue, "records are written only by functions taking &mut Enr (analysed) and by the three constructors", cfg)
    # constructor census
    sites = set()
    for f in facts.fns:
        for b in f.blocks:
            if b.cleanup:
                continue
            for s in b.stmts:
                if s.kind == "assign" and s.rv.kind == "aggregate" and s.rv.j.get("adt") == "Enr" and s.rv.j.get("agg") == "adt":
                    sites.add(f.name)
    report.check("ENCAP", "constructors", sites == {"decode", "build", "clone"}, "records are constructed only in decode, build and clone", "records are constructed in %s" % sorted(sites), config=cfg)


# ------------------------------------------------------------------ build


def build_rule(ctx, report):
    """Decided on build() with its helpers spliced in (build_facts): the steps
    are recognised as primitives (validator call, BTreeMap::insert on
    self.content, rlp_content(), sign_v4), so that moving them between helper
    functions changes nothing."""
    cfg = ctx.config
    facts = ctx.facts
    bf = build_facts(ctx)
    f = bf["fn"]
    if f is None:
        report.violate("BUILD", "build", "anchor Builder::build not found", config=cfg)
        return
    report.analysed_fns.add(f.path)
    an = bf["an"]
    g = an.cfg
    val_calls, writes, signs, payload_calls = bf["val_calls"], bf["writes"], bf["signs"], bf["payload_calls"]
    # (1) every caller value is validated: loop over the whole map calling the validator on (k, v)
    ok1 = False
    why1 = "no validator call"
    if len(val_calls) == 1:
        b, t = val_calls[0]
        loops = g.loops()
        head = [h for h, body in loops.items() if b.idx in body]
        if head:
            nxt, problems = emit.loop_iterates_whole_map(ctx, f, head[0], lambda e: e.k == "field" and e.a[1] == "content" and strip(e.a[0]).k == "param")
            a0 = strip(an.operand_expr(t.args[0], b.idx, len(b.stmts)))
            a1 = strip(an.operand_expr(t.args[1], b.idx, len(b.stmts)))

            def pair(e, idx):
                return e.k == "field" and e.a[1] == idx and e.a[0].k == "vfield" and e.a[0].a[1] == "Some" and nxt is not None and same_value(e.a[0].a[0], nxt)
            if problems:
                why1 = "; ".join(problems)
            elif not (pair(a0, "0") and pair(a1, "1")):
                why1 = "the validator is not applied to (key, value) of the current pair"
            else:
                # a failing validation aborts: the loop is re-entered only when the validator returned Ok
                r = an.call_expr(t, b.idx)
                cont = False
                for tail in [n for n in loops[head[0]] if head[0] in g.succ[n]]:
                    for d, cond, allowed, alll in an.constraints_at(tail):
                        if cond.k == "discr":
                            c = strip(cond.a[0])
                            if c.k == "call" and c.a[0].name == "branch" and same_value(c.a[1][0], r) and allowed <= {"Continue"}:
                                cont = True
                            if same_value(c, r) and allowed <= {"Ok"}:
                                cont = True
                    # the deciding test may be the loop's back edge itself
                    info = an.switch_info(tail)
                    if info is not None and info[0].k == "discr" and info[3]:
                        cond, targets, otherwise, names = info
                        c = strip(cond.a[0])
                        labs = [names.get(v) for v, tb in targets if tb == head[0]] + ([nm for v, nm in names.items() if v not in [x for x, _ in targets]] if otherwise == head[0] else [])
                        if same_value(c, r) and labs and set(labs) <= {"Ok"}:
                            cont = True
                ok1 = cont
                why1 = "a failing validation does not abort the build"
                # and the error reaches the caller: no Ok exit is reachable from the validator's Err edge
                if ok1:
                    from kernel import feasible_reach
                    oks = [bb for bb, idx, e, node in ret_exprs(an) if strip(e).k == "agg" and strip(e).a[0].endswith("Result::Ok")]
                    if not oks:
                        ok1, why1 = False, "build() has no Ok exit"
        else:
            why1 = "the validator is not called in a loop over the builder's map"
    elif len(val_calls) > 1:
        why1 = "%d validator calls" % len(val_calls)
    report.check("BUILD", "build/validate-all", ok1, "build() validates every (key, value) of the builder's map with the reserved-key validator before anything else",
                 "build(): %s" % why1, fn=f.path, sp=val_calls[0][1].sp if val_calls else f.span, config=cfg)
    # (2)+(3) id and key added after validation and before the signed payload is taken; nothing written afterwards
    ok23 = False
    why = ""
    # the payload that is signed
    signed_payload = None
    if len(signs) == 1:
        sb, st_ = signs[0]
        msg = strip(an.operand_expr(st_.args[1], sb.idx, len(sb.stmts)))
        for pb, pt in payload_calls:
            pe = an.call_expr(pt, pb.idx)
            if any(x.k == "call" and x.site == pb.idx and x.a[0].target() == "builder::Builder::<K>::rlp_content" for x in msg.walk()):
                a0 = strip(pe.a[1][0])
                if a0.k == "param" and a0.a[0] == 1:
                    signed_payload = pb.idx
    if len(signs) != 1:
        why = "%d sign_v4 calls" % len(signs)
    elif signed_payload is None:
        why = "the signed message is not self.rlp_content()"
    elif not val_calls:
        why = "no validation"
    else:
        vb = val_calls[0][0].idx
        rb = signed_payload
        cw = [w for w in writes if w["path"][:1] == ["content"] or w["path"] == []]
        pre_val = [w["what"] for w in cw if g.reaches(w["bb"], vb) and w["bb"] != vb]
        after = [w["what"] for w in writes if (g.reaches(rb, w["bb"]) and w["bb"] != rb)]
        ids = [w for w in cw if w["kind"] == "insert" and w.get("key") == b"id" and g.dominates(w["bb"], rb)]
        pks = [w for w in cw if w["kind"] == "insert" and w.get("pubkey_of") is not None and g.dominates(w["bb"], rb)]
        others = [w["what"] for w in cw if w["kind"] != "insert" or (w.get("key") != b"id" and w.get("pubkey_of") is None)]
        sk = strip(an.operand_expr(signs[0][1].args[0], signs[0][0].idx, len(signs[0][0].stmts)))
        same_key = bool(pks) and sk.k == "param" and all(w["pubkey_of"] == sk.a[0] for w in pks)
        pk_val = all(w["value"].get("kind") == "rlp" and is_pubkey_method(w["value"].get("value"), "encode") is not None and pubkey_of(is_pubkey_method(w["value"]["value"], "encode")) == w["pubkey_of"] for w in pks)
        ok23 = bool(ids) and bool(pks) and not after and not pre_val and not others and same_key and pk_val
        # the public key goes in last (a caller-supplied pair cannot replace it)
        if ok23 and not all(g.reaches(i["bb"], p_["bb"]) or (i["bb"] == p_["bb"] and i["idx"] < p_["idx"]) for i in ids for p_ in pks):
            ok23 = False
            why = "the public key entry is not the last pair stored"
        if not ok23 and not why:
            why = "content writes before validation %s, after the signed payload was taken %s, unexpected writes %s, id stored: %s, public key stored: %s%s%s" % (
                pre_val, after, others, bool(ids), bool(pks), "" if same_key else "; the inserted public key and the signing key are not the same parameter", "" if pk_val else "; the stored key bytes are not public(key).encode()")
    report.check("BUILD", "build/key-then-sign", ok23, "build() adds id and public(key) after validating, signs the payload taken afterwards with the same key, and writes nothing after that",
                 "build(): " + why, fn=f.path, sp=f.span, config=cfg)
    # (4b) the scheme that is signed under is v4: every test of the builder's `id` on the way to sign_v4 is a comparison
    # with "v4" taken on its equal side (sweep mutants: `"v5" => key.sign_v4(..)`, `if self.id == "v4" { return Err }`)
    if len(signs) == 1:
        sb, st_ = signs[0]
        wrong = []
        for d, cond, allowed, alll in an.constraints_at(sb.idx):
            c0 = strip(cond)
            neg = False
            while c0.k == "unop" and c0.a[0] == "Not":
                neg = not neg
                c0 = strip(c0.a[1])
            if not (c0.k == "call" and c0.a[0].name in ("eq", "ne") and len(c0.a[1]) == 2):
                continue
            if not any(x.k == "field" and x.a[1] == "id" and strip(x.a[0]).k == "param" for a_ in c0.a[1] for x in a_.walk()):
                continue
            true_edge = ("otherwise" in allowed or 1 in allowed) and 0 not in allowed
            false_edge = allowed == {0}
            holds = (true_edge and not neg) or (false_edge and neg)
            fails = (false_edge and not neg) or (true_edge and neg)
            equal = (c0.a[0].name == "eq" and holds) or (c0.a[0].name == "ne" and fails)
            lits = [strip(x).a[0] for x in c0.a[1] if strip(x).k == "const"]
            if not (equal and any(l in (b"v4", "v4") for l in lits)):
                wrong.append(short(cond, 100))
        report.check("BUILD", "build/signs-under-v4", not wrong, "every test of the builder's id on the way to sign_v4 is `id == \"v4\"` taken on its equal side",
                     "build() signs under an identity-scheme test other than id == \"v4\": %s" % wrong, fn=f.path, sp=st_.sp, config=cfg)
    # (5) the record is assembled from exactly those parts
    for b in f.blocks:
        if b.idx not in g.succ:
            continue
        for i, s in enumerate(b.stmts):
            if s.kind == "assign" and s.rv.kind == "aggregate" and s.rv.j.get("adt") == "Enr":
                e = an.rvalue_expr(s.rv, b.idx, i)
                sig = strip(e.a[1]["signature"])
                p = ok_payload(sig)
                sig_ok = False
                if p is not None and signs:
                    ps = strip(p)
                    while ps.k == "call" and ps.a[0].name == "map_err" and ps.a[1]:
                        ps = strip(ps.a[1][0])
                    sig_ok = ps.k == "call" and ps.site == signs[0][0].idx and ps.a[0].name == "sign_v4"
                seq = strip(e.a[1]["seq"])
                seq_ok = seq.k == "field" and seq.a[1] == "seq" and strip(seq.a[0]).k == "param"
                nid = strip(e.a[1]["node_id"])
                nid_ok = P.match(nid, P.call(name="from", full="NodeId", args=[P.call(name="public", trait="EnrKey", args=[P.param(2)])])) is not None
                report.check("BUILD", "build/assemble", bool(sig_ok and seq_ok and nid_ok), "the built record is (builder seq, NodeId::from(public(key)), builder pairs, the signature just computed)",
                             "build() assembles the record from other parts: signature ok=%s seq ok=%s node id ok=%s" % (bool(sig_ok), seq_ok, nid_ok), fn=f.path, sp=s.sp, config=cfg)
    # signing is conditional on the v4 scheme only (anything else is an error, never an unsigned record)
    report.ob("BUILD", "signature", len(signs) == 1 and signed_payload is not None, "build() signs self.rlp_content() with the given key (sign_v4)", cfg, f.span)
    if not (len(signs) == 1 and signed_payload is not None):
        report.violate("BUILD", "signature", "build() does not sign the builder's own payload with the given key", fn=f.path, sp=f.span, config=cfg)
    # the builder's payload has the record's layout
    rf = facts.fn("builder::Builder::<K>::rlp_content")
    if rf is None:
        report.violate("BUILD", "rlp_content", "anchor Builder::rlp_content not found", config=cfg)
    else:
        report.analysed_fns.add(rf.path)
        problems = builder_payload(ctx, rf)
        report.check("BUILD", "rlp_content", not problems, "Builder::rlp_content = list-header(len(stream)) || seq (key raw-value)* over the whole map (the layout verify() rebuilds)",
                     "Builder::rlp_content differs from the signed payload layout: %s" % "; ".join(problems), fn=rf.path, sp=rf.span, config=cfg)


def builder_payload(ctx, rf):
    """Builder::rlp_content writes seq + pairs into a local list, then frames it"""
    from rules.typestate import trace_local
    import shapes
    an = ctx.an(rf)
    rets = an.defs().get(0, [])
    if len(rets) != 1 or getattr(rets[0][2], "rv", None) is None:
        return ["does not return a local buffer"]
    out = trace_local(an, rets[0][2].rv.ops[0])
    # the stream: the local that receives the seq encoding
    stream = None
    for b, t in rf.calls():
        if t.callee and t.callee.name == "encode" and (t.callee.trait or "").endswith("Encodable") and t.callee.self_ty and t.callee.self_ty["s"] == "u64":
            tgt = an.operand_target(t.args[1])
            if tgt is not None and tgt[2] is False:
                stream = tgt[0]
    if stream is None or out is None:
        return ["cannot find the content stream / output buffer"]
    if shapes.root_local(an, stream) == shapes.root_local(an, out):
        # single pass: header with a computed length, then the items straight into the output
        return emit.check_direct_framed(ctx, rf, out, False, lambda e: e.k == "param" and e.a[0] == 1, "never", "Builder::rlp_content")
    ok, problems, em, flag = emit.check_content_stream(ctx, rf, stream, False, lambda e: e.k == "param" and e.a[0] == 1, "never", "Builder::rlp_content")
    problems = list(problems)
    problems += emit.check_framed(ctx, rf, stream, out, False)
    return problems


# ------------------------------------------------------------------ INV-RLP


def inv_rlp(ctx, report):
    """every value stored into a content map is encoder output, or a caller
    value that passed the validator (same key, same value) on the way"""
    cfg = ctx.config
    facts = ctx.facts
    n = 0
    for f in facts.fns:
        if f.kind not in ("AssocFn", "Fn"):
            continue
        an = None
        for b, t in f.calls():
            c = t.callee
            if not (c and c.name == "insert" and "BTreeMap" in c.fn and len(t.args) == 3):
                continue
            an = an or ctx.an(f)
            mt = an.operand_target(t.args[0])
            if mt is None:
                continue
            # is it a content map (of a record or of the builder)?
            root, path, via = mt
            is_content = path and path[-1] == "content"
            if not is_content and not path:
                ty = f.locals[root]["ty"]["s"]
                is_content = "BTreeMap<std::vec::Vec<u8>, alloy_rlp::Bytes>" in ty
            if not is_content:
                continue
            n += 1
            report.analysed_fns.add(f.path)
            v = value_is_rlp_of(an, t, 2)
            name = f.name
            key = "%s/insert@%s" % (name, site_ordinal(f, t.sp))
            if v["kind"] == "rlp":
                report.ob("INV-RLP", key, True, "value stored by %s is the RLP encoding of one value (%s)" % (name, v["ty"]), cfg, t.sp)
                # remove_insert: caller payloads are typed through the validator as well
                vv = strip(v["value"])
                is_pk = vv.k == "call" and vv.a[0].name == "encode" and (vv.a[0].trait or "").endswith("EnrPublicKey")
                if name == "remove_insert" and not is_pk:
                    ok = validated_before(ctx, f, an, b.idx, t, None)
                    report.check("INV-RLP", "remove_insert/validated", ok, "remove_insert validates each (key, encoded value) with the reserved-key validator before storing it",
                                 "remove_insert stores caller pairs without the reserved-key validator: ill-typed reserved values get through", fn=f.path, sp=t.sp, config=cfg)
                continue
            if name == "decode":
                # decoder: encoder output per leaf (checked in detail by C04)
                e = strip(an.operand_expr(t.args[2], b.idx, len(b.stmts)))
                srcs = [c2 for c2 in e.walk() if c2.k == "call" and (c2.a[0].fn == "alloy_rlp::encode" or c2.a[0].name in ("extend_from_slice", "new"))]
                report.check("INV-RLP", key, bool(srcs), "values stored by decode are re-encodings of what was read", "decode stores a value that is not encoder output", fn=f.path, sp=t.sp, config=cfg)
                continue
            if v["kind"] == "param":
                if name == "add_value_rlp":
                    report.ob("INV-RLP", key, True, "Builder::add_value_rlp stores a raw caller value; it is validated by build() before any record is made", cfg, t.sp)
                    continue
                ok = validated_before(ctx, f, an, b.idx, t, v["idx"])
                report.check("INV-RLP", key, ok, "%s stores a raw caller value only after the reserved-key validator accepted exactly (key, value)" % name,
                             "%s stores a caller-supplied raw value that did not pass the validator: malformed RLP can enter a record" % name, fn=f.path, sp=t.sp, config=cfg)
                continue
            report.violate("INV-RLP", key, "%s stores a value of unknown provenance into a content map: %s" % (name, short(v.get("expr"), 160)), fn=f.path, sp=t.sp, config=cfg)
    report.check("FLOOR", "content-inserts", n >= 10, "at least 10 content.insert sites examined (%d)" % n, config=cfg)


_ord = {}


def site_ordinal(f, sp):
    d = _ord.setdefault(f.path, {})
    if sp not in d:
        d[sp] = len(d) + 1
    return d[sp]


def validated_before(ctx, f, an, bb, t, value_param):
    """a call check_spec_reserved_keys(key', value')? whose success dominates
    the insert, with key'/value' denoting the inserted key/value"""
    g = an.cfg
    kexpr = strip(an.operand_expr(t.args[1], bb, len(f.blocks[bb].stmts)))
    kk = kexpr.a[1][0] if (kexpr.k == "call" and kexpr.a[0].name in ("to_vec", "into", "to_owned", "from", "clone") and kexpr.a[1]) else kexpr
    vexpr = strip(an.operand_expr(t.args[2], bb, len(f.blocks[bb].stmts)))
    for b2, t2 in f.calls():
        if not (t2.callee and t2.callee.local and (t2.callee.name == "check_spec_reserved_keys" or t2.callee.target() == (ctx.facts.j.get("role_anchors") or {}).get("validator"))):
            continue
        if not g.dominates(b2.idx, bb):
            continue
        a0 = strip(an.operand_expr(t2.args[0], b2.idx, len(b2.stmts)))
        a1 = strip(an.operand_expr(t2.args[1], b2.idx, len(b2.stmts)))
        key_same = repr(strip(kk)) == repr(a0) or same_value(kk, a0)
        val_same = (value_param is not None and a1.k == "param" and a1.a[0] == value_param) or same_value(a1, vexpr) or repr(a1) == repr(vexpr)
        if not (key_same and val_same):
            continue
        r = an.call_expr(t2, b2.idx)
        for d, cond, allowed, alll in an.constraints_at(bb):
            if cond.k == "discr":
                c = strip(cond.a[0])
                if c.k == "call" and c.a[0].name == "branch" and same_value(c.a[1][0], r) and allowed <= {"Continue"}:
                    return True
                if same_value(c, r) and allowed <= {"Ok"}:
                    return True
    return False


# ------------------------------------------------------------------ INV-PK precedence


def shadow_rule(ctx, report, infos):
    """A key type whose enr_to_public consults several entries in order can have
    the signer's entry shadowed by an earlier one unless commits are gated."""
    cfg = ctx.config
    facts = ctx.facts
    if not ("k256" in facts.features and "ed25519" in facts.features):
        return
    f = None
    for x in facts.fns:
        if x.name == "enr_to_public" and x.impl_self and "CombinedKey" in x.impl_self["s"]:
            f = x
    if f is None:
        report.violate("INV-PK", "combined/anchor", "CombinedKey::enr_to_public not found", config=cfg)
        return
    report.analysed_fns.add(f.path)
    # precedence order: secp256k1 first (established by C01.R3); the Ed25519 variant's own key is second
    # are all commits behind a verify()/public-key-equality gate?
    gated = True
    for info in infos.values():
        if info.kind != "core":
            continue
        an = ctx.an(info.fn)
        for c in info.commits:
            ok = False
            for d, cond, allowed, alll in an.constraints_at(c.bb):
                cs = strip(cond)
                if cs.k == "call" and cs.a[0].name == "verify" and ("otherwise" in allowed or 1 in allowed) and 0 not in allowed:
                    ok = True
            gated = gated and ok
    report.check("INV-PK", "shadow/CombinedKey::Ed25519", gated,
                 "an ed25519 CombinedKey signer cannot be shadowed by a secp256k1 entry (every commit is gated by verify())",
                 "CombinedKey reads the secp256k1 entry before the ed25519 one: a record signed by an ed25519 CombinedKey that also carries a valid secp256k1 entry "
                 "(builder pair, insert, remove_insert) is handed out with Ok although verify() is false; no mutator or build() checks that the record's own "
                 "public_key() is the signer's key", fn=f.path, sp=f.span, config=cfg)


_own_run = run


def run(ctx, report):
    _own_run(ctx, report)
    from common import Only
    from rules import c01, c09, c10
    # "verifies under the public key it carries": the gate in decode and the typestate both rest on verify()/verify_v4 being real checks
    c01._own_run(ctx, Only(report, {"VERIFY": "VERIFY", "VERIFYV4": "VERIFYV4", "NOLAUNDER": "NOLAUNDER"}))
    c09._own_run(ctx, Only(report, {"BUILD": "SIZE-BUILD"}))
    # the shadow rule above rests on the precedence "secp256k1 entry first, then ed25519" (C01.R3)
    c01.pubkey_rule(ctx, Only(report, {"PUBKEY": "PUBKEY"}))
    # "accepted again by the decoder": keys the library itself stores (any byte string, the empty one included) pass the
    # decoder's ordering test
    from rules import c02
    c02._own_run(ctx, Only(report, {"KEYS": "KEYS"}))
    c10._own_run(ctx, Only(report, {"UNCOMP": "UNCOMP", "FROM": "FROM", "DIGEST": "DIGEST"}))



# ------------------------------------------------------------------ build(), on primitives


def build_facts(ctx):
    """Builder::build with every local helper spliced in (only the reserved-key
    validator and Builder::rlp_content stay calls): the primitive steps and
    their order, independent of how build() is cut into helper functions.
    Returns dict(fn, an, val_calls, writes, signs, payload_calls, problems)."""
    if hasattr(ctx, "_build_facts"):
        return ctx._build_facts
    facts = ctx.facts
    f0 = facts.fn("builder::Builder::<K>::build")
    out = {"fn": None}
    if f0 is None:
        ctx._build_facts = out
        return out
    from rules.tables import ValidatorModel, const_key
    vm = ValidatorModel(ctx)
    vpath = vm.fn.path if not vm.problems else "check_spec_reserved_keys"
    # only the builder's own helpers are spliced in; everything else (validator, NodeId::from, ...) stays a call
    # (the generic add_value::<T> / add_value_rlp also stay calls: their type argument says what is stored)
    ADD = ("builder::Builder::<K>::add_value", "builder::Builder::<K>::add_value_rlp")
    keep = {g0.path for g0 in facts.all_fns if not g0.path.startswith("builder::Builder::<K>::")} | {vpath, "builder::Builder::<K>::rlp_content"} | set(ADD)
    f = ctx.flat(f0, keep=keep)
    an = ctx.an(f)
    g = an.cfg
    val_calls = [(b, t) for b, t in f.calls() if b.idx in g.succ and t.callee and t.callee.local and t.callee.target() == vpath]
    payload_calls = [(b, t) for b, t in f.calls() if b.idx in g.succ and t.callee and t.callee.target() == "builder::Builder::<K>::rlp_content"]
    signs = [(b, t) for b, t in f.calls() if b.idx in g.succ and t.callee and t.callee.name == "sign_v4" and (t.callee.trait or "").endswith("EnrKey")]
    writes = []
    evs = an.events(1, True)
    for bb in sorted(evs):
        for ev in evs[bb]:
            if ev["kind"] not in ("mutcall", "write", "escape"):
                continue
            t = ev.get("term")
            w = {"bb": bb, "idx": ev["idx"], "path": ev["path"], "sp": ev["sp"], "kind": "other", "what": (t.callee.full if t is not None and t.callee else ev["kind"])}
            if ev["kind"] == "mutcall" and t is not None and t.callee and t.callee.name == "insert" and "BTreeMap" in t.callee.fn and ev["path"][:1] == ["content"] and len(t.args) == 3:
                kexpr = strip(an.operand_expr(t.args[1], bb, ev["idx"]))
                kk = kexpr.a[1][0] if (kexpr.k == "call" and kexpr.a[0].name in ("to_vec", "into", "to_owned", "from", "clone") and kexpr.a[1]) else kexpr
                ck = const_key(kk)
                w["kind"] = "insert"
                w["key"] = ck
                w["keyexpr"] = kexpr
                P_ = is_pubkey_method(strip(kk), "enr_key")
                if P_ is not None:
                    w["pubkey_of"] = pubkey_of(P_)
                w["value"] = value_is_rlp_of(an, t, 2)
            elif ev["kind"] == "mutcall" and t is not None and t.callee and t.callee.target() in ADD and ev["path"] == [] and len(t.args) == 3:
                kexpr = strip(an.operand_expr(t.args[1], bb, ev["idx"]))
                w["kind"] = "insert"
                w["key"] = const_key(kexpr)
                w["keyexpr"] = kexpr
                P_ = is_pubkey_method(kexpr, "enr_key")
                if P_ is not None:
                    w["pubkey_of"] = pubkey_of(P_)
                if t.callee.target().endswith("add_value_rlp"):
                    w["value"] = value_is_rlp_of(an, t, 2)
                else:
                    ty = t.callee.targs[1]["s"] if len(t.callee.targs) > 1 else "?"
                    w["value"] = {"kind": "rlp", "value": strip(an.operand_expr(t.args[2], bb, ev["idx"])), "ty": ty.lstrip("&") if ty.startswith("&&") else ty, "site": t.sp}
            writes.append(w)
    out = dict(fn=f, an=an, val_calls=val_calls, writes=writes, signs=signs, payload_calls=payload_calls, validator=vpath)
    ctx._build_facts = out
    return out


# ------------------------------------------------------------------ sign()


def sign_rule(ctx, report, rule="SIGN"):
    """Enr::sign (with compute_signature spliced in): the only way a record
    gets a new signature is  self.signature := sign_v4(key, self.rlp_content())
    under id() == Some("v4"); every other outcome is an error that leaves the
    record as it was.  The typestate (`signed(k)`) takes exactly this for
    granted at every `sign(obj, k)` call."""
    cfg = ctx.config
    f0 = ctx.method("sign")
    if f0 is None:
        report.violate(rule, "sign", "anchor Enr::sign not found", config=cfg)
        return
    keep = {g0.path for g0 in ctx.facts.all_fns if g0.path not in ("Enr::<K>::compute_signature",) and not g0.path.startswith("Enr::<K>::sign")}
    f = ctx.flat(f0, keep=keep)
    an = ctx.an(f)
    g = an.cfg
    report.analysed_fns.add(f0.path)
    from rules.c01 import id_is_v4_at
    signs = [(b, t) for b, t in f.calls() if b.idx in g.succ and t.callee and t.callee.name == "sign_v4" and (t.callee.trait or "").endswith("EnrKey")]
    ok = len(signs) == 1
    why = "%d sign_v4 calls" % len(signs)
    if ok:
        b, t = signs[0]
        k = strip(an.operand_expr(t.args[0], b.idx, len(b.stmts)))
        msg = strip(an.operand_expr(t.args[1], b.idx, len(b.stmts)))
        if not (k.k == "param" and k.a[0] == 2):
            ok, why = False, "signs with %s, not the key parameter" % short(k, 80)
        elif P.match(msg, P.call(target="Enr::<K>::rlp_content", args=[P.param(1)])) is None:
            ok, why = False, "the signed message is %s, not self.rlp_content()" % short(msg, 120)
        else:
            some, v4 = id_is_v4_at(ctx, an, b.idx)
            if not (some and v4):
                ok, why = False, "the record is signed although id() == Some(\"v4\") is not established on that path (a record without, or with another, identity scheme gets a signature)"
    report.check(rule, "sign/v4-payload", ok, "sign() signs self.rlp_content() with the key parameter, only under id() == Some(\"v4\")", "sign(): " + why, fn=f0.path, sp=f0.span, config=cfg)
    # what is stored: self.signature := the success value of that sign_v4; nothing else of the record is written
    evs = an.events(1, True)
    stored_ok = False
    other = []
    for bb in sorted(evs):
        for ev in evs[bb]:
            if ev["kind"] not in ("write", "mutcall", "escape"):
                continue
            t = ev.get("term")
            if ev["path"][:1] == ["signature"]:
                if ev["kind"] == "mutcall" and t is not None and t.callee and t.callee.name == "replace" and "mem" in t.callee.fn and len(t.args) == 2:
                    v = strip(an.operand_expr(t.args[1], bb, ev["idx"]))
                elif ev["kind"] == "write" and ev.get("stmt") is not None:
                    v = strip(an.rvalue_expr(ev["stmt"].rv, bb, ev["idx"]))
                else:
                    other.append("signature modified by %s" % (t.callee.full if t is not None and t.callee else ev["kind"]))
                    continue
                p = ok_payload(v)
                ps = strip(p) if p is not None else v
                while ps.k == "call" and ps.a[0].name == "map_err" and ps.a[1]:
                    ps = strip(ps.a[1][0])
                if signs and ps.k == "call" and ps.site == signs[0][0].idx and ps.a[0].name == "sign_v4":
                    stored_ok = True
                else:
                    other.append("signature := %s" % short(v, 100))
            else:
                other.append("writes %s" % (ev["path"][:1] or ["*self"]))
    report.check(rule, "sign/stores", stored_ok and not other, "sign() stores exactly the signature just computed into self.signature and writes nothing else",
                 "sign(): %s" % ("; ".join(other) or "the computed signature is not stored in self.signature"), fn=f0.path, sp=f0.span, config=cfg)
