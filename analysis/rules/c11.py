"""C11 - key back-ends are interchangeable and schemes are isolated."""
import pattern as P
from common import short
from kernel import ok_payload, strip
from rules.c01 import digest_of_msg, keccak_state_local, pubkey_rule, ret_exprs, verify_v4_rule
from rules.c02 import decode_public_rule
from rules.c10 import backend_name, combined_delegates

EXPLANATION = (
    "Role-agreement rules over MIR (sibling implementations of EnrKey / EnrPublicKey over different libraries cannot agree on callee identity, so each impl is mapped "
    "through a per-library idiom table to roles and the role rows must be equal): both secp256k1 back-ends use the content key \"secp256k1\", look the key up with the "
    "same get -> Bytes::decode -> decode_public chain, parse it with the library's strict SEC1 parser on the whole entry, sign and verify over keccak256 of the whole "
    "message, emit/accept the 64-byte compact signature, encode the 33-byte compressed key, and hash the 64-byte x||y form; ed25519 uses its own key, the raw message "
    "and 64/32-byte forms; every CombinedKey / CombinedPublicKey method delegates to the same method of the matching variant with unchanged arguments, its lookup order "
    "is secp256k1 then ed25519; single-scheme impls read only their own constant; the generic decoder touches K only through enr_to_public, verify_v4 and "
    "encode_uncompressed. Not decided: equality of what k256 and libsecp256k1 accept/produce (hybrid/uncompressed keys, error behaviour) - two foreign libraries, runtime behaviour."
    " Re-uses C01 NOLAUNDER (no back-end normalises or re-parses signatures, so all accept the same signature bytes)."
)
TRUSTED = ["k256 and libsecp256k1 implement the same SEC1 parsing for 33-byte compressed keys and the same ECDSA verification"]
ASSUMPTIONS = ["public keys are restricted to the 33-byte compressed form or invalid encodings (as the property says)"]


def impl_fns(ctx, trait_end, name):
    return [f for f in ctx.facts.fns if f.kind == "AssocFn" and f.name == name and (f.impl_trait or "").endswith(trait_end)]


def run(ctx, report):
    cfg = ctx.config
    facts = ctx.facts
    # ---- constants
    consts = {}
    for path, c in facts.consts.items():
        if path.endswith("::ENR_KEY"):
            consts[path.split("::")[-2]] = bytes.fromhex(c["val"]["bytes"]) if "bytes" in c["val"] else None
    want = {"k256_key": b"secp256k1", "rust_secp256k1": b"secp256k1", "ed25519": b"ed25519"}
    for mod, val in consts.items():
        report.check("ROLE", "key-const/" + mod, want.get(mod) == val, "%s::ENR_KEY is %r" % (mod, want.get(mod)), "%s::ENR_KEY is %r, the scheme's key is %r" % (mod, val, want.get(mod)), config=cfg)
    for f in impl_fns(ctx, "EnrPublicKey", "enr_key"):
        bn = backend_name(f.impl_self["s"])
        report.analysed_fns.add(f.path)
        an = ctx.an(f)
        if bn == "combined":
            ok, why = combined_delegates(ctx, f, "enr_key")
            report.check("DELEG", "CombinedPublicKey::enr_key", ok, "CombinedPublicKey::enr_key delegates to the variant's key", "CombinedPublicKey::enr_key: " + why, fn=f.path, sp=f.span, config=cfg)
            continue
        vals = set()
        for bb, idx, e, node in ret_exprs(an):
            for c in e.walk():
                if c.k == "const" and isinstance(c.a[0], bytes):
                    vals.add(c.a[0])
        w = b"ed25519" if bn == "ed25519" else b"secp256k1"
        report.check("ROLE", "enr_key/" + bn, vals == {w}, "%s public keys are stored under %r" % (bn, w), "%s::enr_key() returns %s" % (bn, sorted(vals)), fn=f.path, sp=f.span, config=cfg)
    # ---- lookup chain, strict parser, verification (shared rules)
    pubkey_rule(ctx, report)
    decode_public_rule(ctx, report)
    verify_v4_rule(ctx, report)
    # ---- sign_v4
    for f in impl_fns(ctx, "EnrKey", "sign_v4"):
        report.analysed_fns.add(f.path)
        bn = backend_name(f.impl_self["s"])
        an = ctx.an(f)
        if bn == "combined":
            ok, why = combined_delegates(ctx, f, "sign_v4", extra=[2])
            report.check("DELEG", "CombinedKey::sign_v4", ok, "CombinedKey::sign_v4 delegates msg unchanged to the variant's key", "CombinedKey::sign_v4: " + why, fn=f.path, sp=f.span, config=cfg)
            continue
        ok, why = sign_role(ctx, f, an, bn)
        report.check("ROLE", "sign_v4/" + bn, ok, "%s::sign_v4 signs %s and returns the 64-byte fixed form" % (bn, "the message itself" if bn == "ed25519" else "keccak256(whole message)"),
                     "%s::sign_v4: %s" % (bn, why), fn=f.path, sp=f.span, config=cfg)
    # ---- encode (compressed / 32-byte form)
    for f in impl_fns(ctx, "EnrPublicKey", "encode"):
        report.analysed_fns.add(f.path)
        bn = backend_name(f.impl_self["s"])
        an = ctx.an(f)
        if bn == "combined":
            ok, why = combined_delegates(ctx, f, "encode")
            report.check("DELEG", "CombinedPublicKey::encode", ok, "CombinedPublicKey::encode delegates to the variant's key", "CombinedPublicKey::encode: " + why, fn=f.path, sp=f.span, config=cfg)
            continue
        rets = ret_exprs(an)
        ok = False
        why = "unrecognised shape"
        if len(rets) == 1:
            es = strip(rets[0][2])
            out = f.output["s"] if f.output else ""
            if bn == "k256":
                # `(&VerifyingKey).into()` : CompressedPoint  (k256: From<&VerifyingKey> for CompressedPoint is the 33-byte SEC1 compressed form)
                ok = es.k == "call" and es.a[0].name in ("into", "from", "to_encoded_point", "to_sec1_bytes") and strip(es.a[1][0]).k == "param" and "GenericArray<u8" in es.a[0].full + out
                if es.k == "call" and es.a[0].name == "to_encoded_point":
                    flag = strip(es.a[1][1]) if len(es.a[1]) > 1 else None
                    ok = flag is not None and flag.k == "const" and flag.a[0] == 1
            elif bn == "rust-secp256k1":
                ok = es.k == "call" and es.a[0].name == "serialize" and "PublicKey" in es.a[0].fn and strip(es.a[1][0]).k == "param"
            elif bn == "ed25519":
                ok = es.k == "call" and es.a[0].name in ("to_bytes", "as_bytes") and strip(es.a[1][0]).k == "param"
            why = short(es, 160)
        report.check("ROLE", "encode/" + bn, ok, "%s::encode is the key's canonical wire form (compressed point / 32 bytes)" % bn, "%s::encode: %s" % (bn, why), fn=f.path, sp=f.span, config=cfg)
    # ---- uncompressed (shared with C10)
    from rules import c10
    for f in impl_fns(ctx, "EnrPublicKey", "encode_uncompressed"):
        report.analysed_fns.add(f.path)
        st = f.impl_self["s"]
        bn = backend_name(st)
        if bn == "k256":
            ok, why = c10.k256_uncompressed(ctx, f)
        elif bn == "rust-secp256k1":
            ok, why = c10.secp_uncompressed(ctx, f)
        elif bn == "ed25519":
            ok, why = c10.ed_uncompressed(ctx, f)
        else:
            ok, why = combined_delegates(ctx, f, "encode_uncompressed")
        report.check("ROLE", "uncompressed/" + bn, ok, "%s::encode_uncompressed is the form the node id is defined over" % bn, "%s::encode_uncompressed: %s" % (bn, why), fn=f.path, sp=f.span, config=cfg)
    # ---- public()
    for f in impl_fns(ctx, "EnrKey", "public"):
        bn = backend_name(f.impl_self["s"])
        if bn == "combined":
            continue  # C17 EXPORT/public
        report.analysed_fns.add(f.path)
        an = ctx.an(f)
        rets = ret_exprs(an)
        ok = len(rets) == 1 and any(c.k == "call" and c.a[0].name in ("verifying_key", "from_secret_key", "public_key") and any(strip(a).k == "param" and strip(a).a[0] == 1 for a in c.a[1]) for c in rets[0][2].walk())
        report.check("ROLE", "public/" + bn, ok, "%s::public derives the public key from self" % bn, "%s::public: %s" % (bn, short(rets[0][2], 160) if rets else "?"), fn=f.path, sp=f.span, config=cfg)
    generic_decoder_rule(ctx, report)


def sign_role(ctx, f, an, bn):
    good = 0
    for bb, idx, e, node in ret_exprs(an):
        es = strip(e)
        if es.k == "call" and es.a[0].name == "from_residual":
            continue
        if es.k == "agg" and es.a[0].endswith("Result::Err"):
            # a refusal to sign must be the library signer's own failure (an early exit on the message's size or
            # content makes updates fail that the size rules accept - and differently per back-end)
            derived = any(x.k == "vfield" and x.a[1] in ("Err", "Break") for x in es.walk())
            for d, cond, allowed, alll in an.constraints_at(bb):
                if cond.k == "discr" and allowed and allowed <= {"Err", "Break"} and any(x.k == "call" and not x.a[0].local for x in cond.walk()):
                    derived = True
            if not derived:
                return False, "refuses to sign on a condition of its own (an Err exit that is not the library signer's failure)"
            continue
        if not (es.k == "agg" and es.a[0].endswith("Result::Ok")):
            return False, "returns %s" % short(es, 120)
        v = strip(es.a[1]["0"])
        import shapes
        inner = shapes.bytes_value(an, es.a[1]["0"])
        if inner is None:
            return False, "signature bytes are %s" % short(v, 120)
        if bn == "k256":
            # Signature::to_bytes() is the same 64 bytes as to_vec()
            if inner.k == "call" and inner.a[0].name == "to_bytes" and "Signature" in inner.a[0].full and inner.a[1]:
                inner = strip(inner.a[1][0])
            sig = ok_payload(inner)
            sig = strip(sig) if sig is not None else inner
            if sig.k == "call" and sig.a[0].name == "map_err" and sig.a[1]:
                sig = strip(sig.a[1][0])
            if not (sig.k == "call" and sig.a[0].name in ("try_sign_digest_with_rng", "sign_digest_with_rng", "try_sign_digest", "sign_digest") and sig.a[1]):
                return False, "signature comes from %s" % short(sig, 120)
            if P.match(sig.a[1][0], P.param(1)) is None:
                return False, "signs with a key other than self"
            dig = sig.a[1][-1]
            if digest_of_msg(ctx, an, dig, 2) != "state":
                return False, "digest is %s, expected keccak256 over the whole message" % short(dig, 160)
        elif bn == "rust-secp256k1":
            if not (inner.k == "call" and inner.a[0].name == "serialize_compact" and inner.a[1]):
                return False, "signature bytes are %s, expected serialize_compact()" % short(inner, 120)
            sig = strip(inner.a[1][0])
            if not (sig.k == "call" and sig.a[0].name in ("sign_ecdsa_with_noncedata", "sign_ecdsa", "sign_ecdsa_low_r") and len(sig.a[1]) >= 3):
                return False, "signature comes from %s" % short(sig, 120)
            msg = strip(sig.a[1][1])
            key = sig.a[1][2]
            if P.match(key, P.param(1)) is None:
                return False, "signs with a key other than self"
            if not (msg.k == "call" and msg.a[0].name in ("from_digest", "from_digest_slice") and msg.a[1]):
                return False, "message operand is %s" % short(msg, 120)
            d = strip(msg.a[1][0])
            if digest_of_msg(ctx, an, d, 2) != "bytes":
                return False, "digest is %s, expected keccak256 over the whole message" % short(d, 160)
        elif bn == "ed25519":
            # sign(..).to_bytes().to_vec()  or  sign(..).to_vec()  (the 64-byte form either way)
            if inner.k == "call" and inner.a[0].name == "to_bytes" and inner.a[1]:
                sig = strip(inner.a[1][0])
            else:
                sig = inner
            if not (sig.k == "call" and sig.a[0].name in ("sign", "try_sign") and len(sig.a[1]) == 2):
                return False, "signature comes from %s" % short(sig, 120)
            if P.match(sig.a[1][0], P.param(1)) is None or P.match(sig.a[1][1], P.param(2)) is None:
                return False, "does not sign (self, whole message)"
        good += 1
    return good >= 1, "no successful return"


def generic_decoder_rule(ctx, report):
    """the record code depends on K only through the trait methods"""
    cfg = ctx.config
    allowed = {"enr_to_public", "verify_v4", "encode_uncompressed", "encode", "enr_key", "public", "sign_v4", "clone", "fmt", "decode_public"}
    bad = []
    n = 0
    for f in ctx.facts.fns:
        if not (f.path.startswith("Enr::<K>::") or f.path.startswith("<Enr<K> as") or f.path.startswith("builder::Builder::<K>") or f.path.startswith("<node_id::NodeId as std::convert::From<T>>")):
            continue
        for b, t in f.calls():
            c = t.callee
            if c is None or c.resolved or not c.trait:
                continue
            st = c.self_ty["s"] if c.self_ty else ""
            if (c.trait or "").startswith("keys::"):
                n += 1
                if c.name not in allowed:
                    bad.append((f.path, c.full, t.sp))
    report.check("GENERIC", "trait-surface", not bad and n >= 10,
                 "record/builder code reaches the key type only through the EnrKey/EnrPublicKey methods (%d call sites)" % n,
                 "record code calls %s on the generic key type" % bad, config=cfg)


_own_run = run


def run(ctx, report):
    _own_run(ctx, report)
    from common import Only
    from rules import c01
    c01._own_run(ctx, Only(report, {"NOLAUNDER": "NOLAUNDER"}))
    # "accept exactly the same inputs": what build() hands out must not depend on the key type's in-memory representation
    from rules import c09
    c09._own_run(ctx, Only(report, {"BUILD": "SIZE-BUILD"}))
    # the outcome of a call is decided by its arguments: no static carries state from one call to the next
    from rules.purity import hidden_state
    hidden_state(ctx, report)

