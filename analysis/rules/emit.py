"""F7 - emission grammars: what a function writes into a byte sink, as a
structured skeleton  [flag? sig] seq (key val)*  recovered from MIR."""
import rlpclass
from common import short
from kernel import ok_payload, same_projection, same_value, strip, unmut


class Emission:
    def __init__(self, kind, cls, value, bb, sp, term):
        self.kind = kind  # rlp | raw | header | call | other
        self.cls = cls
        self.value = value
        self.bb = bb
        self.sp = sp
        self.term = term
        self.loop = None
        self.cond = None  # None = unconditional; ('flag', idx, truth) ; ('other', text)
        self.iter_unconditional = None

    def __repr__(self):
        return "%s:%s(%s)%s%s" % (self.kind, rlpclass.fmt(self.cls) if self.cls else "", short(self.value, 80) if self.value is not None else "",
                                  " if %s" % (self.cond,) if self.cond else "", " in-loop" if self.loop is not None else "")


def sink_emissions(ctx, fn, root, via_param):
    """all writes into the sink, in reverse post-order, classified"""
    an = ctx.an(fn)
    cfg = an.cfg
    evs = an.events(root, via_param)
    order = {b: i for i, b in enumerate(cfg.rpo())}
    out = []
    loops = cfg.loops()
    for bb in sorted(evs, key=lambda b: order.get(b, 10**6)):
        for ev in evs[bb]:
            if ev["kind"] not in ("mutcall", "write", "escape"):
                continue
            t = ev.get("term")
            if t is None or t.callee is None:
                out.append(Emission("other", None, None, bb, ev["sp"], t))
                continue
            c = t.callee
            idx = ev["idx"]
            sink_arg = ev["arg"]
            if c.name == "encode" and (c.trait or "").endswith("alloy_rlp::Encodable") and sink_arg == 1:
                v = strip(an.operand_expr(t.args[0], bb, idx))
                e = Emission("rlp", rlpclass.encoder_class(c), v, bb, t.sp, t)
            elif c.name in ("extend_from_slice", "put_slice", "put", "unsplit") and sink_arg == 0 and len(t.args) == 2:
                v = strip(an.operand_expr(t.args[1], bb, idx))
                e = Emission("raw", None, v, bb, t.sp, t)
            elif c.name == "encode" and "alloy_rlp::Header" in c.fn and sink_arg == 1:
                v = strip(an.operand_expr(t.args[0], bb, idx))
                e = Emission("header", None, v, bb, t.sp, t)
            elif c.local and not c.trait:
                e = Emission("call", None, [strip(an.operand_expr(a, bb, idx)) for a in t.args], bb, t.sp, t)
            else:
                e = Emission("other", None, None, bb, t.sp, t)
            # loop membership
            for head, body in loops.items():
                if bb in body:
                    e.loop = head
                    tails = [n for n in body if head in cfg.succ[n]]
                    e.iter_unconditional = all(cfg.dominates(bb, tl) for tl in tails)
            # condition (outside loops): dominates all exits?
            if e.loop is None:
                if all(cfg.dominates(bb, x) for x in cfg.exits):
                    e.cond = None
                else:
                    cons = [c2 for c2 in an.constraints_at(bb) if c2[2] != c2[3]]
                    if len(cons) == 1 and strip(cons[0][1]).k == "param" and cons[0][2] <= {"otherwise", 1}:
                        e.cond = ("flag", strip(cons[0][1]).a[0], True)
                    elif len(cons) == 1 and strip(cons[0][1]).k == "param" and cons[0][2] == {0}:
                        e.cond = ("flag", strip(cons[0][1]).a[0], False)
                    else:
                        e.cond = ("other", [short(c2[1], 80) for c2 in cons])
            out.append(e)
    return out


def loop_iterates_whole_map(ctx, fn, head, map_pred):
    """The loop at `head` is `for (k, v) in &MAP` with no adaptor: returns
    (next_call_expr, problems)"""
    an = ctx.an(fn)
    cfg = an.cfg
    body = cfg.loops()[head]
    problems = []
    nxt = None
    for n in sorted(body):
        t = fn.blocks[n].term
        if t.kind == "call" and t.callee and t.callee.name == "next" and (t.callee.trait or "").endswith("Iterator"):
            nxt = (n, t)
            break
    if nxt is None:
        return None, ["loop does not advance an iterator with next()"]
    n, t = nxt
    st = t.callee.self_ty["s"] if t.callee.self_ty else ""
    if "btree_map::Iter<" not in st and "btree_map::Values<" not in st:
        problems.append("iterator type is %s, not a plain BTreeMap iterator (an adaptor may skip or reorder pairs)" % st)
    it = an.operand_target(t.args[0])
    src = None
    if it is not None and it[2] is False and it[1] == []:
        from shapes import def_expr
        src = def_expr(an, it[0])
        # `_18 = move _16` chain
        from rules.typestate import trace_local
        d = an.unique_def(it[0])
        if d is not None and getattr(d[2], "rv", None) is not None and d[2].rv.kind == "use":
            l0 = trace_local(an, d[2].rv.ops[0])
            src = def_expr(an, l0) if l0 is not None else src
    if src is None:
        problems.append("cannot find where the iterator comes from")
    else:
        s = strip(src)
        ok = s.k == "call" and s.a[0].name in ("into_iter", "iter") and s.a[1] and map_pred(strip(s.a[1][0]))
        if not ok:
            problems.append("iterator is %s, not an iteration over the whole content map" % short(src, 160))
    # the loop is left only when next() returns None
    exits = [(a, b) for a in body for b in cfg.succ[a] if b not in body]
    err_exits = []
    for a, b in exits:
        info = an.switch_info(a)
        good = False
        if info is not None:
            cond, targets, otherwise, names = info
            if cond.k == "discr" and names:
                c = strip(cond.a[0])
                # leaving through `?` (error propagation) is not skipping pairs
                if c.k == "call" and c.a[0].name == "branch" and c.a[0].trait == "std::ops::Try":
                    labs = [names.get(v) for v, tb in targets if tb == b]
                    if labs == ["Break"]:
                        good = True
                if c.k == "call" and c.site == n:
                    labs = [names.get(v) for v, tb in targets if tb == b]
                    if labs == ["None"]:
                        good = True
                # leaving on the Err of a Result computed in the iteration (explicit error propagation)
                labs2 = [names.get(v) for v, tb in targets if tb == b] + ([nm for v, nm in names.items() if v not in [x for x, _ in targets]] if otherwise == b else [])
                if labs2 and set(labs2) <= {"Err"} and c.k == "call" and c.site in body:
                    good = True
                    err_exits.append((a, b))
        if not good:
            problems.append("loop can be left at %s other than by exhausting the iterator" % fn.blocks[a].term.sp)
    # an explicit error exit must stay an error: no successful return behind it
    if err_exits:
        from kernel import feasible_reach
        okb = set()
        for bb0, idx0, node0 in an.defs().get(0, []):
            rv0 = getattr(node0, "rv", None)
            if rv0 is not None and rv0.kind == "aggregate" and rv0.j.get("variant") in ("Ok", "Some"):
                okb.add(bb0)
        for a, b in err_exits:
            if okb & feasible_reach(an, b):
                problems.append("the loop is left on an error at %s but a successful return is still reachable from there" % fn.blocks[a].term.sp)
    return an.call_expr(t, n), problems


def check_content_stream(ctx, fn, root, via_param, record_pred, sig_mode, what, skip_header=False):
    """Verify that `fn` writes into the sink exactly
         [sig]  seq  (key  val)*
    over the record denoted by record_pred(expr) (expr -> bool for `the
    record object`).  sig_mode: 'flag' (conditional on a bool parameter),
    'never'.  Returns (ok, problems, emissions, flag_param)."""
    em = sink_emissions(ctx, fn, root, via_param)
    if skip_header and em and em[0].kind == "header":
        em = em[1:]
    problems = []
    flag = None

    def is_field(e, name):
        e = strip(e)
        return e.k == "field" and e.a[1] == name and record_pred(strip(e.a[0]))

    pre = [e for e in em if e.loop is None]
    inl = [e for e in em if e.loop is not None]
    # --- before the loop
    i = 0
    if sig_mode == "always":
        if pre and pre[0].kind == "rlp" and is_field(pre[0].value, "signature") and pre[0].cls == ("BYTES", None) and pre[0].cond is None:
            i = 1
        else:
            problems.append("first emission is not, unconditionally, the signature as a byte string (found %s)" % (pre[0] if pre else None))
    if sig_mode == "flag":
        if pre and pre[0].kind == "rlp" and is_field(pre[0].value, "signature") and pre[0].cls == ("BYTES", None):
            if pre[0].cond and pre[0].cond[0] == "flag" and pre[0].cond[2] is True:
                flag = pre[0].cond[1]
            else:
                problems.append("signature emission is not controlled by the include-signature flag alone (%s)" % (pre[0].cond,))
            i = 1
        else:
            problems.append("first emission is not the signature as a byte string")
    if len(pre) > i and pre[i].kind == "rlp" and is_field(pre[i].value, "seq") and pre[i].cls == ("UINT", 64) and pre[i].cond is None:
        i += 1
    else:
        problems.append("seq is not emitted unconditionally as UINT64 right after the optional signature (found %s)" % (pre[i] if len(pre) > i else None))
    if len(pre) > i:
        problems.append("extra emissions outside the pair loop: %s" % pre[i:])
    # --- the loop
    heads = {e.loop for e in inl}
    if len(heads) != 1:
        problems.append("expected exactly one loop writing pairs, found %d" % len(heads))
        return False, problems, em, flag
    head = heads.pop()
    nxt, lp = loop_iterates_whole_map(ctx, fn, head, lambda e: e.k == "field" and e.a[1] == "content" and record_pred(strip(e.a[0])))
    problems.extend(lp)
    if len(inl) != 2:
        problems.append("an iteration emits %d things, expected key then value" % len(inl))
    else:
        k, v = inl
        an = ctx.an(fn)
        if not (k.kind == "rlp" and k.cls == ("BYTES", None)):
            problems.append("key is not emitted as an RLP byte string: %s" % k)
        if v.kind != "raw":
            problems.append("value is not emitted verbatim: %s" % v)
        if not (k.iter_unconditional and v.iter_unconditional):
            problems.append("key/value emission is conditional within an iteration (pairs can be skipped)")
        if not an.cfg.dominates(k.bb, v.bb):
            problems.append("value is emitted before its key")
        if nxt is not None:
            def pair_field(e, idx):
                e = strip(e)
                # (next() as Some).0.<idx>
                if e.k == "field" and e.a[1] == idx:
                    b = e.a[0]
                    if b.k == "vfield" and b.a[1] == "Some" and same_value(b.a[0], nxt):
                        return True
                return False
            if not pair_field(k.value, "0"):
                problems.append("emitted key is not the key of the current pair: %s" % short(k.value, 120))
            if not pair_field(v.value, "1"):
                problems.append("emitted value is not the value of the current pair: %s" % short(v.value, 120))
    return not problems, problems, em, flag


def check_framed(ctx, fn, stream_local, out_root, out_via_param):
    """`out` receives Header{list:true, payload_length: len(stream)} then the
    whole stream, nothing else.  Returns problems."""
    an = ctx.an(fn)
    em = sink_emissions(ctx, fn, out_root, out_via_param)
    problems = []
    if len(em) != 2:
        return ["output receives %d writes, expected header then stream: %s" % (len(em), em)]
    h, s = em
    from shapes import def_expr
    sdef = def_expr(an, stream_local)
    if h.kind != "header":
        problems.append("first write is not an RLP header: %s" % h)
    else:
        hv = strip(h.value)
        ok = hv.k == "agg" and hv.a[0].endswith("Header::Header")
        if ok:
            lst = strip(hv.a[1].get("list"))
            pl = strip(hv.a[1].get("payload_length"))
            if not (lst.k == "const" and lst.a[0] == 1):
                problems.append("header is not a list header")
            if not (pl.k == "call" and pl.a[0].name == "len" and pl.a[1] and same_value(unmut(pl.a[1][0]), unmut(sdef))):
                problems.append("header length is not the length of the content stream: %s" % short(pl, 120))
            else:
                # the length is taken after the stream was completely written
                import shapes
                for mu in shapes.mutations(an, stream_local):
                    if mu["bb"] == pl.site or an.cfg.reaches(pl.site, mu["bb"]):
                        problems.append("the stream is still written (at %s) after/around the point where its length is taken" % mu["sp"])
        else:
            problems.append("header is not built in place: %s" % short(hv, 120))
    if not (s.kind == "raw" and same_value(unmut(s.value), unmut(sdef))):
        problems.append("second write is not the whole content stream: %s" % s)
    if h.cond is not None or s.cond is not None:
        problems.append("header/stream emission is conditional")
    if not an.cfg.dominates(h.bb, s.bb):
        problems.append("stream written before its header")
    return problems


# ---------------------------------------------------------------- "the encoding of self"


def length_overridden(ctx):
    """does the crate override Encodable::length for the record type?"""
    return any(x.name == "length" and (x.impl_trait or "").endswith("alloy_rlp::Encodable") and x.impl_self and x.impl_self.get("adt") == "Enr" for x in ctx.facts.fns)


def is_encoding_of_self(ctx, f, an, e, buf_local=None):
    """e (or the local buffer buf_local) holds exactly the bytes
    <Enr as Encodable>::encode(self) writes:
      * alloy_rlp::encode(self)                       (library: fresh Vec filled by value.encode)
      * a fresh Vec/BytesMut that received exactly one `self.encode(&mut buf)`"""
    import shapes
    es = unmut(e) if e is not None else None
    if es is not None and es.k == "call" and es.a[0].fn == "alloy_rlp::encode" and len(es.a[1]) == 1:
        a = strip(es.a[1][0])
        return a.k == "param" and a.a[0] == 1 and any("Enr<" in (t.get("s") or "") for t in es.a[0].targs)
    if buf_local is None and e is not None:
        ee = strip(e)
        if ee.k == "mutated":
            buf_local = ee.a[1]
    if buf_local is None:
        return False
    # built from the same parts as encode(): list-header(len(S)) || S with S = signature seq pairs
    if not f.j.get("flat"):
        from rules.c01 import framed_flat
        fg = ctx.flat(f)
        # the local has the same number in the flattened body only if nothing was spliced in front of it: locate it by its definition site
        if len(fg.locals) >= len(f.locals) and buf_local < len(f.locals) and fg.locals[buf_local]["ty"]["s"] == f.locals[buf_local]["ty"]["s"]:
            try:
                if not framed_flat(ctx, f, True, None, out_local=buf_local):
                    return True
            except Exception:
                pass
    d = shapes.def_expr(an, buf_local)
    muts = shapes.mutations(an, buf_local)
    d = unmut(d) if d is not None else None
    fresh = d is not None and d.k == "call" and d.a[0].name in ("new", "with_capacity") and not d.a[0].local
    if not (fresh and len(muts) == 1 and muts[0]["kind"] == "mutcall"):
        return False
    t = muts[0]["term"]
    c = t.callee
    sa = strip(an.operand_expr(t.args[0], muts[0]["bb"], muts[0]["idx"]))
    return bool(c and c.name == "encode" and (c.trait or "").endswith("alloy_rlp::Encodable") and c.self_ty and c.self_ty.get("adt") == "Enr" and sa.k == "param" and sa.a[0] == 1)



# ---------------------------------------------------------------- single-pass framing (length mirror)


def check_direct_framed(ctx, fn, out_root, out_via, record_pred, sig_mode, what):
    """`out` receives Header{list: true, payload_length: L} and then, directly,
    [sig] seq (key raw-value)*, where L is the sum of exactly the lengths of
    those emissions:
        L = [sig.length()] + seq.length() + sum over the whole map of (key.length() + value.len())
    Each emission is matched with its length term (same value, same RLP class);
    alloy-rlp's contract `x.length() == bytes written by x.encode()` is the
    trusted library fact.  Returns problems."""
    import closures
    import guards
    from kernel import E, closure_of
    from rules.typestate import const_int
    an = ctx.an(fn)
    em = sink_emissions(ctx, fn, out_root, out_via)
    if not em or em[0].kind != "header":
        return ["the first write is not an RLP header"]
    h = em[0]
    if h.cond is not None or h.loop is not None or not all(an.cfg.dominates(h.bb, e.bb) for e in em[1:]):
        return ["the header is not written first, unconditionally"]
    ok, problems, _, _ = check_content_stream(ctx, fn, out_root, out_via, record_pred, sig_mode, what, skip_header=True)
    problems = list(problems)
    hv = strip(h.value)
    if not (hv.k == "agg" and hv.a[0].endswith("Header::Header")):
        return problems + ["header is not built in place: %s" % short(hv, 120)]
    lst = strip(hv.a[1].get("list"))
    if not (lst.k == "const" and lst.a[0] == 1):
        problems.append("header is not a list header")
    pre = [e for e in em[1:] if e.loop is None]
    inl = [e for e in em[1:] if e.loop is not None]
    problems += length_mirror(ctx, hv.a[1].get("payload_length"), pre, inl, record_pred)
    return problems


def length_mirror(ctx, length_expr, pre, inl, record_pred):
    """problems unless length_expr = sum of the length()/len() terms of exactly
    the emissions `pre` (outside the pair loop) and `inl` (key, value of one
    iteration over the whole map)"""
    import closures
    import guards
    from kernel import E, closure_of
    from rules.typestate import const_int
    problems = []
    atoms, cst = guards.linear(length_expr, const_int, strip)
    if cst != 0:
        problems.append("the header length contains the constant %d" % cst)
    terms = [strip(a) for a in atoms]
    used = set()

    def is_len_of(t, emission):
        """t is the length term of one emission"""
        if emission.kind == "rlp":
            return t.k == "call" and t.a[0].name == "length" and (t.a[0].trait or "").endswith("alloy_rlp::Encodable") and t.a[1] and \
                rlpclass.encoder_class(t.a[0]) == emission.cls and (same_value(unmut(t.a[1][0]), unmut(emission.value)) or same_projection(t.a[1][0], emission.value))
        if emission.kind == "raw":
            return t.k == "call" and t.a[0].name == "len" and t.a[1] and (same_value(unmut(t.a[1][0]), unmut(emission.value)) or same_projection(t.a[1][0], emission.value))
        return False

    for e in pre:
        hit = [i for i, t in enumerate(terms) if i not in used and is_len_of(t, e)]
        if not hit:
            problems.append("the header length has no term for the emission %s" % e)
        else:
            used.add(hit[0])
    # a summation over the pairs: `iter.map(|kv| f(kv)).sum()`, or `iter.fold(init, |acc, kv| acc + f(kv))`
    # (= init + the same sum: the accumulator occurs exactly once, added)
    summations = []  # (index, iterator expr, callee, per-item terms, per-item constant)
    for i, t in enumerate(list(terms)):
        if i in used or t.k != "call" or not (t.a[0].trait or "").endswith("Iterator"):
            continue
        if t.a[0].name == "sum" and t.a[1]:
            src = strip(t.a[1][0])
            if src.k == "call" and src.a[0].name == "map" and len(src.a[1]) == 2:
                cl = closure_of(src.a[1][1])
                body = closures.closure_return(ctx, cl[0], cl[1], [E("closure-arg")]) if cl else None
                if body and len(body) == 1:
                    catoms, ccst = guards.linear(body[0], const_int, strip)
                    summations.append((i, strip(src.a[1][0]), t.a[0], [strip(a) for a in catoms], ccst))
                    continue
            summations.append((i, None, t.a[0], [], 0))
        elif t.a[0].name == "fold" and len(t.a[1]) == 3:
            cl = closure_of(t.a[1][2])
            body = closures.closure_return(ctx, cl[0], cl[1], [E("closure-acc"), E("closure-arg")]) if cl else None
            if body and len(body) == 1:
                catoms, ccst = guards.linear(body[0], const_int, strip)
                catoms = [strip(a) for a in catoms]
                accs = [a for a in catoms if unmut(a).k == "closure-acc"]
                rest = [a for a in catoms if unmut(a).k != "closure-acc"]
                if len(accs) == 1 and not any(x.k == "closure-acc" for a in rest for x in a.walk()):
                    # the initial value contributes ordinary terms
                    iatoms, icst = guards.linear(t.a[1][1], const_int, strip)
                    if icst != 0:
                        problems.append("the header length contains the constant %d" % icst)
                    for a in iatoms:
                        terms.append(strip(a))
                    summations.append((i, strip(t.a[1][0]), t.a[0], rest, ccst))
                    continue
            summations.append((i, None, t.a[0], [], 0))
    # terms added by a fold's initial value may be the length terms of emissions outside the loop
    missing = [p for p in problems if p.startswith("the header length has no term for the emission")]
    if missing:
        for e in pre:
            msg = "the header length has no term for the emission %s" % e
            if msg in problems:
                hit = [i for i, t in enumerate(terms) if i not in used and is_len_of(t, e)]
                if hit:
                    used.add(hit[0])
                    problems.remove(msg)
    if len(summations) != 1:
        problems.append("the header length has %d summations over the pairs, expected one" % len(summations))
    else:
        si, it, callee, cterms, ccst = summations[0]
        used.add(si)
        sm = terms[si]
        good = False
        if it is not None:
            itok = it.k == "call" and it.a[0].name in ("iter", "into_iter") and it.a[1] and strip(it.a[1][0]).k == "field" and strip(it.a[1][0]).a[1] == "content" and record_pred(strip(strip(it.a[1][0]).a[0])) and \
                ("btree_map::Iter<" in (callee.full or "") or "BTreeMap" in (it.a[0].full or ""))
            if itok and len(inl) == 2:

                def arg_field(x, idx):
                    x = unmut(x)
                    for _ in range(4):
                        if x.k == "call" and len(x.a[1]) == 1 and x.a[0].name in ("as_slice", "as_ref", "deref", "as_bytes"):
                            x = unmut(x.a[1][0])
                    return x.k == "field" and x.a[1] == idx and unmut(x.a[0]).k == "closure-arg"
                k_em, v_em = inl
                kt = [t for t in cterms if t.k == "call" and t.a[0].name == "length" and (t.a[0].trait or "").endswith("alloy_rlp::Encodable") and rlpclass.encoder_class(t.a[0]) == k_em.cls and t.a[1] and arg_field(t.a[1][0], "0")]
                vt = [t for t in cterms if t.k == "call" and t.a[0].name == "len" and t.a[1] and arg_field(t.a[1][0], "1")]
                good = ccst == 0 and len(cterms) == 2 and len(kt) == 1 and len(vt) == 1 and k_em.kind == "rlp" and v_em.kind == "raw"
        if not good:
            problems.append("the summation in the header length is not `sum over the whole map of key.length() + value.len()`: %s" % short(sm, 160))
    extra = [short(t, 80) for i, t in enumerate(terms) if i not in used]
    if extra:
        problems.append("the header length has terms that correspond to no emission: %s" % extra)
    return problems
