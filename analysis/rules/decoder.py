"""Model of `<Enr<K> as Decodable>::decode` recovered from MIR: the payload
object, the ordered item-consuming calls, the pair loop, the key dispatch
(partially evaluated per key), the gate and the constructed record.  Shared by
C01, C02, C04, C05, C13."""
import dispatch
import pattern as P
from common import short
from kernel import ok_payload, same_value, strip
from rlpclass import consumer_class, encoder_class

RESERVED = {
    b"id": ("BYTES", None),
    b"ip": ("BYTES", 4),
    b"ip6": ("BYTES", 16),
    b"tcp": ("UINT", 16),
    b"tcp6": ("UINT", 16),
    b"udp": ("UINT", 16),
    b"udp6": ("UINT", 16),
    b"secp256k1": ("BYTES", None),
    b"ed25519": ("BYTES", None),
}
# keys that are not reserved for the decoder: proper prefixes / extensions of
# reserved names, the empty key, and EIP-7636's `client` (typed only by readers)
PROBES = [b"", b"i", b"idx", b"ip4", b"tc", b"tcp7", b"udp66", b"client", b"secp256k", b"ed25519x", b"zz"]


def find_decode(ctx):
    return [f for f in ctx.facts.fns if f.name == "decode" and (f.impl_trait or "").endswith("alloy_rlp::Decodable") and f.impl_self and f.impl_self.get("adt") == "Enr"]


class DecoderModel:
    def __init__(self, ctx, fn):
        self.ctx = ctx
        self.fn = fn
        self.an = ctx.an(fn)
        self.problems = []
        self._build()

    def problem(self, what, sp=None):
        self.problems.append((what, sp))

    def _build(self):
        fn, an = self.fn, self.an
        cfg = an.cfg
        # ---- uses of the input buffer (param 1)
        self.buf_events = []
        evs = an.events(1, True)
        for bb in sorted(evs):
            for ev in evs[bb]:
                self.buf_events.append(ev)
        # the outer header read: a mutcall on buf itself
        self.outer = None
        for ev in self.buf_events:
            if ev["kind"] == "mutcall" and ev["path"] == []:
                t = ev["term"]
                if t.callee and t.callee.name == "decode_bytes" and "Header" in t.callee.fn:
                    if self.outer is None or cfg.dominates(ev["bb"], self.outer["bb"]):
                        self.outer = ev
        if self.outer is None:
            self.problem("no Header::decode_bytes(buf, ..) on the input buffer")
            return
        t = self.outer["term"]
        self.outer_is_list = t.args[1].const_int() if len(t.args) > 1 else None
        # ---- the payload object: local that receives the Ok payload of that call
        self.payload_local = None
        outer_expr = an.call_expr(t, self.outer["bb"])
        self.payload_def = None
        for l, decl in enumerate(fn.locals):
            if l <= fn.arg_count or decl["ty"]["s"] != "&[u8]":
                continue
            d = an.unique_def(l)
            if d is None:
                # `payload = rest;` steps: the defining assignment is the one that dominates the others
                ds = [x for x in an.defs().get(l, []) if x[0] in cfg.succ]
                firsts = [x for x in ds if all(cfg.dominates(x[0], y[0]) for y in ds)]
                d = firsts[0] if len(firsts) == 1 else None
            if d is None or getattr(d[2], "rv", None) is None:
                continue
            e = an.rvalue_expr(d[2].rv, d[0], d[1])
            p = ok_payload(strip(e))
            if p is not None and same_value(p, outer_expr):
                # the one that is mutably borrowed is the cursor (the earliest, if it is handed on by value later)
                if any(ev["kind"] == "mutcall" for evs2 in an.events(l, False).values() for ev in evs2):
                    if self.payload_local is None or cfg.dominates(d[0], self.payload_def[0]) and d[0] != self.payload_def[0]:
                        self.payload_local = l
                        self.payload_def = d
        self.payload_path = []
        if self.payload_local is None:
            # the cursor may be the slice-typed field of a small private struct built around the payload
            # (`struct Cursor<'a> { rest: &'a [u8] }` with reader methods that were spliced in)
            for l, decl in enumerate(fn.locals):
                if l <= fn.arg_count or decl["ty"].get("k") != "adt":
                    continue
                d = an.unique_def(l)
                rv = getattr(d[2], "rv", None) if d is not None else None
                if rv is None or rv.kind != "aggregate" or rv.j.get("agg") != "adt":
                    continue
                e = an.rvalue_expr(rv, d[0], d[1])
                if e.k != "agg" or not isinstance(e.a[1], dict):
                    continue
                for fname, fe in e.a[1].items():
                    p = ok_payload(strip(fe))
                    if p is not None and same_value(p, outer_expr):
                        if any(ev["kind"] == "mutcall" and ev["path"][:1] == [fname] for evs2 in an.events(l, False).values() for ev in evs2):
                            self.payload_local = l
                            self.payload_def = d
                            self.payload_path = [fname]
        if self.payload_local is None:
            self.problem("cannot identify the payload cursor (the slice returned by the outer header read)")
            return
        # ---- the cursor may be handed on by value (`fn pairs(mut payload: &[u8])` inlined): the copy is the cursor from then on
        self.cursor_chain = [self.payload_local]
        grown = not self.payload_path
        while grown and len(self.cursor_chain) < 6:
            grown = False
            last = self.cursor_chain[-1]
            for l, decl in enumerate(fn.locals):
                if l <= fn.arg_count or l in self.cursor_chain or decl["ty"]["s"] != "&[u8]":
                    continue
                d = an.unique_def(l)
                # l = copy/move (.. = copy/move last), through temporaries
                cur, derived = l, False
                for _ in range(6):
                    dd = an.unique_def(cur)
                    rv = getattr(dd[2], "rv", None) if dd is not None else None
                    if rv is not None and rv.kind == "ref" and not rv.j.get("mut") and rv.place.proj == ["deref"]:
                        cur = rv.place.local  # `&*slice`: a reborrow is a copy of a shared slice reference
                    elif rv is None or rv.kind != "use" or rv.ops[0].kind not in ("copy", "move") or not rv.ops[0].place.is_local():
                        break
                    else:
                        cur = rv.ops[0].place.local
                    if cur == last:
                        derived = True
                        break
                if not derived:
                    continue
                if not any(ev["kind"] == "mutcall" for evs2 in an.events(l, False).values() for ev in evs2):
                    continue
                # the previous cursor is dead afterwards
                later = [ev for evs2 in an.events(last, False).values() for ev in evs2 if ev["kind"] in ("mutcall", "readcall", "write") and (cfg.reaches(d[0], ev["bb"]) and ev["bb"] != d[0])]
                if later:
                    continue
                self.cursor_chain.append(l)
                grown = True
                break
        # ---- every event on the payload cursor
        self.pevents = []
        pe = {}
        for n, cl in enumerate(self.cursor_chain):
            for bb, lst in an.events(cl, False).items():
                for ev in lst:
                    if self.payload_path:
                        # the cursor is a field of the local: only events on that field count, seen as events on the cursor itself
                        if ev["path"][:len(self.payload_path)] != self.payload_path:
                            continue
                        ev = dict(ev)
                        ev["path"] = ev["path"][len(self.payload_path):]
                    if n > 0 and ev["kind"] == "def" and not (len(an.defs().get(cl, [])) > 1):
                        continue
                    if n < len(self.cursor_chain) - 1 and ev["kind"] in ("move", "read") :
                        continue
                    pe.setdefault(bb, []).append(ev)
        for bb in pe:
            pe[bb].sort(key=lambda ev: ev["idx"])
        for bb in sorted(pe, key=lambda b: cfg.rpo().index(b) if b in cfg.rpo() else 10**6):
            for ev in pe[bb]:
                if ev["kind"] in ("mutcall", "readcall", "write", "escape", "move", "read", "def"):
                    self.pevents.append(ev)
        # `cursor = cursor.split_at(n).1` / `cursor = &cursor[n..]` steps the cursor like advance(n)
        for ev in self.pevents:
            if ev["kind"] in ("write", "def") and ev["path"] == [] and ev.get("stmt") is not None and not (ev["bb"] == self.payload_def[0] and ev["idx"] == self.payload_def[1]):
                amt = self._step_amount(ev)
                if amt is not None:
                    ev["pseudo"] = ("ADVANCE",)
                    ev["amount"] = amt
        self.consumers = [ev for ev in self.pevents if ev["kind"] == "mutcall" or ev.get("pseudo")]
        # ---- the pair loop
        loops = cfg.loops()
        self.loop_head = None
        self.loop_body = set()
        for head, body in loops.items():
            if any(ev["bb"] in body for ev in self.consumers):
                if self.loop_head is None or len(body) > len(self.loop_body):
                    self.loop_head, self.loop_body = head, body
        if self.loop_head is None:
            self.problem("no loop over the payload")
            return
        self.pre = [ev for ev in self.consumers if ev["bb"] not in self.loop_body]
        self.in_loop = [ev for ev in self.consumers if ev["bb"] in self.loop_body]
        # loop exits: edges from body to outside
        self.loop_exits = []
        for n in self.loop_body:
            for s in cfg.succ[n]:
                if s not in self.loop_body:
                    self.loop_exits.append((n, s))
        # ---- the key of an iteration: first consumer in the loop (dominates the others)
        self.key_ev = None
        for ev in self.in_loop:
            if all(cfg.dominates(ev["bb"], o["bb"]) for o in self.in_loop):
                self.key_ev = ev
        if self.key_ev is None:
            self.problem("no key read dominating the loop body")
            return
        self.key_call = an.call_expr(self.key_ev["term"], self.key_ev["bb"])
        # ---- the content map: the BTreeMap local that receives insert() in the loop
        self.insert_ev = None
        self.content_local = None
        for b, t in fn.calls():
            if b.idx in self.loop_body and t.callee and t.callee.name == "insert" and "BTreeMap" in t.callee.fn:
                tgt = an.operand_target(t.args[0])
                if tgt is not None and tgt[2] is False and tgt[1] == []:
                    self.insert_ev = (b.idx, t)
                    self.content_local = tgt[0]
        if self.insert_ev is None:
            self.problem("no content.insert in the pair loop")
            return
        # ---- dispatch entry: key-related switch dominating the other key-related switches
        cands = []
        for n in sorted(self.loop_body):
            b = fn.blocks[n]
            if b.term.kind != "switch":
                continue
            cond = an.operand_expr(b.term.discr, n, len(b.stmts))
            try:
                v = dispatch.eval_key_cond(cond, self.is_key, b"\x00")
            except dispatch.Unfoldable:
                v = 0
            if v is not None:
                cands.append(n)
        self.dispatch_blocks = cands
        self.dispatch_entry = None
        for c in cands:
            if all(cfg.dominates(c, o) for o in cands):
                self.dispatch_entry = c
        if self.dispatch_entry is None:
            self.problem("no dispatch on the key inside the loop")

    # -- helpers ----------------------------------------------------------
    def _step_amount(self, ev):
        """n if the assignment `cursor = RHS` leaves cursor[n..]: RHS = cursor.split_at(n).1 or &cursor[n..]"""
        from kernel import unmut
        an = self.an
        st = ev["stmt"]
        if st.rv is None:
            return None
        e = unmut(an.rvalue_expr(st.rv, ev["bb"], ev["idx"]))
        base = None
        amt = None
        if e.k == "field" and e.a[1] == "1":
            sp = unmut(e.a[0])
            if sp.k == "call" and sp.a[0].name == "split_at" and len(sp.a[1]) == 2 and sp.a[0].krate in ("core", "alloc", "std"):
                base, amt = sp.a[1][0], sp.a[1][1]
        elif e.k == "call" and e.a[0].name == "index" and len(e.a[1]) == 2:
            r = strip(e.a[1][1])
            if r.k == "agg" and r.a[0].endswith("RangeFrom") and "start" in r.a[1]:
                base, amt = e.a[1][0], r.a[1]["start"]
        if base is None:
            return None
        # the base is the cursor itself
        if self.payload_path and any(x.k == "field" and x.a[1] == self.payload_path[0] and any(y.k == "mutated" and y.a[1] in self.cursor_chain for y in x.walk()) for x in base.walk()):
            return strip(amt)
        if not any(x.k == "mutated" and x.a[1] in self.cursor_chain for x in base.walk()) and not same_value(unmut(base), unmut(an.rvalue_expr(self.payload_def[2].rv, self.payload_def[0], self.payload_def[1]))):
            return None
        return strip(amt)

    def consumer_kind(self, ev):
        if ev.get("pseudo"):
            return ev["pseudo"]
        return consumer_class(ev["term"])

    def advance_amount(self, ev):
        if ev.get("pseudo"):
            return ev["amount"]
        t = ev["term"]
        return strip(self.an.operand_expr(t.args[1], ev["bb"], ev["idx"]))

    def holds_content(self, local, bb, idx):
        """is `local`, at (bb, idx), the map filled by the pair loop (possibly
        moved there through Ok(..)/`?`/plain moves)?"""
        if local == self.content_local:
            return True
        from rules.typestate import value_chain
        ch = value_chain(self.an, bb, idx, local, stop=lambda l: l == self.content_local)
        return bool(ch)

    def is_key(self, e):
        """does e denote the key slice of the current iteration?"""
        es = strip(e)
        p = ok_payload(es)
        if p is None:
            return False
        return same_value(p, self.key_call)

    def leaf_for(self, key):
        leaf, visited = dispatch.fold(self.an, self.dispatch_entry, self.is_key, key)
        return leaf

    def leaf_region(self, leaf):
        """blocks executed for a leaf before the value is stored"""
        cfg = self.an.cfg
        join = self.insert_ev[0]
        return cfg.reach(leaf, avoid=(join,)) & self.loop_body

    def leaf_consumers(self, leaf):
        region = self.leaf_region(leaf)
        return [ev for ev in self.in_loop if ev["bb"] in region and ev is not self.key_ev]

    def describe_leaf(self, leaf):
        """-> dict(cls=..., consumers=[...], stored=expr, checks=[...])"""
        an = self.an
        cons = self.leaf_consumers(leaf)
        classes = []
        for ev in cons:
            classes.append((self.consumer_kind(ev), ev["sp"] if ev.get("pseudo") else ev["term"].sp, ev))
        return classes

    def stored_value_for(self, leaf):
        """the expression stored under the key for this leaf: evaluate the value
        operand of content.insert along the leaf's path"""
        an = self.an
        bb, t = self.insert_ev
        # value operand: look for the local assigned in the leaf region
        val_op = t.args[2]
        e = strip(an.operand_expr(val_op, bb, len(an.fn.blocks[bb].stmts)))
        # peel byte-preserving conversions
        for _ in range(6):
            if e.k == "call" and e.a[0].name in ("from", "into") and e.a[1]:
                e = strip(e.a[1][0])
                continue
            # value handed back through `?` / Ok(..) by an (inlined) helper
            p = ok_payload(e)
            if p is not None:
                e = strip(p)
                continue
            break
        region = self.leaf_region(leaf)
        alts = []

        def flat(x, depth=0):
            x = strip(x)
            if x.k == "phi" and depth < 6:
                for y in x.a[0]:
                    flat(y, depth + 1)
            else:
                alts.append(x)
        flat(e)
        out = []
        for a in alts:
            a = strip(a)
            site = None
            for c in a.walk():
                if c.k == "call" and c.site in region:
                    site = c.site
                    break
            if site is not None:
                out.append(a)
        return out, alts
