"""C14 - typed accessors agree with the raw content."""
from rules import api

EXPLANATION = (
    "Table-driven rules over MIR against the T-API/T-KEYS oracle (EIP-778 / EIP-7636): every typed reader reads exactly its wire key with exactly its class "
    "(ports: get_decodable::<u16>; ip4/ip6: byte string + length guard admitting exactly {4}/{16}; id: byte string; client_info: list of 2 or 3 strings, indexes in "
    "order) and maps failure to None; get_decodable/get_raw_rlp are T::decode of content.get(key); every typed writer (setters, builder methods, socket setters, "
    "client info) stores its argument under the same key with the same class through the RLP encoder, so reader class = writer class per key; socket getters are "
    "exactly Some(new(ipX()?, portX()?)) and None only when a part is None; reachability flags are the disjunction of the two socket getters; set_socket chooses "
    "the address family by the socket's own address. Not decided: per-value exhaustiveness over 65 536 ports / all addresses - that is alloy-rlp's integer codec."
    " Re-uses C07 ONCE (a setter that reports success performed exactly one committed update)."
)
TRUSTED = ["alloy-rlp u16/Bytes/Vec<Bytes> codecs are canonical and mutually inverse (rlpclass.py)"]
ASSUMPTIONS = ["INV-RLP (C05): a stored value is exactly one RLP item, so a class decoder consumes it all"]


def run(ctx, report):
    api.readers_rule(ctx, report, "READ")
    api.writers_rule(ctx, report, "WRITE")
    api.client_info_writers(ctx, report, "CLIENT")
    api.set_socket_rule(ctx, report, "SOCKET")


_own_run = run


def run(ctx, report):
    _own_run(ctx, report)
    from common import Only
    from rules import c07
    # "what a typed setter stores ... reads back as the value set": a setter that reports success stored something
    c07.run(ctx, Only(report, {"ONCE": "ONCE"}))
    # "exactly when the raw RLP stored under the key is the canonical encoding": every stored value is exactly one complete item
    # (validator = decoder row per key, and every content insert is encoder output or validated)
    from rules import c05
    c05._own_run(ctx, Only(report, {"VALID": "VALID", "INV-RLP": "INV-RLP", "BUILD": "KEYED-BUILD"}))

