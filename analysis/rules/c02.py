"""C02 - the decoder accepts exactly the well-formed records."""
import pattern as P
import rlpclass
from common import short
from kernel import ok_payload, same_value, strip
from rules import c09
from rules.decoder import PROBES, RESERVED, DecoderModel, find_decode

EXPLANATION = (
    "Each conjunct of the stated acceptance condition is decided on the MIR of decode, path-completely: item-size guard admitting exactly [0,300]; "
    "reader skeleton LIST header, signature BYTES, seq UINT64 in dominance order; the pair loop leaves towards Ok only on `payload is empty`; every "
    "iteration reads a BYTES key and continues only when cmp(prev,key) is in exactly {Less} with prev := Some(key) afterwards; the key dispatch, "
    "partially evaluated for each of the 9 reserved keys and 11 non-reserved probes (prefixes/extensions of reserved names), consumes exactly one item "
    "of the class EIP-778 assigns (too strict and too lenient both reported); `id` is compared with \"v4\"; K::enr_to_public(&content)? and the signature "
    "gate dominate Ok; the payload cursor is only touched by alloy-rlp decoders or by a length taken from a decoded header. Not decided: the `if` "
    "direction as a whole (no reference decoder is evaluated) and alloy-rlp's own canonicality checks."
)
TRUSTED = ["alloy-rlp 0.3.16 decoders accept only canonical items of their class and advance exactly (rlpclass.py transcribes the classes)"]
ASSUMPTIONS = ["T-KEYS oracle transcribed from EIP-778: id=BYTES 'v4', ip=BYTES(4), ip6=BYTES(16), tcp/tcp6/udp/udp6=UINT16, secp256k1/ed25519=BYTES"]

CMP_TRUE = {"ge": {"Equal", "Greater"}, "gt": {"Greater"}, "le": {"Less", "Equal"}, "lt": {"Less"}, "eq": {"Equal"}, "ne": {"Less", "Greater"}}
ALL_ORD = {"Less", "Equal", "Greater"}
FLIP = {"Less": "Greater", "Greater": "Less", "Equal": "Equal"}


def ok_sites(an):
    out = []
    for bb, idx, node in an.defs().get(0, []):
        rv = getattr(node, "rv", None)
        if rv is not None and rv.kind == "aggregate" and rv.j.get("variant") == "Ok" and bb in an.cfg.succ:
            out.append((bb, idx, node))
    return out


def leads_to_ok(an, bb, oks):
    r = an.cfg.reach(bb)
    return any(o[0] in r for o in oks)


def run(ctx, report):
    cfg = ctx.config
    decs = find_decode(ctx)
    if not decs:
        report.violate("ANCHOR", "decode", "anchor <Enr as Decodable>::decode not found", config=cfg)
        return
    c09.decoder_guard(ctx, report)  # R1 (recorded under rule DECODE)
    decode_public_rule(ctx, report)
    for f in decs:
        report.analysed_fns.add(f.path)
        m = DecoderModel(ctx, f)
        if m.problems:
            for what, sp in m.problems:
                report.violate("MODEL", "decode/model", "cannot recover the decoder's structure: " + what, fn=f.path, sp=sp or f.span, config=cfg)
            continue
        an = m.an
        g = an.cfg
        oks = ok_sites(an)
        report.check("MODEL", "decode/ok-site", len(oks) >= 1, "decode has an Ok exit", fn=f.path, sp=f.span, config=cfg)

        # ---- R2 skeleton
        ok = m.outer_is_list == 1
        report.check("SKEL", "outer-list", ok, "the outer item is read with Header::decode_bytes(buf, true)", "the outer item is not required to be a list", fn=f.path, sp=m.outer["sp"], config=cfg)
        classes = [rlpclass.consumer_class(ev["term"]) for ev in m.pre]
        order_ok = len(m.pre) == 2 and g.dominates(m.pre[0]["bb"], m.pre[1]["bb"]) and all(g.dominates(ev["bb"], m.loop_head) for ev in m.pre)
        report.check("SKEL", "sig-then-seq", classes == [("BYTES", None), ("UINT", 64)] and order_ok,
                     "before the pairs exactly a BYTES item (signature) then a UINT64 item (seq) are read",
                     "items read before the pair loop are %s (expected BYTES(*), UINT64 in that order)" % [rlpclass.fmt(c) for c in classes],
                     fn=f.path, sp=m.pre[0]["sp"] if m.pre else f.span, config=cfg)
        # each pre item's failure leaves (its Continue edge dominates what follows)
        for ev, nm in zip(m.pre, ("signature", "seq")):
            r = an.call_expr(ev["term"], ev["bb"])
            nxt = m.loop_head
            good = False
            for d, cond, allowed, alll in an.constraints_at(nxt):
                if cond.k == "discr":
                    c = strip(cond.a[0])
                    if c.k == "call" and c.a[0].name == "branch" and c.a[1] and same_value(c.a[1][0], r) and allowed <= {"Continue"}:
                        good = True
                    if same_value(c, r) and allowed <= {"Ok"}:
                        good = True
            report.check("SKEL", "%s-required" % nm, good, "a failing %s read leaves decode with an error" % nm, "the result of reading %s is not checked before continuing" % nm, fn=f.path, sp=ev["sp"], config=cfg)

        # ---- R3 loop exit
        bad_exits = []
        n_good = 0
        for (n, s) in m.loop_exits:
            if not leads_to_ok(an, s, oks):
                continue  # error exit
            info = an.switch_info(n)
            good = False
            if info is not None:
                cond, targets, otherwise, names = info
                c = strip(cond)
                lab = [v for v, tb in targets if tb == s] + (["otherwise"] if otherwise == s else [])
                if c.k == "call" and c.a[0].name == "is_empty" and c.a[1] and is_payload(m, c.a[1][0]) and lab == ["otherwise"]:
                    good = True
                # `while payload.len() > 0`, `!= 0`
                if not good and len(lab) == 1:
                    import guards
                    from rules.typestate import const_int
                    r = guards.edge_set(cond, lab[0], const_int)
                    if r is not None:
                        q, sset = r
                        qs = strip(q)
                        if qs.k == "call" and qs.a[0].name == "len" and qs.a[1] and is_payload(m, qs.a[1][0]) and sset == [(0, 0)]:
                            good = True
            if good:
                n_good += 1
            else:
                bad_exits.append(f.blocks[n].term.sp)
        report.check("LOOP", "exit-only-when-empty", not bad_exits and n_good >= 1,
                     "the pair loop is left towards Ok only when the payload is exhausted",
                     "the pair loop can be left towards Ok while items remain (exit at %s)" % bad_exits if bad_exits else "no `payload is empty` exit found",
                     fn=f.path, sp=f.blocks[m.loop_head].term.sp, config=cfg)

        # ---- R4 keys: BYTES, strictly increasing
        kc = rlpclass.consumer_class(m.key_ev["term"])
        report.check("KEYS", "key-is-bytes", kc == ("BYTES", None), "every key is read as a byte string", "keys are read as %s" % rlpclass.fmt(kc), fn=f.path, sp=m.key_ev["sp"], config=cfg)
        ordering(ctx, report, m, f)

        # ---- R5 typing per key
        rows = {}
        for key, want in list(RESERVED.items()) + [(p, ("ITEM",)) for p in PROBES]:
            leaf = m.leaf_for(key)
            cl = m.describe_leaf(leaf)
            got, why = leaf_class(m, cl)
            rows[key] = got
            kname = key.decode() or "<empty>"
            okc = got == want
            report.check("TYPE", "key:%s" % kname, okc,
                         "decoder reads the value of key %r as exactly one %s" % (kname, rlpclass.fmt(want)),
                         "decoder reads the value of key %r as %s%s; EIP-778 says %s" % (kname, rlpclass.fmt(got) if got else "nothing", (" (%s)" % why) if why else "", rlpclass.fmt(want)),
                         fn=f.path, sp=cl[0][1] if cl else f.blocks[leaf].term.sp, config=cfg)
        # ---- R6 id == v4
        id_check(ctx, report, m, f)
        rejections_rule(ctx, report, m, f)
        # ---- R7 public key of the record's type
        good = False
        for b, t in f.calls():
            if t.callee and t.callee.name == "enr_to_public" and (t.callee.trait or "").endswith("EnrKey"):
                tgt = an.operand_target(t.args[0])
                if tgt is not None and tgt[2] is False and m.holds_content(tgt[0], b.idx, len(b.stmts)) and tgt[1] == [] and all(g.dominates(b.idx, o[0]) for o in oks) and b.idx not in m.loop_body:
                    # and its failure exits
                    r = an.call_expr(t, b.idx)
                    for o in oks:
                        for d, cond, allowed, alll in an.constraints_at(o[0]):
                            if cond.k == "discr":
                                c = strip(cond.a[0])
                                if c.k == "call" and c.a[0].name == "branch" and c.a[1] and same_value(c.a[1][0], r) and allowed <= {"Continue"}:
                                    good = True
                                if same_value(c, r) and allowed <= {"Ok"}:
                                    good = True
        report.check("PUBKEY", "enr_to_public-required", good, "Ok requires K::enr_to_public(&content) to succeed on the decoded map",
                     "decode can return Ok without a valid public key of the record's key type in the decoded content", fn=f.path, sp=f.span, config=cfg)
        # ---- signature gate (C01.R1) is required too
        from rules.c01 import gate_rule
        gate_rule(ctx, report, f, rule="GATE")
        # ---- R8 only canonical framing is consumed
        bad = []
        for ev in m.pevents:
            if ev["kind"] == "mutcall":
                c = rlpclass.consumer_class(ev["term"])
                if c[0] == "UNKNOWN":
                    bad.append((ev["sp"], c[1]))
            elif ev.get("pseudo"):
                continue  # a step `cursor = cursor.split_at(n).1` / `&cursor[n..]`: its amount is checked with the leaf (HEADER + ADVANCE)
            elif ev["kind"] in ("write", "escape", "move"):
                bad.append((ev["sp"], ev["kind"]))
            elif ev["kind"] == "readcall":
                t = ev["term"]
                if not (t.callee and t.callee.name in ("is_empty", "len")):
                    bad.append((ev["sp"], t.callee.full if t.callee else "?"))
        report.check("FRAMING", "payload-only-via-alloy", not bad, "the payload cursor is advanced only by alloy-rlp decoders (%d sites)" % len(m.consumers),
                     "the payload is parsed by hand or escapes: %s" % bad, fn=f.path, sp=f.span, config=cfg)


STRICT_KEY_PARSERS = {
    "k256": ("from_sec1_bytes",),
    "rust-secp256k1": ("from_slice",),
    "ed25519": ("try_from", "from_bytes"),
}


def decode_public_rule(ctx, report):
    """the public-key entry is valid exactly when the library's strict parser
    accepts the *whole* byte string"""
    from rules.c01 import ret_exprs
    from rules.c10 import backend_name
    cfg = ctx.config
    fns = [f for f in ctx.facts.fns if f.kind == "AssocFn" and f.name == "decode_public" and (f.impl_trait or "").endswith("EnrKeyUnambiguous")]
    feats = set(ctx.facts.features)
    want = ("k256" in feats) + ("rust-secp256k1" in feats) + ("ed25519" in feats)
    report.check("FLOOR", "decode_public-impls", len(fns) == want, "one decode_public per single-scheme back-end (%d)" % want, "expected %d decode_public impls, found %d" % (want, len(fns)), config=cfg)
    for f in fns:
        report.analysed_fns.add(f.path)
        bn = backend_name(f.impl_self["s"])
        an = ctx.an(f)
        names = STRICT_KEY_PARSERS.get(bn, ())
        bad_arg = []

        def is_parser(c):
            if c.a[0].name in names and c.a[1] and not c.a[0].local:
                arg = strip(c.a[1][-1])
                if arg.k == "param" and arg.a[0] == 1:
                    return True
                bad_arg.append("the library parser is given %s, not the whole entry" % short(arg, 120))
            return False
        from kernel import result_passthrough
        n, problems = result_passthrough(an, ret_exprs(an), is_parser)
        problems = bad_arg + problems
        report.check("PUBKEY", "decode_public/" + bn, not problems and n >= 1,
                     "%s::decode_public is the library's strict key parser applied to the whole entry" % bn,
                     "%s::decode_public: %s" % (bn, "; ".join(problems) or "never calls the library parser"), fn=f.path, sp=f.span, config=cfg)


def is_payload(m, e):
    """does e denote the payload cursor's current slice?"""
    an = m.an
    cur = e
    for _ in range(6):
        if cur.k in ("ref", "deref"):
            cur = cur.a[0]
            continue
        break
    # the payload local's definition is the Ok payload of the outer call
    d = getattr(m, "payload_def", None) or an.unique_def(m.payload_local)
    if d is None:
        return False
    # the cursor is a field of a private cursor struct
    pp = getattr(m, "payload_path", [])
    cs = strip(cur)
    if pp:
        if cs.k == "field" and cs.a[1] == pp[0]:
            b0 = strip(cs.a[0])
            if b0.k == "mutated" and b0.a[1] in getattr(m, "cursor_chain", []):
                return True
        return False
    dexpr = an.rvalue_expr(d[2].rv, d[0], d[1])
    if same_value(cur, dexpr):
        return True
    # the current value of the cursor local itself (a cursor that is stepped by re-assignment has several definitions)
    if cs.k == "mutated" and cs.a[1] in getattr(m, "cursor_chain", []):
        return True
    # a later cursor of the chain (the slice handed on by value) denotes the same payload
    from kernel import unmut
    return len(getattr(m, "cursor_chain", [])) > 1 and same_value(unmut(cur), unmut(dexpr))


def leaf_class(m, cl):
    """combine the consumers of a leaf into the class of the one item read"""
    an = m.an
    kinds = [c for c, sp, ev in cl]
    if len(kinds) == 1 and kinds[0][0] in ("UINT", "BYTES", "UTF8", "LIST", "BOOL"):
        return kinds[0], None
    if len(kinds) == 2 and kinds[0] == ("HEADER",) and kinds[1] == ("ADVANCE",):
        hdr_ev, adv_ev = cl[0][2], cl[1][2]
        hexpr = an.call_expr(hdr_ev["term"], hdr_ev["bb"])
        amount = m.advance_amount(adv_ev)
        if amount.k == "field" and amount.a[1] == "payload_length":
            src = ok_payload(strip(amount.a[0]))
            if src is not None and same_value(src, hexpr) and an.cfg.dominates(hdr_ev["bb"], adv_ev["bb"]):
                return ("ITEM",), None
        return None, "advance by %s is not the decoded header's payload_length" % short(amount)
    if not kinds:
        return None, "no item is consumed"
    return None, "consumes %s" % [rlpclass.fmt(k) for k in kinds]


def map_maximum(m, o):
    """is o the largest key of the decoder's content map:
    `content.last_key_value()` -> Some((k, _)) -> k"""
    cur = o
    path = []
    for _ in range(6):
        cur = strip(cur)
        if cur.k == "field":
            path.append(str(cur.a[1]))
            cur = cur.a[0]
            continue
        if cur.k == "vfield":
            path.append("as " + str(cur.a[1]))
            cur = cur.a[0]
            continue
        break
    cur = strip(cur)
    if not (cur.k == "call" and cur.a[0].name == "last_key_value" and "BTreeMap" in cur.a[0].fn and cur.a[1]):
        return False
    # (X as Some).0 is the (key, value) tuple, its .0 the key
    if path != ["0", "as Some"]:  # (X as Some) is the (key, value) tuple, .0 the key
        return False
    recv = cur.a[1][0]
    for _ in range(4):
        recv = strip(recv)
        if recv.k in ("ref", "deref"):
            recv = recv.a[0]
            continue
        break
    recv = strip(recv)
    return recv.k == "mutated" and m.content_local is not None and recv.a[1] == m.content_local


def ordering(ctx, report, m, f):
    cfg = ctx.config
    an = m.an
    g = an.cfg
    found = None
    via_map = False
    for b, t in f.calls():
        if b.idx not in m.loop_body or t.callee is None:
            continue
        c = t.callee
        if c.name in CMP_TRUE and ((c.trait or "").endswith("PartialOrd") or (c.trait or "").endswith("PartialEq")) and len(t.args) == 2:
            a0 = an.operand_expr(t.args[0], b.idx, len(b.stmts))
            a1 = an.operand_expr(t.args[1], b.idx, len(b.stmts))
            if m.is_key(a1) and not m.is_key(a0):
                found = (b.idx, t, a0, False)
            elif m.is_key(a0) and not m.is_key(a1):
                found = (b.idx, t, a1, True)
            if found:
                # the other side must be the Some payload of a loop-carried local,
                # or the largest key of the map every accepted key is stored in
                o = strip(found[2])
                if map_maximum(m, o):
                    via_map = True
                    break
                if not (o.k == "vfield" and o.a[1] == "Some"):
                    found = None
                else:
                    break
    sw_override = None
    if found is None:
        # `prev.map_or(true, |p| p < key)` / `prev.is_none_or(|p| p < key)`: the comparison lives in a closure applied to the
        # Some payload of the carried option; no previous key counts as "in order"
        import closures
        from kernel import E, closure_of
        for b, t in f.calls():
            if b.idx not in m.loop_body or t.callee is None or t.callee.name not in ("map_or", "is_none_or", "is_some_and") or "Option" not in (t.callee.fn or ""):
                continue
            args = [an.operand_expr(a, b.idx, len(b.stmts)) for a in t.args]
            if t.callee.name == "map_or":
                if len(args) != 3 or not (strip(args[1]).k == "const" and strip(args[1]).a[0] == 1):
                    continue
                clx = args[2]
            else:
                if len(args) != 2:
                    continue
                clx = args[1]
            cl = closure_of(clx)
            body = closures.closure_return(ctx, cl[0], cl[1], [E("closure-arg")]) if cl else None
            if not body or len(body) != 1:
                continue
            cb = strip(body[0])
            if not (cb.k == "call" and cb.a[0].name in CMP_TRUE and len(cb.a[1]) == 2):
                continue
            s0, s1 = cb.a[1]
            isarg = lambda x: any(y.k == "closure-arg" for y in x.walk())  # noqa: E731
            if isarg(s0) and m.is_key(s1) and not isarg(s1):
                fl = False
            elif isarg(s1) and m.is_key(s0) and not isarg(s0):
                fl = True
            else:
                continue

            class _T:
                pass
            tt = _T()
            tt.callee = cb.a[0]
            tt.target = t.target
            tt.sp = t.sp
            found = (b.idx, tt, E("vfield", args[0], "Some", 0), fl)
            # the boolean may be tested further on (handed to a spliced-in `ensure(cond, msg)`): find the switch on this call's value
            for n_ in sorted(m.loop_body):
                inf = an.switch_info(n_)
                if inf is None:
                    continue
                c_ = inf[0]
                while c_.k == "unop" and c_.a[0] == "Not":
                    c_ = strip(c_.a[1])
                c_ = strip(c_)
                if c_.k == "call" and c_.site == b.idx and c_.a[0].name == t.callee.name:
                    sw_override = n_
            break
    if found is None:
        report.violate("KEYS", "strictly-increasing", "no comparison between the previous key and the current key is made in the pair loop: unsorted and duplicate keys are accepted", fn=f.path, sp=m.key_ev["sp"], config=cfg)
        return
    bb, t, other, flipped = found
    # edges of the switch on the comparison result
    sw = sw_override if sw_override is not None else t.target
    info = an.switch_info(sw)
    cont = None
    if info is not None:
        cond, targets, otherwise, names = info
        truth = {}
        neg = False
        c = cond
        if c.k == "unop" and c.a[0] == "Not":
            neg = True
        for v, tb in targets:
            truth[tb] = bool(v) != neg
        truth.setdefault(otherwise, (not neg) if all(v == 0 for v, _ in targets) else None)
        cont = set()
        for tb, tv in truth.items():
            if tv is None:
                cont = None
                break
            # continuing edge = reaches the value read of this iteration (tracking
            # boolean temporaries such as the one `matches!` introduces)
            from kernel import feasible_reach
            if m.dispatch_entry in feasible_reach(an, tb):
                s = CMP_TRUE[t.callee.name] if tv else ALL_ORD - CMP_TRUE[t.callee.name]
                if flipped:
                    s = {FLIP[x] for x in s}
                cont |= s
    ok = cont == {"Less"}
    report.check("KEYS", "strictly-increasing", ok, "an iteration continues only when cmp(previous key, key) is exactly Less",
                 "the iteration continues when cmp(previous key, key) is in %s; must be exactly {Less} (sorted, no duplicates)" % (sorted(cont) if cont is not None else "?"),
                 fn=f.path, sp=t.sp, config=cfg)
    if via_map:
        # key > max(keys stored so far) >= previous key, provided every iteration that continues stores its own key in that map
        bbi, ti = m.insert_ev
        kexpr = strip(an.operand_expr(ti.args[1], bbi, len(f.blocks[bbi].stmts)))
        k_ok = kexpr.k == "call" and kexpr.a[0].name in ("to_vec", "into", "to_owned", "from") and kexpr.a[1] and m.is_key(kexpr.a[1][0])
        latches = [n for n in m.loop_body if m.loop_head in g.succ[n]]
        uncond = bool(latches) and all(g.dominates(bbi, tl) for tl in latches)
        report.check("KEYS", "prev-updated", bool(k_ok and uncond), "every iteration stores its key in the map whose largest key the next one is compared with",
                     "the key is compared with the largest key of the content map, but not every accepted key is stored there under itself", fn=f.path, sp=t.sp, config=cfg)
        return
    # prev := Some(key) on the way to the next iteration
    o = strip(other)
    prev_expr = o.a[0]
    # find the loop-carried local: assignments `X = Some(key)` inside the loop dominating the insert
    good = False
    for b in f.blocks:
        if b.idx not in m.loop_body:
            continue
        for i, s in enumerate(b.stmts):
            if s.kind == "assign" and s.place.is_local() and s.rv.kind in ("use", "aggregate"):
                e = strip(an.rvalue_expr(s.rv, b.idx, i))
                if e.k == "agg" and e.a[0].endswith("Option::Some") and m.is_key(e.a[1]["0"]):
                    # is this local the one tested?
                    tested = an.local_expr(s.place.local, bb, 0)
                    if g.dominates(b.idx, m.insert_ev[0]) and (tested.k == "phi" or True):
                        if same_value(strip(an.local_expr(s.place.local, bb, 0)), strip(prev_expr)) or repr(strip(an.local_expr(s.place.local, bb, 0))) == repr(strip(prev_expr)):
                            good = True
    if not good:
        # `match prev.replace(key) { Some(p) if p >= key => .., _ => {} }`: Option::replace stores Some(key) and hands back the
        # previous content, which is what the comparison then looks at
        pe = strip(prev_expr)
        if pe.k == "call" and pe.a[0].name == "replace" and "Option" in (pe.a[0].fn or "") and len(pe.a[1]) == 2 and m.is_key(pe.a[1][1]) and pe.site in m.loop_body and g.dominates(pe.site, m.insert_ev[0]):
            tgt = None
            for b2, t2 in f.calls():
                if b2.idx == pe.site and t2.callee and t2.callee.name == "replace":
                    tgt = an.operand_target(t2.args[0])
            # the option it replaces is a local that lives across iterations (defined before the loop)
            if tgt is not None and tgt[1] == [] and tgt[2] is False and any(d[0] not in m.loop_body for d in an.defs().get(tgt[0], [])):
                good = True
    report.check("KEYS", "prev-updated", good, "the previous key is set to the current key in every iteration",
                 "the key remembered for the ordering check is not updated to the current key on every iteration", fn=f.path, sp=t.sp, config=cfg)


def rejections_rule(ctx, report, m, f):
    """REJECT: the decoder refuses nothing the specification accepts.  Every
    explicit `Err(..)` exit of decode (its private helpers spliced in) is taken
    only under one of the conditions EIP-778 / the statement names: the item is
    larger than 300 bytes; the payload is exhausted where an item must follow;
    the keys are out of order (the comparison KEYS decides); an id other than
    v4; verify() is false; or a library/inner call has failed (the Err edge of a
    Result, or an error converted from it).  Anything else - including one of
    these tests with the wrong polarity - can refuse a valid record."""
    import guards
    from rules.c01 import ret_exprs
    from rules.typestate import const_int
    cfg = ctx.config
    an = m.an
    try:
        gs, _outer = c09.decoder_item_guards(ctx, f)
    except Exception:
        gs = []
    gnodes = {n: labs for (n, labs, form, gsp) in gs if form in ("consumed", "whole-buffer", "header+payload")}

    def alts(e, depth=0):
        e = strip(e)
        if e.k == "phi" and depth < 8:
            for a in e.a[0]:
                yield from alts(a, depth + 1)
        else:
            yield e

    def has_call(e):
        return any(x.k == "call" and (x.a[0].local or x.a[0].krate not in ("core", "std", "alloc") or x.a[0].name in ("decode", "decode_bytes", "try_from", "try_into", "from_utf8", "parse")) for x in e.walk())
    n_explicit = 0
    bad = []
    for bb, idx, e, node in ret_exprs(an):
        for es in alts(e):
            if not (es.k == "agg" and es.a[0].endswith("Result::Err")):
                continue
            n_explicit += 1
            why_ok = None
            if has_call(es):
                why_ok = "converted from a failed call"
            for d, cond, allowed, alll in an.constraints_at(bb):
                if why_ok:
                    break
                if d in gnodes:
                    aset = []
                    for lab in allowed:
                        aset = guards._norm(aset + gnodes[d].get(lab, [(0, guards.INF)]))
                    if not any(lo <= 300 and hi >= 0 and max(lo, 0) <= min(hi, 300) for lo, hi in aset):
                        why_ok = "size"
                    continue
                c = strip(cond)
                if c.k == "discr":
                    if allowed and allowed <= {"Err", "Break"} and has_call(c.a[0]):
                        why_ok = "failed call"
                    continue
                neg = False
                c0 = c
                while c0.k == "unop" and c0.a[0] == "Not":
                    neg = not neg
                    c0 = strip(c0.a[1])
                true_edge = ("otherwise" in allowed or 1 in allowed) and 0 not in allowed
                false_edge = allowed == {0}
                holds = (true_edge and not neg) or (false_edge and neg)
                fails = (false_edge and not neg) or (true_edge and neg)
                if c0.k != "call":
                    r = guards.constraint_set(cond, allowed, const_int, strip)
                    if r is not None:
                        qs = strip(r[0])
                        if qs.k == "call" and qs.a[0].name == "len" and qs.a[1] and is_payload(m, qs.a[1][0]) and r[1] == [(0, 0)]:
                            why_ok = "payload exhausted"
                    continue
                nm = c0.a[0].name
                if nm == "is_empty" and c0.a[1] and is_payload(m, c0.a[1][0]):
                    if holds:
                        why_ok = "payload exhausted"
                elif nm in CMP_TRUE and len(c0.a[1]) == 2 and (m.is_key(c0.a[1][0]) != m.is_key(c0.a[1][1])) and not any(strip(x).k == "const" for x in c0.a[1]):
                    why_ok = "key order"  # exactness of the continuing set is rule KEYS
                elif nm in ("eq", "ne") and len(c0.a[1]) == 2 and any(strip(x).k == "const" and strip(x).a[0] in (b"v4", "v4") for x in c0.a[1]):
                    if (nm == "eq" and fails) or (nm == "ne" and holds):
                        why_ok = "id is not v4"
                elif nm == "verify" and c0.a[0].local:
                    if fails:
                        why_ok = "signature gate"
                else:
                    r = guards.constraint_set(cond, allowed, const_int, strip)
                    if r is not None:
                        qs = strip(r[0])
                        if qs.k == "call" and qs.a[0].name == "len" and qs.a[1] and is_payload(m, qs.a[1][0]) and r[1] == [(0, 0)]:
                            why_ok = "payload exhausted"
            if why_ok is None and id_probe_excludes(m, an, bb):
                why_ok = "id is not v4 (unreachable for the value v4)"
            if why_ok is None:
                bad.append(getattr(node, "sp", None) or "bb%d" % bb)
    report.check("REJECT", "decode/only-justified", not bad,
                 "each of decode's %d explicit rejections is taken only when the item is too large, the payload is exhausted, the keys are out of order, the id is not v4, the signature does not verify, or a library call failed" % n_explicit,
                 "decode has a rejection that none of the specification's conditions justifies (or one of them with the polarity reversed): valid records can be refused (at %s)" % sorted(set(map(str, bad))),
                 fn=f.path, sp=f.span, config=cfg)


def id_probe_excludes(m, an, bb):
    """a rejection inside the `id` arm that cannot be reached when the value read is exactly b"v4" (a slice pattern
    `id @ b"v4"` compares the length and then byte by byte; the `_` arm is the join of all mismatches): walk the arm
    with every test on the value folded for b"v4" and see whether the rejection is still reachable"""
    import dispatch
    try:
        leaf = m.leaf_for(b"id")
        region = m.leaf_region(leaf)
        cl = m.describe_leaf(leaf)
    except Exception:
        return False
    if not cl or bb not in an.cfg.reach(leaf) or bb in m.loop_body and bb not in region and any(bb in m.leaf_region(m.leaf_for(k)) for k in (b"tcp", b"ip", b"zz")):
        return False
    idcall = an.call_expr(cl[0][2]["term"], cl[0][2]["bb"])

    def is_val(e):
        e = strip(e)
        for _ in range(4):
            if e.k in ("ref", "deref"):
                e = strip(e.a[0])
        p = ok_payload(e)
        return p is not None and same_value(p, idcall)
    fn = an.fn
    seen = set()
    stack = [leaf]
    while stack:
        n = stack.pop()
        if n in seen or n == m.loop_head:
            continue
        seen.add(n)
        t = fn.blocks[n].term
        succ = list(an.cfg.succ.get(n, []))
        if t.kind == "switch":
            cond = an.operand_expr(t.discr, n, len(fn.blocks[n].stmts))
            try:
                v = dispatch.eval_key_cond(cond, is_val, b"v4")
            except dispatch.Unfoldable:
                v = None
            if v is not None:
                v = int(v)
                tgt = None
                for val, tb in t.targets:
                    if val == v:
                        tgt = tb
                succ = [tgt if tgt is not None else t.otherwise]
        stack.extend(x for x in succ if x is not None)
    return bb not in seen


def id_check(ctx, report, m, f):
    cfg = ctx.config
    an = m.an
    leaf = m.leaf_for(b"id")
    region = m.leaf_region(leaf)
    cl = m.describe_leaf(leaf)
    good = False
    if cl:
        val = an.call_expr(cl[0][2]["term"], cl[0][2]["bb"])
        for n in sorted(region):
            b = f.blocks[n]
            t = b.term
            if t.kind == "call" and t.callee and t.callee.name in ("eq", "ne") and len(t.args) == 2:
                a0 = strip(an.operand_expr(t.args[0], n, len(b.stmts)))
                a1 = strip(an.operand_expr(t.args[1], n, len(b.stmts)))
                sides = [a0, a1]
                lit = [x for x in sides if x.k == "const" and x.a[0] == b"v4"]
                dec = [x for x in sides if ok_payload(x) is not None and same_value(ok_payload(x), val)]
                if lit and dec:
                    # mismatch edge must not reach the insert
                    info = an.switch_info(t.target)
                    if info is not None:
                        cond, targets, otherwise, names = info
                        neg = cond.k == "unop" and cond.a[0] == "Not"
                        for v, tb in list(targets) + [("otherwise", otherwise)]:
                            is_true = (v != 0) if v != "otherwise" else all(x == 0 for x, _ in targets)
                            equal = is_true if t.callee.name == "eq" else (not is_true)
                            if neg:
                                equal = not equal
                            if not equal and m.insert_ev[0] in an.cfg.reach(tb, avoid=(t.target,)):
                                break
                        else:
                            good = True
    if not good:
        # the signature gate implies it when verify() insists on id == "v4"
        from common import Report
        from rules.c01 import gate_rule, verify_rule
        scratch = Report("scratch")
        gate_rule(ctx, scratch, f)
        if verify_rule(ctx, scratch) and not scratch.violations:
            good = True
    report.check("ID", "id-is-v4", good, "the value of `id` is compared with \"v4\" (where it is read, or by the verify() gate) and any other value is rejected",
                 "a record whose `id` is not \"v4\" is not rejected where the value is read", fn=f.path, sp=cl[0][1] if cl else f.span, config=cfg)


_own_run = run


def run(ctx, report):
    _own_run(ctx, report)
    from common import Only
    from rules import c01
    # "a public key of the record's key type": which entry each key type reads (CombinedKey: secp256k1, else ed25519)
    c01.pubkey_rule(ctx, Only(report, {"PUBKEY": "PUBKEY"}))
    # "a valid signature": the gate compares against rlp_content(); a valid record is accepted only if that is
    # the EIP-778 content encoding [seq, k, v, ...] with a correct list header
    c01._own_run(ctx, Only(report, {"PAYLOAD": "PAYLOAD", "NOLAUNDER": "NOLAUNDER", "VERIFYV4": "VERIFYV4"}))
    # the outcome of a call is decided by its arguments: no static carries state from one call to the next
    from rules.purity import hidden_state
    hidden_state(ctx, report)

