"""C10 - node id = keccak256(uncompressed public key) and nothing else."""
import pattern as P
import shapes
from common import short
from kernel import ok_payload, same_value, strip
from rules import mutators
from rules.typestate import TOP, pubkey_of

EXPLANATION = (
    "Expression-shape rules over MIR origin trees plus the record typestate: NodeId::from(pk) is parse/new of digest(pk.encode_uncompressed()) "
    "with digest = Keccak256 over the whole argument copied into [u8;32]; each back-end's encode_uncompressed has the stated shape (k256: x into "
    "[..32], y into [32..] of a 64-byte array; libsecp256k1: serialize_uncompressed()[1..] into 64 bytes; ed25519: the 32-byte key; CombinedPublicKey: "
    "delegation to the matching variant); every write of a node_id field (build, decode, clone, 5 mutators) is NodeId::from of the very key that is "
    "stored in / read from the same object's content. Not decided: curve decompression and Keccak arithmetic (library)."
)
TRUSTED = ["sha3 Keccak256 and the curve libraries compute what their names say"]
ASSUMPTIONS = []


def is_enr_pubkey_impl(f, name):
    return f.kind == "AssocFn" and f.name == name and (f.impl_trait or "").endswith("EnrPublicKey")


def run(ctx, report):
    cfg = ctx.config
    facts = ctx.facts

    # ---- NodeId::from(public key)
    froms = [f for f in facts.fns if f.name == "from" and f.path.startswith("<node_id::NodeId as std::convert::From<T>>")]
    report.check("FROM", "anchor", len(froms) == 1, "impl From<T: EnrPublicKey> for NodeId found", "anchor `impl<T: EnrPublicKey> From<T> for NodeId` not found", config=cfg)
    D = P.call(target="digest", args=[P.call(name="encode_uncompressed", trait="EnrPublicKey", args=[P.param(1)])])
    shape = P.either(
        P.call(name=("expect", "unwrap"), args=None),
        P.call(name="new", full="NodeId", args=[D]),
        P.agg("NodeId", {"raw": D}),
    )
    for f in froms:
        report.analysed_fns.add(f.path)
        an = ctx.an(f)
        rets = an.defs().get(0, [])
        ok = len(rets) == 1
        why = "%d return assignments" % len(rets)
        if ok:
            bb, idx, node = rets[0]
            e = an.call_expr(node, bb) if getattr(node, "rv", None) is None else an.rvalue_expr(node.rv, bb, idx)
            es = strip(e)
            ok = False
            if es.k == "call" and es.a[0].name in ("expect", "unwrap") and es.a[1]:
                inner = strip(es.a[1][0])
                ok = P.match(inner, P.call(name="parse", full="NodeId", args=[D])) is not None
            elif P.match(es, P.either(P.call(name="new", full="NodeId", args=[D]), P.agg("NodeId", {"raw": D}))) is not None:
                ok = True
            why = short(e, 400)
        report.check("FROM", "NodeId::from", ok, "NodeId::from(pk) = NodeId(digest(pk.encode_uncompressed())) with nothing in between",
                     "NodeId::from(pk) is not exactly the digest of pk.encode_uncompressed(): " + why, fn=f.path, sp=f.span, config=cfg)

    # ---- digest = keccak256 of the whole input
    f = facts.fn("digest")
    if f is None:
        report.violate("DIGEST", "digest", "anchor fn digest not found", config=cfg)
    else:
        report.analysed_fns.add(f.path)
        an = ctx.an(f)
        ok, why = False, "unrecognised shape"
        rets = an.defs().get(0, [])
        KECC = P.call(name="digest", full="Keccak256", args=[P.param(1)])
        if len(rets) == 1 and getattr(rets[0][2], "rv", None) is not None and rets[0][2].rv.kind == "use":
            from rules.typestate import trace_local
            buf = trace_local(an, rets[0][2].rv.ops[0])
            if buf is not None and buf > f.arg_count:
                fills, others = shapes.array_fills(an, buf)
                ty = f.locals[buf]["ty"]
                if ty.get("k") == "array" and ty.get("n") == 32 and len(fills) == 1 and not others and fills[0]["range"] == (0, None):
                    ok = P.match(fills[0]["src"], KECC) is not None
                    why = "buffer source is %s" % short(fills[0]["src"])
                else:
                    why = "return buffer is not a [u8;32] filled once as a whole"
            else:
                e = an.rvalue_expr(rets[0][2].rv, rets[0][0], rets[0][1])
                ok = any(P.match(c, KECC) is not None for c in e.calls()) and len(P.nontransparent_calls(e)) <= 2
                why = short(e)
        if not ok:
            # Keccak256::digest(b).into() / <[u8;32]>::from(..): a value-preserving conversion of the 32-byte output
            from rules.c01 import ret_exprs
            rs = ret_exprs(an)
            if len(rs) == 1 and f.output and f.output.get("k") == "array" and f.output.get("n") == 32:
                es = strip(rs[0][2])
                for _ in range(3):
                    if es.k == "call" and es.a[0].name in ("into", "from") and es.a[0].trait in ("std::convert::Into", "std::convert::From") and len(es.a[1]) == 1:
                        es = strip(es.a[1][0])
                if P.match(es, KECC) is not None:
                    ok = True
        report.check("DIGEST", "digest", ok, "digest(b) = Keccak256::digest(b) copied into [u8;32]", "digest() is not Keccak-256 of its whole argument: " + why, fn=f.path, sp=f.span, config=cfg)

    # ---- uncompressed forms
    impls = [f for f in facts.fns if is_enr_pubkey_impl(f, "encode_uncompressed")]
    for f in impls:
        report.analysed_fns.add(f.path)
        st = f.impl_self["s"] if f.impl_self else "?"
        an = ctx.an(f)
        key = "uncompressed/" + backend_name(st)
        if "VerifyingKey<k256" in st or "ecdsa::verifying::VerifyingKey" in st:
            ok, why = k256_uncompressed(ctx, f)
        elif st == "secp256k1::PublicKey":
            ok, why = secp_uncompressed(ctx, f)
        elif st == "ed25519_dalek::VerifyingKey":
            ok, why = ed_uncompressed(ctx, f)
        elif st.endswith("CombinedPublicKey"):
            ok, why = combined_delegates(ctx, f, "encode_uncompressed")
        else:
            ok, why = False, "unknown back-end type " + st
        report.check("UNCOMP", key, ok, "%s::encode_uncompressed has the form the node id is defined over" % backend_name(st),
                     "%s::encode_uncompressed: %s" % (backend_name(st), why), fn=f.path, sp=f.span, config=cfg)
    want = 0
    feats = set(facts.features)
    want += 1 if "k256" in feats else 0
    want += 1 if "rust-secp256k1" in feats else 0
    want += 1 if "ed25519" in feats else 0
    want += 1 if ("k256" in feats and "ed25519" in feats) else 0
    report.check("FLOOR", "backends", len(impls) == want, "one encode_uncompressed per enabled back-end (%d) analysed" % want,
                 "expected %d EnrPublicKey impls for features %s, found %d" % (want, sorted(feats), len(impls)), config=cfg)

    # ---- mutators: node id of the committed record is that of the key it is keyed and signed with
    infos = mutators.analyse(ctx)
    for info in infos.values():
        if info.kind != "core":
            continue
        fn = info.fn
        report.analysed_fns.add(fn.path)
        for n, c in enumerate(info.commits):
            st = c.state
            key = "%s/commit%s" % (fn.name, "" if n == 0 else "#%d" % (n + 1))
            ok = st is not None and st is not TOP and st["idd"] is not None and st["idd"] == st["keyed"]
            report.check("IDD", key, ok, "%s commits node_id = NodeId::from(public(k)) for the k whose public key it stored in content" % fn.name,
                         "%s commits a record whose node id (from %s) does not belong to the public key stored in its content (%s)" % (fn.name, st and st.get("idd"), st and st.get("keyed")),
                         fn=fn.path, sp=c.sp, config=cfg)

    constructors(ctx, report)


def backend_name(st):
    if "k256" in st or "ecdsa::verifying" in st or "ecdsa::signing" in st:
        return "k256"
    if st.startswith("secp256k1::"):
        return "rust-secp256k1"
    if "ed25519" in st:
        return "ed25519"
    if "Combined" in st:
        return "combined"
    return st


def ret_buffer(an, f):
    from rules.typestate import trace_local
    rets = an.defs().get(0, [])
    if len(rets) != 1:
        return None
    node = rets[0][2]
    if getattr(node, "rv", None) is None or node.rv.kind != "use":
        return None
    return trace_local(an, node.rv.ops[0])


def k256_uncompressed(ctx, f):
    an = ctx.an(f)
    # a y coordinate is only present in an *uncompressed* SEC1 point: every to_encoded_point(.., compress) has compress == false
    for b, t in f.calls():
        if t.callee and t.callee.name == "to_encoded_point" and len(t.args) == 2:
            flag = strip(an.operand_expr(t.args[1], b.idx, len(b.stmts)))
            if not (flag.k == "const" and flag.a[0] == 0):
                return False, "to_encoded_point is asked for the compressed form (%s): it has no y coordinate" % short(flag, 40)
    buf = ret_buffer(an, f)
    # second accepted form: the 65-byte SEC1 uncompressed encoding minus its tag byte
    if buf is not None:
        ty0 = f.locals[buf]["ty"]
        fills0, others0 = shapes.array_fills(an, buf)
        if ty0.get("k") == "array" and ty0.get("n") == 64 and len(fills0) == 1 and not others0 and fills0[0]["range"] == (0, None):
            src = fills0[0]["src"]
            pat = ("index", P.call(name=("as_bytes", "to_bytes"), args=[P.call(name="to_encoded_point", args=[P.param(1), P.const(0)])]), P.agg("RangeFrom", {"start": P.const(1)}))
            if P.match(src, pat) is not None:
                return True, ""
            return False, "source is %s, expected x||y of self" % short(src)
    if buf is None:
        return False, "does not return a local array"
    ty = f.locals[buf]["ty"]
    if not (ty.get("k") == "array" and ty.get("n") == 64):
        return False, "result is not a 64-byte array"
    fills, others = shapes.array_fills(an, buf)
    if others:
        return False, "result buffer modified by something other than copy_from_slice"
    rngs = sorted((fl["range"] for fl in fills), key=lambda r: r[0] if isinstance(r[0], int) else -1)
    if rngs != [(0, 32), (32, None)] and rngs != [(0, 32), (32, 64)]:
        return False, "fills are %s, expected [..32] and [32..]" % rngs
    for fl in fills:
        first = fl["range"][0] == 0
        names = set()
        for e in fl["src"].walk():
            if e.k in ("field", "vfield"):
                names.add(str(e.a[-1]) if e.k == "vfield" else str(e.a[1]))
        # which tuple slot / coordinate feeds this half
        src = fl["src"]
        slot = None
        if src.k == "field" and src.a[1] in ("0", "1"):
            slot = src.a[1]
            alts = src.a[0].a[0] if src.a[0].k == "phi" else [src.a[0]]
            for a in alts:
                if a.k != "agg" or slot not in a.a[1]:
                    return False, "unrecognised coordinate source"
                comp = strip(a.a[1][slot])
                cn = set()
                for e in comp.walk():
                    if e.k == "vfield":
                        cn.add(str(e.a[2]))
                    if e.k == "call" and e.a[0].name in ("x", "y"):
                        cn.add(e.a[0].name)
                top = comp
                # the outermost coordinate selector decides
                sel = None
                for e in comp.walk():
                    if e.k == "vfield" and str(e.a[2]) in ("x", "y"):
                        sel = str(e.a[2])
                        break
                    if e.k == "call" and e.a[0].name in ("x", "y"):
                        sel = e.a[0].name
                        break
                want = "x" if first else "y"
                if sel != want:
                    return False, "bytes %s come from coordinate %s, expected %s" % ("[..32]" if first else "[32..]", sel, want)
                # everything derives from the key itself
                if not any(e.k == "param" and e.a[0] == 1 for e in comp.walk()):
                    return False, "coordinate does not derive from self"
        else:
            sel = None
            for e in src.walk():
                if e.k == "vfield" and str(e.a[2]) in ("x", "y"):
                    sel = str(e.a[2])
                    break
                if e.k == "call" and e.a[0].name in ("x", "y"):
                    sel = e.a[0].name
                    break
            want = "x" if first else "y"
            if sel != want:
                return False, "bytes %s come from coordinate %s, expected %s" % ("[..32]" if first else "[32..]", sel, want)
    return True, ""


def secp_uncompressed(ctx, f):
    an = ctx.an(f)
    # slice-pattern form: `let [_tag, rest @ ..] = self.serialize_uncompressed(); rest` (a [u8; 64] by type)
    from rules.c01 import ret_exprs
    rs = ret_exprs(an)
    if len(rs) == 1:
        e = strip(rs[0][2])
        if e.k == "subslice" and e.a[1] == 1 and ((e.a[2] == 65 and not e.a[3]) or (e.a[2] == 0 and e.a[3])) and P.match(e.a[0], P.call(name="serialize_uncompressed", args=[P.param(1)])) is not None:
            return True, ""
    buf = ret_buffer(an, f)
    if buf is None:
        return False, "does not return a local array"
    ty = f.locals[buf]["ty"]
    if not (ty.get("k") == "array" and ty.get("n") == 64):
        return False, "result is not a 64-byte array"
    fills, others = shapes.array_fills(an, buf)
    if others or len(fills) != 1 or fills[0]["range"] != (0, None):
        return False, "result is not filled by exactly one whole-array copy"
    src = fills[0]["src"]
    pat = ("index", P.call(name="serialize_uncompressed", args=[P.param(1)]), P.agg("RangeFrom", {"start": P.const(1)}))
    # any spelling of "everything after the tag byte": [1..], [1..65], split_at(1).1
    tail = shapes.slice_range(src) in ((1, None), (1, 65)) and P.match(shapes.slice_base(src), P.call(name="serialize_uncompressed", args=[P.param(1)])) is not None
    if P.match(src, pat) is None and not tail:
        return False, "source is %s, expected self.serialize_uncompressed()[1..]" % short(src)
    return True, ""


def ed_uncompressed(ctx, f):
    an = ctx.an(f)
    rets = an.defs().get(0, [])
    if len(rets) != 1:
        return False, "several return assignments"
    bb, idx, node = rets[0]
    e = an.call_expr(node, bb) if getattr(node, "rv", None) is None else an.rvalue_expr(node.rv, bb, idx)
    pat = P.either(P.call(name="encode", trait="EnrPublicKey", args=[P.param(1)]), P.call(name=("to_bytes", "as_bytes"), args=[P.param(1)]))
    if P.match(e, pat) is None:
        return False, "is %s, expected the 32-byte key itself" % short(e)
    return True, ""


def combined_delegates(ctx, f, method, extra=None):
    """each arm = inner.<method>(variant payload) possibly followed by to_vec"""
    an = ctx.an(f)
    rets = an.defs().get(0, [])
    if not rets:
        return False, "no return"
    seen = set()
    for bb, idx, node in rets:
        if bb not in an.cfg.succ:
            continue
        e = an.call_expr(node, bb) if getattr(node, "rv", None) is None else an.rvalue_expr(node.rv, bb, idx)
        es = strip(e)
        if es.k == "call" and es.a[0].name in ("to_vec", "into", "from") and es.a[1]:
            es = strip(es.a[1][0])
        if not (es.k == "call" and es.a[0].name == method and es.a[1]):
            return False, "arm is %s, not a delegation to the inner key's %s" % (short(e), method)
        arg = strip(es.a[1][0])
        if not (arg.k == "vfield" and strip(arg.a[0]).k == "param" and strip(arg.a[0]).a[0] == 1):
            return False, "delegation argument is not the variant payload of self"
        if extra is not None:
            rest = [strip(a) for a in es.a[1][1:]]
            if len(rest) != len(extra) or any(not (a.k == "param" and a.a[0] == i) for a, i in zip(rest, extra)):
                return False, "delegation does not pass the other arguments through unchanged: %s" % short(es, 200)
        variant = arg.a[1]
        # variant actually selected on this path
        sel = None
        for d, cond, allowed, alll in an.constraints_at(bb):
            if cond.k == "discr" and strip(cond.a[0]).k == "param" and len(allowed) == 1:
                sel = list(allowed)[0]
        if sel != variant:
            return False, "arm for variant %s uses payload of %s" % (sel, variant)
        impl_self = es.a[0].target_full()
        want = {"Secp256k1": "k256", "Ed25519": "ed25519"}.get(variant)
        if want and want not in impl_self and "ecdsa" not in impl_self:
            return False, "variant %s delegates to %s" % (variant, impl_self)
        seen.add(variant)
    if seen != {"Secp256k1", "Ed25519"}:
        return False, "arms seen: %s" % sorted(seen)
    return True, ""


def constructors(ctx, report):
    cfg = ctx.config
    facts = ctx.facts
    n = 0
    for f in facts.fns:
        if f.kind not in ("AssocFn", "Fn"):
            continue
        an = None
        for b in f.blocks:
            if b.cleanup:
                continue
            for i, s in enumerate(b.stmts):
                if s.kind == "assign" and s.rv.kind == "aggregate" and s.rv.j.get("adt") == "Enr" and s.rv.j.get("agg") == "adt":
                    an = an or ctx.an(f)
                    if b.idx not in an.cfg.succ:
                        continue
                    n += 1
                    report.analysed_fns.add(f.path)
                    e = an.rvalue_expr(s.rv, b.idx, i)
                    nid = strip(e.a[1]["node_id"])
                    content = strip(e.a[1]["content"])
                    name = f.name
                    if name == "clone":
                        ok = nid.k == "field" and nid.a[1] == "node_id" and strip(nid.a[0]).k == "param"
                        why = short(nid)
                    elif name == "decode":
                        m = P.match(nid, P.call(name="from", full="NodeId", args=[P.ok(P.call(name="enr_to_public", trait="EnrKey", args=[P.bind("map")]))]))
                        ok = m is not None and same_value(m["map"], content)
                        why = "node_id = %s; content = %s" % (short(nid, 200), short(content, 120))
                    elif name == "build":
                        m = P.match(nid, P.call(name="from", full="NodeId", args=[P.call(name="public", trait="EnrKey", args=[P.bind("k")])]))
                        ok = m is not None and strip(m["k"]).k == "param"
                        why = short(nid)
                    else:
                        ok = False
                        why = "record constructed in an unexpected function"
                    report.check("CONSTR", "%s/node_id" % name, ok, "%s gives the new record the node id of the public key it carries" % name,
                                 "%s constructs a record whose node_id is not derived from its own public key: %s" % (name, why), fn=f.path, sp=s.sp, config=cfg)
    report.check("FLOOR", "constructors", n >= 3, "the 3 record constructors (decode, build, clone) are analysed (found %d)" % n, config=cfg)
    # accessor
    f = ctx.method("node_id")
    if f is not None:
        an = ctx.an(f)
        rets = an.defs().get(0, [])
        ok = len(rets) == 1 and getattr(rets[0][2], "rv", None) is not None
        if ok:
            e = strip(an.rvalue_expr(rets[0][2].rv, rets[0][0], rets[0][1]))
            ok = e.k == "field" and e.a[1] == "node_id" and strip(e.a[0]).k == "param"
        report.check("ACCESS", "node_id()", ok, "node_id() returns the stored field", "node_id() does not return the stored node_id field", fn=f.path, sp=f.span, config=cfg)
    else:
        report.violate("ACCESS", "node_id()", "anchor Enr::node_id not found", config=cfg)


_own_run = run


def run(ctx, report):
    _own_run(ctx, report)
    from common import Only
    from rules import c05, c06
    # the id of a record belongs to the key in its own content also after a *failed* update (atomicity) and for every build (key stored last)
    c06.run(ctx, Only(report, {"ATOMIC": "ATOMIC"}))
    c05.build_rule(ctx, Only(report, {"BUILD": "KEYED-BUILD"}))
    # "equals the id derived from the value returned by the public-key accessor": which entry public_key() reads
    from rules import c01
    c01.pubkey_rule(ctx, Only(report, {"PUBKEY": "PUBKEY"}))
    # the outcome of a call is decided by its arguments: no static carries state from one call to the next
    from rules.purity import hidden_state
    hidden_state(ctx, report)

