"""C17 - CombinedKey secret import/export."""
import pattern as P
from common import short
from kernel import ok_payload, strip
from rules.c01 import ret_exprs

EXPLANATION = (
    "Shape, order and must-pass-through rules over MIR: secp256k1_from_bytes / ed25519_from_bytes return, as Ok, the library's key parser applied to the "
    "whole `&mut [u8]` parameter (k256 SigningKey::from_slice, ed25519 SigningKey::try_from) wrapped in the matching variant; on every path to Ok, "
    "Zeroize::zeroize is called on the whole parameter after the parser call; encode() returns to_bytes() of the variant's own key and public() the variant's "
    "own public key. Not decided: which 32-byte strings the libraries accept and that the derived public key is right (library arithmetic)."
)
TRUSTED = ["zeroize 1.x overwrites the slice with zeros", "k256/ed25519-dalek secret-key parsers validate as documented"]
WITNESSES = ['W5']  # compile-fail witnesses run in the thorough tier (witness/src/lib.rs)
ASSUMPTIONS = []

PARSERS = {"secp256k1_from_bytes": (("from_slice", "from_bytes", "try_from"), "Secp256k1", "k256"),
           "ed25519_from_bytes": (("try_from", "from_bytes", "from_keypair_bytes"), "Ed25519", "ed25519")}


def run(ctx, report):
    cfg = ctx.config
    facts = ctx.facts
    if not ("k256" in facts.features and "ed25519" in facts.features):
        report.note("CombinedKey is not compiled in config %s" % cfg)
        return
    for name, (parsers, variant, lib) in PARSERS.items():
        f = facts.fn("keys::combined::CombinedKey::" + name)
        if f is None:
            report.violate("IMPORT", name, "anchor CombinedKey::%s not found" % name, config=cfg)
            continue
        report.analysed_fns.add(f.path)
        an = ctx.an(f)
        g = an.cfg
        # parameter type
        pty = f.inputs[0] if f.inputs else {}
        report.check("IMPORT", name + "/param", pty.get("k") == "ref" and pty.get("mut") and pty.get("of", {}).get("k") == "slice",
                     "%s takes the secret as &mut [u8] (so it can wipe it)" % name, "%s takes %s" % (name, pty.get("s")), fn=f.path, sp=f.span, config=cfg)
        # parser call
        pcalls = [(b, t) for b, t in f.calls() if t.callee and t.callee.name in parsers and not t.callee.local and ("SigningKey" in t.callee.full or "SecretKey" in t.callee.full)]
        zcalls = [(b, t) for b, t in f.calls() if t.callee and t.callee.name == "zeroize" and (t.callee.trait or "").endswith("Zeroize")]
        ok_sites = []
        for bb, idx, e, node in ret_exprs(an):
            es = strip(e)
            if es.k == "agg" and es.a[0].endswith("Result::Ok"):
                ok_sites.append((bb, es, node))
        good_parse = False
        why = "no library key parser is applied to the parameter"
        if len(pcalls) == 1:
            b, t = pcalls[0]
            arg = strip(an.operand_expr(t.args[-1], b.idx, len(b.stmts)))
            if arg.k == "param" and arg.a[0] == 1:
                good_parse = True
            else:
                why = "the parser is given %s, not the whole parameter" % short(arg, 120)
        elif len(pcalls) > 1:
            why = "several parser calls"
        report.check("IMPORT", name + "/parse", good_parse, "%s parses the whole parameter with the %s library's secret-key parser" % (name, lib), "%s: %s" % (name, why), fn=f.path, sp=f.span, config=cfg)
        # nothing but the library parser decides acceptance: the parser runs on every path and
        # every non-Ok result is the parser's own failure
        if good_parse:
            pb = pcalls[0][0].idx
            extra = []
            for bb, idx, e, node in ret_exprs(an):
                es = strip(e)
                if es.k == "agg" and es.a[0].endswith("Result::Ok"):
                    continue
                derived = any(x.k == "call" and x.site == pb and x.a[0].name in parsers for x in es.walk())
                if g.dominates(pb, bb) and not derived:
                    # `match parser(..) { Err(_) => Err(OUR_ERROR), .. }`: taken exactly when the parser failed
                    for d, cond, allowed, alll in an.constraints_at(bb):
                        if cond.k == "discr" and allowed and allowed <= {"Err", "Break", "None"} and any(x.k == "call" and x.site == pb and x.a[0].name in parsers for x in cond.walk()):
                            derived = True
                if not (g.dominates(pb, bb) and derived):
                    # a rejection taken only when the length is not 32 is subsumed by the parser (both libraries' secret keys are exactly 32 bytes)
                    import guards
                    from rules.typestate import const_int
                    adm = [(0, guards.INF)]
                    for d, cond, allowed, alll in an.constraints_at(bb):
                        r = guards.constraint_set(cond, allowed, const_int, strip)
                        if r is not None:
                            q = strip(r[0])
                            if q.k == "call" and q.a[0].name == "len" and q.a[1] and strip(q.a[1][0]).k == "param" and strip(q.a[1][0]).a[0] == 1:
                                adm = guards.intersect(adm, r[1])
                    if not any(lo <= 32 <= hi for lo, hi in adm):
                        continue
                    extra.append(getattr(node, "sp", None))
            report.check("IMPORT", name + "/only-parser-rejects", not extra,
                         "%s fails only where the %s parser fails (every error result is the parser's, and no path returns before parsing)" % (name, lib),
                         "%s has a rejection that does not come from the %s secret-key parser (at %s): valid secrets can be refused" % (name, lib, extra),
                         fn=f.path, sp=f.span, config=cfg)
        # Ok value = that parsed key in the right variant
        for bb, es, node in ok_sites:
            v = strip(es.a[1]["0"])
            cur = v
            for _ in range(6):
                p = ok_payload(cur)
                if p is not None:
                    cur = strip(p)
                    continue
                if cur.k == "call" and cur.a[0].name in ("map", "map_err") and cur.a[1]:
                    cur = strip(cur.a[1][0])
                    continue
                if cur.k == "call" and cur.a[0].name in ("from", "into") and cur.a[1]:
                    cur = strip(cur.a[1][0])
                    continue
                if cur.k == "agg" and cur.a[0].endswith("CombinedKey::" + variant):
                    cur = strip(cur.a[1]["0"])
                    continue
                break
            okv = good_parse and cur.k == "call" and cur.site == pcalls[0][0].idx and cur.a[0].name in parsers
            # variant: via From<lib key> or explicit aggregate
            txt = repr(v)
            okvar = ("CombinedKey::" + variant in txt) or ("From<" in txt and lib in txt) or ("::from" in txt)
            report.check("IMPORT", name + "/value", okv and okvar, "%s returns exactly the parsed key as CombinedKey::%s" % (name, variant),
                         "%s returns %s" % (name, short(v, 200)), fn=f.path, sp=node.sp, config=cfg)
            # zeroize between parse and Ok
            zgood = False
            for zb, zt in zcalls:
                za = strip(an.operand_expr(zt.args[0], zb.idx, len(zb.stmts)))
                whole = za.k == "param" and za.a[0] == 1
                if whole and g.dominates(zb.idx, bb) and good_parse and g.dominates(pcalls[0][0].idx, zb.idx) and pcalls[0][0].idx != zb.idx:
                    zgood = True
            report.check("WIPE", name + "/zeroize", zgood, "every successful import wipes the whole input buffer, after parsing it",
                         "%s can return Ok without zeroizing the caller's buffer after the key was parsed (or wipes before parsing / only a part)" % name,
                         fn=f.path, sp=node.sp, config=cfg)
        report.check("IMPORT", name + "/has-ok", bool(ok_sites), "%s has a success path" % name, fn=f.path, sp=f.span, config=cfg)
    # encode / public
    from rules.c10 import combined_delegates
    for path, method, what in (("keys::combined::CombinedKey::encode", "to_bytes", "encode() returns the variant's own secret bytes"),):
        f = facts.fn(path)
        if f is None:
            report.violate("EXPORT", "encode", "anchor CombinedKey::encode not found", config=cfg)
            continue
        report.analysed_fns.add(f.path)
        ok, why = combined_delegates(ctx, f, method)
        report.check("EXPORT", "encode", ok, what, "CombinedKey::encode: " + why, fn=f.path, sp=f.span, config=cfg)
    pubs = [x for x in facts.fns if x.name == "public" and (x.impl_trait or "").endswith("EnrKey") and x.impl_self and "CombinedKey" in x.impl_self["s"]]
    for f in pubs:
        report.analysed_fns.add(f.path)
        an = ctx.an(f)
        seen = set()
        bad = []
        for bb, idx, e, node in ret_exprs(an):
            es = strip(e)
            if es.k == "call" and es.a[0].name in ("from", "into") and es.a[1]:
                inner = strip(es.a[1][0])
            elif es.k == "agg" and "CombinedPublicKey::" in es.a[0]:
                inner = strip(es.a[1]["0"])
            else:
                bad.append(short(e, 120))
                continue
            if inner.k == "call" and inner.a[0].name in ("public", "verifying_key") and inner.a[1]:
                arg = strip(inner.a[1][0])
                if arg.k == "vfield" and strip(arg.a[0]).k == "param":
                    sel = None
                    for d, cond, allowed, alll in an.constraints_at(bb):
                        if cond.k == "discr" and len(allowed) == 1:
                            sel = list(allowed)[0]
                    if sel == arg.a[1]:
                        seen.add(sel)
                        continue
            bad.append(short(e, 120))
        report.check("EXPORT", "public", not bad and seen == {"Secp256k1", "Ed25519"}, "public() returns the public key of the variant's own secret",
                     "CombinedKey::public: %s" % bad, fn=f.path, sp=f.span, config=cfg)


def finish(ctxs, report):
    if not any("k256" in c.facts.features and "ed25519" in c.facts.features for c in ctxs):
        report.violate("ANCHOR", "CombinedKey", "no analysed configuration compiles CombinedKey")


_own_run = run


def run(ctx, report):
    _own_run(ctx, report)
    from common import Only
    from rules import c01
    # "the resulting key's public key ... a record signed with it verifies": which entry CombinedKey reads back
    c01.pubkey_rule(ctx, Only(report, {"PUBKEY": "PUBKEY"}, keys=lambda r, k: k.startswith("enr_to_public/combined")))
    if "k256" in ctx.facts.features and "ed25519" in ctx.facts.features:
        # "records signed with the imported key verify under that public key": build() keys, then signs the content it stores;
        # the uncompressed form of the (k256) public key is the independent derivation's x||y
        from rules import c05, c10
        c05._own_run(ctx, Only(report, {"BUILD": "KEYED-BUILD", "SIGN": "SIGN"}))
        c10._own_run(ctx, Only(report, {"UNCOMP": "UNCOMP"}, keys=lambda r, k: k.endswith("/k256") or k.endswith("/combined")))
    # the outcome of a call is decided by its arguments: no static carries state from one call to the next
    from rules.purity import hidden_state
    hidden_state(ctx, report)

