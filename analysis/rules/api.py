"""T-API oracle (API function -> wire key(s) and value class, transcribed from
EIP-778 / EIP-7636 and the property statements) and the rules that compare
the MIR of every typed reader / writer / remover with it."""
import guards
import pattern as P
import rlpclass
import shapes
from common import short
from kernel import E, assume, ok_payload, payload_base, same_value, strip
from rules.c01 import ret_exprs
from rules.tables import const_key, typed_calls, value_class_of_expr
from rules.typestate import const_int, value_is_rlp_of

U16 = ("UINT", 16)
# writers: function path -> [(variant guard or None, key, class)]
SETTERS = {
    "Enr::<K>::set_udp4": [(None, b"udp", U16)],
    "Enr::<K>::set_udp6": [(None, b"udp6", U16)],
    "Enr::<K>::set_tcp4": [(None, b"tcp", U16)],
    "Enr::<K>::set_tcp6": [(None, b"tcp6", U16)],
    "Enr::<K>::set_ip": [("V4", b"ip", ("BYTES", 4)), ("V6", b"ip6", ("BYTES", 16))],
}
BUILDER = {
    "builder::Builder::<K>::ip4": (b"ip", ("BYTES", 4)),
    "builder::Builder::<K>::ip6": (b"ip6", ("BYTES", 16)),
    "builder::Builder::<K>::tcp4": (b"tcp", U16),
    "builder::Builder::<K>::tcp6": (b"tcp6", U16),
    "builder::Builder::<K>::udp4": (b"udp", U16),
    "builder::Builder::<K>::udp6": (b"udp6", U16),
}
REMOVERS = {
    "Enr::<K>::remove_udp4": [b"udp"],
    "Enr::<K>::remove_udp6": [b"udp6"],
    "Enr::<K>::remove_tcp": [b"tcp"],
    "Enr::<K>::remove_tcp6": [b"tcp6"],
    "Enr::<K>::remove_udp_socket": [b"ip", b"udp"],
    "Enr::<K>::remove_udp6_socket": [b"ip6", b"udp6"],
    "Enr::<K>::remove_tcp_socket": [b"ip", b"tcp"],
    "Enr::<K>::remove_tcp6_socket": [b"ip6", b"tcp6"],
}
PORT_GETTERS = {
    "Enr::<K>::tcp4": b"tcp",
    "Enr::<K>::tcp6": b"tcp6",
    "Enr::<K>::udp4": b"udp",
    "Enr::<K>::udp6": b"udp6",
}
IP_GETTERS = {"Enr::<K>::ip4": (b"ip", 4, "Ipv4Addr"), "Enr::<K>::ip6": (b"ip6", 16, "Ipv6Addr")}
SOCKET_GETTERS = {
    "Enr::<K>::udp4_socket": ("ip4", "udp4", "SocketAddrV4"),
    "Enr::<K>::udp6_socket": ("ip6", "udp6", "SocketAddrV6"),
    "Enr::<K>::tcp4_socket": ("ip4", "tcp4", "SocketAddrV4"),
    "Enr::<K>::tcp6_socket": ("ip6", "tcp6", "SocketAddrV6"),
}
REACH = {"Enr::<K>::is_udp_reachable": ("udp4_socket", "udp6_socket"), "Enr::<K>::is_tcp_reachable": ("tcp4_socket", "tcp6_socket")}
SOCKET_SETTERS = {"Enr::<K>::set_udp_socket": 0, "Enr::<K>::set_tcp_socket": 1}
SOCKET_TABLE = {("V4", 1): {b"ip", b"tcp"}, ("V4", 0): {b"ip", b"udp"}, ("V6", 1): {b"ip6", b"tcp6"}, ("V6", 0): {b"ip6", b"udp6"}}


def variant_at(an, bb, param):
    """variant of enum parameter `param` known at block bb"""
    for d, cond, allowed, alll in an.constraints_at(bb):
        if cond.k == "discr" and len(allowed) == 1:
            c = strip(cond.a[0])
            if c.k == "param" and c.a[0] == param:
                return list(allowed)[0]
    return None


def fn_or_violate(ctx, report, rule, path):
    f = ctx.facts.fn(path)
    if f is None:
        report.violate(rule, path.split("::")[-1], "anchor %s not found" % path, config=ctx.config)
    else:
        report.analysed_fns.add(f.path)
    return f


# ------------------------------------------------------------------ writers


def writers_rule(ctx, report, rule="WRITE"):
    cfg = ctx.config
    for path, rows in SETTERS.items():
        f = fn_or_violate(ctx, report, rule, path)
        if f is None:
            continue
        an = ctx.an(f)
        calls = typed_calls(ctx, f, ("insert", "insert_raw_rlp"))
        name = f.name
        for guard, key, cls in rows:
            if guard is None:
                mine = calls
            else:
                # partial evaluation for this variant of the address parameter: the paths of the other variant are cut
                def pred(cond, names, _g=guard):
                    c = strip(cond)
                    if c.k == "discr" and names and strip(c.a[0]).k == "param" and strip(c.a[0]).a[0] == 2:
                        return {_g}
                    return None
                van = assume(an, pred)
                mine = typed_calls_an(ctx, f, van, ("insert", "insert_raw_rlp"))
            ok = len(mine) == 1
            why = "%d insert calls%s" % (len(mine), " on the %s branch" % guard if guard else "")
            if ok:
                c = mine[0]
                got = value_class_of_expr(c["targs"][1], c["args"][2]) if len(c["targs"]) > 1 else None
                signer = strip(c["args"][3]) if len(c["args"]) > 3 else None
                selfarg = strip(c["args"][0])
                ok = c["key"] == key and got == cls and signer is not None and signer.k == "param" and selfarg.k == "param" and selfarg.a[0] == 1
                why = "writes key %r as %s (value %s)" % (c["key"], rlpclass.fmt(got) if got else "?", short(c["args"][2], 80))
                # value is the parameter
                v = strip(c["args"][2])
                if ok and cls == U16 and not (v.k == "param" and v.a[0] == 2):
                    ok, why = False, "stores %s, not the port parameter" % short(v, 80)
                if ok and cls[0] == "BYTES":
                    from rules.tables import peel_bytes
                    v = peel_bytes(v)
                    src = v.a[1][0] if (v.k == "call" and v.a[0].name == "octets" and v.a[1]) else None
                    good = src is not None and strip(src).k == "vfield" and strip(strip(src).a[0]).k == "param" and strip(src).a[1] == guard
                    if not good:
                        ok, why = False, "stores %s, not the octets of the %s address parameter" % (short(v, 80), guard)
            report.check(rule, "%s%s" % (name, "/" + guard if guard else ""), ok,
                         "%s%s stores its argument under %r as %s, signed with the caller's key" % (name, " (%s)" % guard if guard else "", key.decode(), rlpclass.fmt(cls)),
                         "%s%s must store its argument under %r as %s: %s" % (name, " (%s)" % guard if guard else "", key.decode(), rlpclass.fmt(cls), why),
                         fn=f.path, sp=f.span, config=cfg)
    for path, (key, cls) in BUILDER.items():
        f = fn_or_violate(ctx, report, rule, path)
        if f is None:
            continue
        calls = typed_calls(ctx, f, ("add_value", "add_value_rlp"))
        if not calls:
            # the builder's setters may store through another private route: recognise the primitive content insert
            calls = builder_primitive_writes(ctx, f)
        ok = len(calls) == 1 and calls[0]["name"] == "add_value"
        why = "%d add_value calls" % len(calls)
        if ok:
            c = calls[0]
            got = value_class_of_expr(c["targs"][1], c["args"][2])
            v = strip(c["args"][2])
            if cls == U16:
                vok = v.k == "param" and v.a[0] == 2
            else:
                from rules.tables import peel_bytes
                v = peel_bytes(v)
                vok = v.k == "call" and v.a[0].name == "octets" and v.a[1] and strip(v.a[1][0]).k == "param" and strip(v.a[1][0]).a[0] == 2
                # the address itself: alloy-rlp encodes Ipv4Addr/Ipv6Addr as the byte string of its octets (the class computed from the type says so)
                vok = vok or (v.k == "param" and v.a[0] == 2 and ("Ipv4Addr" in c["targs"][1] or "Ipv6Addr" in c["targs"][1]))
            ok = c["key"] == key and got == cls and vok and strip(c["args"][0]).k == "param"
            why = "adds key %r as %s (value %s)" % (c["key"], rlpclass.fmt(got), short(v, 80))
        report.check(rule, "Builder::" + f.name, ok, "Builder::%s stores its argument under %r as %s" % (f.name, key.decode(), rlpclass.fmt(cls)),
                     "Builder::%s must store its argument under %r as %s: %s" % (f.name, key.decode(), rlpclass.fmt(cls), why), fn=f.path, sp=f.span, config=cfg)
    # Builder::ip dispatches on the address family
    f = ctx.facts.fn("builder::Builder::<K>::ip")
    if f is not None:
        report.analysed_fns.add(f.path)
        an = ctx.an(f)
        seen = {}
        for b, t in f.calls():
            if t.callee and t.callee.local and t.callee.name in ("ip4", "ip6"):
                v = variant_at(an, b.idx, 2)
                arg = strip(an.operand_expr(t.args[1], b.idx, len(b.stmts)))
                good = arg.k == "vfield" and arg.a[1] == v
                seen[v] = (t.callee.name, good)
        ok = seen == {"V4": ("ip4", True), "V6": ("ip6", True)}
        if not ok and not seen:
            # the bodies of ip4 / ip6 written out per arm: add_value(IP_ENR_KEY, octets of the V4 payload) resp. IP6 / V6
            from rules.tables import peel_bytes
            got = {}
            for c in typed_calls(ctx, f, ("add_value",)):
                v = variant_at(an, c["bb"], 2) if "bb" in c else None
                val = peel_bytes(strip(c["args"][2]))
                src = val
                if src.k == "call" and src.a[0].name == "octets" and src.a[1]:
                    src = strip(src.a[1][0])
                while src.k in ("ref", "deref"):
                    src = strip(src.a[0])
                fam = src.a[1] if src.k == "vfield" and strip(src.a[0]).k == "param" and strip(src.a[0]).a[0] == 2 else None
                cls = value_class_of_expr(c["targs"][1], c["args"][2])
                got[fam] = (c["key"], cls, v)
            ok = got == {"V4": (b"ip", ("BYTES", 4), "V4"), "V6": (b"ip6", ("BYTES", 16), "V6")} or \
                {k_: v_[:2] for k_, v_ in got.items()} == {"V4": (b"ip", ("BYTES", 4)), "V6": (b"ip6", ("BYTES", 16))} and all(v_[2] in (None, k_) for k_, v_ in got.items())
            seen = got
        report.check(rule, "Builder::ip", ok, "Builder::ip delegates V4 -> ip4, V6 -> ip6", "Builder::ip dispatch is %s" % seen, fn=f.path, sp=f.span, config=cfg)
    generic_writers_rule(ctx, report, rule)


def builder_primitive_writes(ctx, f, an=None):
    """`self.content.insert(key.., rlp)` sites of a builder method, presented
    like typed add_value calls: rlp must be the encoding of one value of a
    known type (value_is_rlp_of), which then plays the role of add_value's
    type argument"""
    from rules.typestate import value_is_rlp_of
    an = an or ctx.an(f)
    out = []
    evs = an.events(1, True)
    for bb in sorted(evs):
        if bb not in an.cfg.succ:
            continue
        for ev in evs[bb]:
            t = ev.get("term")
            if ev["kind"] != "mutcall" or t is None or not t.callee or t.callee.name != "insert" or "BTreeMap" not in t.callee.fn or ev["path"][:1] != ["content"] or len(t.args) != 3:
                continue
            kexpr = strip(an.operand_expr(t.args[1], bb, ev["idx"]))
            kk = kexpr.a[1][0] if (kexpr.k == "call" and kexpr.a[0].name in ("to_vec", "into", "to_owned", "from", "clone") and kexpr.a[1]) else kexpr
            v = value_is_rlp_of(an, t, 2)
            if v.get("kind") != "rlp":
                out.append(dict(name="insert", key=const_key(kk), targs=["?", "?"], args=[strip(an.operand_expr(t.args[0], bb, ev["idx"])), kk, strip(an.operand_expr(t.args[2], bb, ev["idx"]))], bb=bb, sp=t.sp, term=t))
                continue
            ty = v["ty"]
            out.append(dict(name="add_value", key=const_key(kk), targs=["K", ty[1:] if ty.startswith("&") and not ty.startswith("&[") else ty], args=[E("param", 1, "self"), kk, v["value"]], bb=bb, sp=t.sp, term=t))
    return out


def generic_writers_rule(ctx, report, rule):
    """insert = insert_raw_rlp(key, rlp(value), signer); add_value =
    add_value_rlp(key, rlp(value)); add_value_rlp = content.insert(key, rlp)"""
    cfg = ctx.config
    for path, inner in (("Enr::<K>::insert", "insert_raw_rlp"), ("builder::Builder::<K>::add_value", "add_value_rlp")):
        f = fn_or_violate(ctx, report, rule, path)
        if f is None:
            continue
        an = ctx.an(f)
        cs = [(b, t) for b, t in f.calls() if t.callee and t.callee.local and t.callee.name == inner]
        ok = len(cs) == 1
        why = "%d calls to %s" % (len(cs), inner)
        if not cs and path.startswith("builder::"):
            # stored through another private route: the primitive insert must be (key, rlp(value)) on every path
            pw = builder_primitive_writes(ctx, f)
            good = len(pw) == 1 and pw[0]["name"] == "add_value" and strip(pw[0]["args"][1]).k == "param" and strip(pw[0]["args"][1]).a[0] == 2 and strip(pw[0]["args"][2]).k == "param" and strip(pw[0]["args"][2]).a[0] == 3 and all(an.cfg.dominates(pw[0]["bb"], x) for x in an.cfg.exits)
            report.check(rule, f.name + "/generic", good, "%s stores exactly the RLP encoding of its value under its key" % f.name,
                         "%s does not store (key, rlp(value)) unchanged: %s" % (f.name, [(w["name"], short(w["args"][1], 40), short(w["args"][2], 40)) for w in pw]), fn=f.path, sp=f.span, config=cfg)
            continue
        if ok:
            b, t = cs[0]
            v = value_is_rlp_of(an, t, 2)
            k = strip(an.operand_expr(t.args[1], b.idx, len(b.stmts)))
            ok = v["kind"] == "rlp" and strip(v["value"]).k == "param" and strip(v["value"]).a[0] == 3 and k.k == "param" and k.a[0] == 2 and all(an.cfg.dominates(b.idx, x) for x in an.cfg.exits)
            why = "value passed on is %s" % (v.get("kind"),)
            if ok and inner == "insert_raw_rlp":
                s = strip(an.operand_expr(t.args[3], b.idx, len(b.stmts)))
                ok = s.k == "param" and s.a[0] == 4
                why = "signer passed on is %s" % short(s, 60)
        report.check(rule, f.name + "/generic", ok, "%s stores exactly the RLP encoding of its value under its key via %s" % (f.name, inner),
                     "%s does not forward (key, rlp(value)) unchanged to %s: %s" % (f.name, inner, why), fn=f.path, sp=f.span, config=cfg)
    f = fn_or_violate(ctx, report, rule, "builder::Builder::<K>::add_value_rlp")
    if f is not None:
        an = ctx.an(f)
        ins = [(b, t) for b, t in f.calls() if t.callee and t.callee.name == "insert" and "BTreeMap" in t.callee.fn]
        ok = len(ins) == 1
        if ok:
            b, t = ins[0]
            k = strip(an.operand_expr(t.args[1], b.idx, len(b.stmts)))
            v = strip(an.operand_expr(t.args[2], b.idx, len(b.stmts)))
            kk = k.a[1][0] if (k.k == "call" and k.a[0].name in ("to_vec", "into", "to_owned", "from", "clone") and k.a[1]) else k
            ok = strip(kk).k == "param" and strip(kk).a[0] == 2 and v.k == "param" and v.a[0] == 3 and all(an.cfg.dominates(b.idx, x) for x in an.cfg.exits)
        report.check(rule, "add_value_rlp/generic", ok, "add_value_rlp stores (key, rlp) unchanged in the builder's map", "add_value_rlp does not store exactly (key, rlp)", fn=f.path, sp=f.span, config=cfg)


# ------------------------------------------------------------------ removers


def removers_rule(ctx, report, rule="REMOVE"):
    cfg = ctx.config
    for path, keys in REMOVERS.items():
        f = fn_or_violate(ctx, report, rule, path)
        if f is None:
            continue
        an = ctx.an(f)
        got = None
        why = "no remove_key / remove_insert call"
        extra_ok = True
        if len(keys) == 1:
            calls = typed_calls(ctx, f, ("remove_key",))
            if len(calls) == 1:
                got = [calls[0]["key"]]
                s = strip(calls[0]["args"][2])
                extra_ok = s.k == "param" and s.a[0] == 2
        else:
            cs = [(b, t) for b, t in f.calls() if t.callee and t.callee.local and t.callee.name == "remove_insert"]
            if len(cs) == 1:
                b, t = cs[0]
                rk = strip(an.operand_expr(t.args[1], b.idx, len(b.stmts)))
                ik = strip(an.operand_expr(t.args[2], b.idx, len(b.stmts)))
                # keys: iter(&[K1, K2]) ; inserts: iter::empty()
                arr = None
                for c in rk.walk():
                    if c.k == "const" and isinstance(c.a[0], tuple) and c.a[0][0] == "array":
                        arr = list(c.a[0][1])
                    if c.k == "agg" and c.a[0] == "array":
                        arr = [const_key(v) for k2, v in sorted(c.a[1].items(), key=lambda kv: int(kv[0]))]
                got = arr
                extra_ok = ik.k == "call" and ik.a[0].name == "empty" and "iter" in ik.a[0].fn
                # the key list reaches remove_insert whole: only adaptors that keep every element (order is irrelevant to a removal)
                adaptors = [c.a[0].name for c in rk.walk() if c.k == "call" and (c.a[0].trait or "").endswith("Iterator") and c.a[0].name not in ("rev", "copied", "cloned", "by_ref", "into_iter")]
                if adaptors:
                    extra_ok = False
                    why = "the key list goes through %s, which may drop keys" % adaptors
                s = strip(an.operand_expr(t.args[3], b.idx, len(b.stmts)))
                extra_ok = extra_ok and s.k == "param" and s.a[0] == 2
                if not extra_ok:
                    why = "inserts something or signs with another key"
        ok = got is not None and sorted(got) == sorted(keys) and extra_ok
        report.check(rule, f.name, ok, "%s removes exactly %s" % (f.name, [k.decode() for k in keys]),
                     "%s must remove exactly %s; it removes %s (%s)" % (f.name, [k.decode() for k in keys], got, why), fn=f.path, sp=f.span, config=cfg)


    # the core: remove_key(key, signer) removes exactly `key` from the working copy it commits; the only other content
    # write is the signer's public-key entry (found by the 0216 sweep mutant: a remove_key that removes nothing passed)
    f = fn_or_violate(ctx, report, rule, "Enr::<K>::remove_key")
    if f is not None:
        from rules.typestate import is_pubkey_method
        an = ctx.an(f)
        removes, others = [], []
        for b, t in f.calls():
            c = t.callee
            if c is None or "BTreeMap" not in (c.fn or "") or b.cleanup:
                continue
            if c.name == "remove" and len(t.args) == 2:
                k = strip(an.operand_expr(t.args[1], b.idx, len(b.stmts)))
                for _ in range(4):
                    if k.k == "call" and k.a[0].name in ("as_ref", "as_slice", "borrow", "deref") and k.a[1]:
                        k = strip(k.a[1][0])
                removes.append((b.idx, k))
            elif c.name in ("insert", "extend", "append", "clear", "retain", "pop_first", "pop_last", "split_off", "entry", "remove_entry"):
                if c.name == "insert" and len(t.args) == 3 and is_pubkey_method(an.operand_expr(t.args[1], b.idx, len(b.stmts)), "enr_key") is not None:
                    continue
                others.append(c.name)
        from rules.typestate import commit_sites
        cs = commit_sites(ctx, f)
        ok = len(removes) == 1 and removes[0][1].k == "param" and removes[0][1].a[0] == 2 and not others and bool(cs) and all(an.cfg.dominates(removes[0][0], bb) for bb, _, _, _ in cs)
        if not ok and not cs and not removes and not others:
            # a wrapper: remove_insert(<something made of the caller's key only>, iter::empty(), signer)
            ri = [(b, t) for b, t in f.calls() if t.callee and t.callee.local and t.callee.name == "remove_insert" and len(t.args) == 4]
            if len(ri) == 1:
                b, t = ri[0]
                rk = strip(an.operand_expr(t.args[1], b.idx, len(b.stmts)))
                ik = strip(an.operand_expr(t.args[2], b.idx, len(b.stmts)))
                sg = strip(an.operand_expr(t.args[3], b.idx, len(b.stmts)))
                params = {x.a[0] for x in rk.walk() if x.k == "param"}
                ok = params == {2} and ik.k == "call" and ik.a[0].name == "empty" and "iter" in ik.a[0].fn and sg.k == "param" and sg.a[0] == 3
        report.check(rule, "remove_key/core", ok, "remove_key removes exactly the caller's key from the copy it commits (and writes only the signer's public key besides)",
                     "remove_key does not remove exactly the caller's key before committing: removes %s, other content writes %s" % ([short(k, 60) for _, k in removes], others), fn=f.path, sp=f.span, config=cfg)


# ------------------------------------------------------------------ readers


def readers_rule(ctx, report, rule="READ"):
    cfg = ctx.config
    # iter(): every pair of the map, in map order, value as stored
    f = ctx.facts.fn("Enr::<K>::iter")
    if f is not None:
        an = ctx.an(f)
        rets = ret_exprs(an)
        ok = False
        why = "not a single return"
        if len(rets) == 1:
            es = strip(rets[0][2])
            why = "returns %s" % short(es, 120)
            if es.k == "call" and es.a[0].name == "map" and len(es.a[1]) == 2:
                src = strip(es.a[1][0])
                ok = src.k == "call" and src.a[0].name == "iter" and "BTreeMap" in (src.a[0].fn or "") + (src.a[0].full or "") and src.a[1] and P.match(src.a[1][0], P.field(P.param(1), "content")) is not None
            elif es.k == "call" and es.a[0].name == "iter" and "BTreeMap" in (es.a[0].fn or "") + (es.a[0].full or ""):
                ok = P.match(es.a[1][0], P.field(P.param(1), "content")) is not None
        report.check(rule, "iter", ok, "iter() walks content.iter() itself (every pair, map order), mapping only the value's representation",
                     "iter() does not yield exactly the pairs of the map: %s" % why, fn=f.path, sp=f.span, config=cfg)
    # id(): Some(lossy text of the id entry's payload) exactly when get("id") is Some
    f = ctx.facts.fn("Enr::<K>::id")
    if f is not None:
        an = ctx.an(f)
        somes, bad = 0, []
        for bb, idx, e, node in ret_exprs(an):
            for a in (strip(e).a[0] if strip(e).k == "phi" else [strip(e)]):
                a = strip(a)
                if a.k == "agg" and a.a[0].endswith("Option::Some"):
                    if any(x.k == "call" and x.a[0].target() in ("Enr::<K>::get", "Enr::<K>::get_decodable", "Enr::<K>::get_raw_rlp") and len(x.a[1]) == 2 and const_key(x.a[1][1]) == b"id" for x in a.walk()):
                        somes += 1
                    else:
                        bad.append("Some(..) not derived from get(\"id\")")
                elif a.k == "agg" and a.a[0].endswith("Option::None"):
                    continue
                elif a.k == "call" and a.a[0].name in ("map", "and_then") and a.a[1] and any(x.k == "call" and x.a[0].target() in ("Enr::<K>::get", "Enr::<K>::get_decodable", "Enr::<K>::get_raw_rlp") and len(x.a[1]) == 2 and const_key(x.a[1][1]) == b"id" for x in strip(a.a[1][0]).walk()):
                    somes += 1
                elif a.k == "call" and a.a[0].name == "from_residual":
                    continue
                else:
                    bad.append("returns %s" % short(a, 80))
        report.check(rule, "id", somes >= 1 and not bad, "id() is Some(text of the id entry) exactly when the entry is present",
                     "id() does not report the stored identity scheme: %s" % (bad or "no Some path"), fn=f.path, sp=f.span, config=cfg)
    # generic getters
    f = fn_or_violate(ctx, report, rule, "Enr::<K>::get_raw_rlp")
    if f is not None:
        an = ctx.an(f)
        rets = ret_exprs(an)
        ok = False
        if len(rets) == 1:
            es = strip(rets[0][2])
            if es.k == "call" and es.a[0].name == "map" and es.a[1]:
                g = strip(es.a[1][0])
                ok = g.k == "call" and g.a[0].name == "get" and "BTreeMap" in g.a[0].fn and P.match(g.a[1][0], P.field(P.param(1), "content")) is not None and strip(g.a[1][1]).k == "param"
        if not ok:
            # `let v = self.content.get(key.as_ref())?; Some(v.as_ref())` and match / if-let spellings of the same
            good, bad_ = 0, 0
            for bb_, idx_, e_, node_ in rets:
                for a_ in (strip(e_).a[0] if strip(e_).k == "phi" else [strip(e_)]):
                    a_ = strip(a_)
                    if a_.k == "call" and a_.a[0].name == "from_residual":
                        continue
                    if a_.k == "agg" and a_.a[0].endswith("Option::None"):
                        continue
                    if a_.k == "agg" and a_.a[0].endswith("Option::Some"):
                        v_ = strip(a_.a[1]["0"])
                        for _ in range(4):
                            if v_.k == "call" and v_.a[0].name in ("as_ref", "deref", "as_slice", "borrow") and v_.a[1]:
                                v_ = strip(v_.a[1][0])
                        base_, n_ = payload_base(v_)
                        g_ = strip(base_)
                        if n_ == 1 and g_.k == "call" and g_.a[0].name == "get" and "BTreeMap" in g_.a[0].fn and P.match(g_.a[1][0], P.field(P.param(1), "content")) is not None and any(x.k == "param" and x.a[0] == 2 for x in g_.a[1][1].walk()):
                            good += 1
                            continue
                    bad_ += 1
            ok = good >= 1 and bad_ == 0
        report.check(rule, "get_raw_rlp", ok, "get_raw_rlp(key) = content.get(key) as a slice", "get_raw_rlp does not return the stored value of exactly the requested key", fn=f.path, sp=f.span, config=cfg)
    f = fn_or_violate(ctx, report, rule, "Enr::<K>::get_decodable")
    if f is not None:
        an = ctx.an(f)
        rets = ret_exprs(an)
        ok = False
        if len(rets) == 1:
            es = strip(rets[0][2])
            if es.k == "call" and es.a[0].name == "map" and len(es.a[1]) == 2:
                g = strip(es.a[1][0])
                from kernel import closure_of
                import closures
                cl = closure_of(es.a[1][1])
                from kernel import E
                body = closures.closure_return(ctx, cl[0], cl[1], [E("closure-arg")]) if cl else None
                good_body = False
                if body and len(body) == 1:
                    bexp = strip(body[0])
                    good_body = bexp.k == "call" and bexp.a[0].name == "decode" and (bexp.a[0].trait or "").endswith("Decodable") and any(x.k == "closure-arg" for x in bexp.walk())
                ok = g.k == "call" and g.a[0].target() == "Enr::<K>::get_raw_rlp" and strip(g.a[1][0]).k == "param" and strip(g.a[1][1]).k == "param" and good_body
        if not ok:
            # explicit form: `let mut raw = self.get_raw_rlp(key)?; Some(T::decode(&mut raw))`
            somes, bad = 0, 0
            for bb, idx, e, node in rets:
                es = strip(e)
                if (es.k == "agg" and es.a[0].endswith("Option::None")) or (es.k == "call" and es.a[0].name == "from_residual"):
                    continue
                good = False
                if es.k == "agg" and es.a[0].endswith("Option::Some"):
                    v = strip(es.a[1]["0"])
                    if v.k == "call" and v.a[0].name == "decode" and (v.a[0].trait or "").endswith("Decodable") and v.a[1]:
                        from kernel import unmut
                        src = ok_payload(unmut(v.a[1][0]))
                        g = strip(src) if src is not None else None
                        good = g is not None and g.k == "call" and g.a[0].target() == "Enr::<K>::get_raw_rlp" and strip(g.a[1][0]).k == "param" and strip(g.a[1][1]).k == "param"
                if good:
                    somes += 1
                else:
                    bad += 1
            ok = somes >= 1 and bad == 0
        report.check(rule, "get_decodable", ok, "get_decodable::<T>(key) = get_raw_rlp(key).map(T::decode)", "get_decodable is not T::decode of the raw value of the requested key", fn=f.path, sp=f.span, config=cfg)
    # ports: the Some payload is the doubly-unwrapped get_decodable::<u16>(KEY), everything else is None
    for path, key in PORT_GETTERS.items():
        f = fn_or_violate(ctx, report, rule, path)
        if f is None:
            continue
        an = ctx.an(f)
        good = 0
        bad = []
        for bb, idx, e, node in ret_exprs(an):
            es = strip(e)
            alts = es.a[0] if es.k == "phi" else [es]
            for a in alts:
                a = strip(a)
                src = None
                if a.k == "agg" and a.a[0].endswith("Option::None"):
                    continue
                if a.k == "call" and a.a[0].name == "from_residual":
                    continue
                if a.k == "call" and a.a[0].name == "and_then" and len(a.a[1]) == 2:
                    fnarg = strip(a.a[1][1])
                    if fnarg.k == "const" and isinstance(fnarg.a[0], tuple) and fnarg.a[0][0] == "fn" and fnarg.a[0][1].endswith("::ok"):
                        src = strip(a.a[1][0])
                elif a.k == "agg" and a.a[0].endswith("Option::Some"):
                    base, n = payload_base(a.a[1]["0"])
                    if n == 2:
                        src = strip(base)
                elif a.k == "call" and a.a[0].name == "ok" and a.a[0].fn.startswith("std::result::Result") and len(a.a[1]) == 1:
                    # `self.get_decodable::<u16>(KEY)?.ok()`
                    base, n = payload_base(a.a[1][0])
                    if n == 1:
                        src = strip(base)
                if src is not None and src.k == "call" and src.a[0].target() == "Enr::<K>::get_decodable":
                    targs = [t["s"] for t in src.a[0].targs]
                    k = const_key(src.a[1][1])
                    if k == key and len(targs) > 1 and targs[1] == "u16" and strip(src.a[1][0]).k == "param":
                        good += 1
                        continue
                    bad.append("reads key %r as %s" % (k, targs[1] if len(targs) > 1 else "?"))
                else:
                    bad.append("returns %s" % short(a, 100))
        report.check(rule, f.name, good >= 1 and not bad, "%s() = get_decodable::<u16>(%r), failure -> None" % (f.name, key.decode()),
                     "%s() must read %r as a canonical u16: %s" % (f.name, key.decode(), "; ".join(bad) or "no successful return"), fn=f.path, sp=f.span, config=cfg)
    # addresses
    for path, (key, n, tyname) in IP_GETTERS.items():
        f = fn_or_violate(ctx, report, rule, path)
        if f is None:
            continue
        ok, why = ip_getter(ctx, f, key, n, tyname)
        report.check(rule, f.name, ok, "%s() reads %r as a byte string of exactly %d bytes, anything else -> None" % (f.name, key.decode(), n), "%s(): %s" % (f.name, why), fn=f.path, sp=f.span, config=cfg)
    # id
    f = fn_or_violate(ctx, report, rule, "Enr::<K>::id")
    if f is not None:
        calls = typed_calls(ctx, f, ("get_decodable",))
        ok = len(calls) == 1 and calls[0]["key"] == b"id" and calls[0]["targs"][1] in ("alloy_rlp::Bytes", "bytes::Bytes")
        report.check(rule, "id", ok, "id() reads \"id\" as a byte string", "id() does not read the `id` entry as a byte string", fn=f.path, sp=f.span, config=cfg)
    client_info_reader(ctx, report, rule)
    # sockets
    for path, (ipg, portg, ctor) in SOCKET_GETTERS.items():
        f = fn_or_violate(ctx, report, rule, path)
        if f is None:
            continue
        an = ctx.an(f)
        good = 0
        bad = []
        for bb, idx, e, node in ret_exprs(an):
            es = strip(e)
            if es.k == "agg" and es.a[0].endswith("Option::None"):
                continue
            if es.k == "agg" and es.a[0].endswith("Option::Some"):
                v = strip(es.a[1]["0"])
                if v.k == "call" and v.a[0].name == "new" and ctor in v.a[0].full and len(v.a[1]) >= 2:
                    a0 = ok_payload(strip(v.a[1][0]))
                    a1 = ok_payload(strip(v.a[1][1]))
                    c0 = a0 is not None and strip(a0).k == "call" and strip(a0).a[0].target() == "Enr::<K>::" + ipg
                    c1 = a1 is not None and port_read_key(strip(a1)) == PORT_GETTERS["Enr::<K>::" + portg]
                    rest = all(strip(x).k == "const" and strip(x).a[0] == 0 for x in v.a[1][2:])
                    if c0 and c1 and rest:
                        good += 1
                        continue
                bad.append(short(v, 120))
            else:
                # `?`-style: from_residual of None
                if es.k == "call" and es.a[0].name == "from_residual":
                    continue
                bad.append(short(es, 120))
        tt = socket_truth_table(ctx, f, an, ipg, portg, ctor)
        if tt and zip_map_socket(ctx, an, ipg, portg, ctor):
            tt = []  # a().zip(b()).map(|(x, y)| Ctor::new(x, y, 0..)): Some exactly when both are Some (Option::zip / map contracts)
        if not tt:
            report.check(rule, f.name, True, "%s() = Some(%s::new(%s()?, %s()?)) (decided by cases over the presence of both parts)" % (f.name, ctor, ipg, portg), fn=f.path, sp=f.span, config=cfg)
            report.check(rule, f.name + "/none", True, "%s() is None only when %s() or %s() is None" % (f.name, ipg, portg), fn=f.path, sp=f.span, config=cfg)
        elif good >= 1 and not bad:
            report.check(rule, f.name, True, "%s() = Some(%s::new(%s()?, %s()?))" % (f.name, ctor, ipg, portg), fn=f.path, sp=f.span, config=cfg)
            none_only_when_missing(ctx, report, rule, f, ipg, portg)
        else:
            # decide by cases over the presence of the two parts (covers `match (a(), b())`, let-else, nested if-let ...)
            probs = socket_truth_table(ctx, f, an, ipg, portg, ctor)
            report.check(rule, f.name, not probs, "%s() = Some(%s::new(%s()?, %s()?))" % (f.name, ctor, ipg, portg),
                         "%s() is not exactly the combination of %s() and %s(): %s" % (f.name, ipg, portg, probs or bad), fn=f.path, sp=f.span, config=cfg)
            report.check(rule, f.name + "/none", not probs, "%s() is None only when %s() or %s() is None" % (f.name, ipg, portg),
                         "%s() can return None although both parts are present" % f.name, fn=f.path, sp=f.span, config=cfg)
    for path, (a, b) in REACH.items():
        f = fn_or_violate(ctx, report, rule, path)
        if f is None:
            continue
        an = ctx.an(f)
        # truth table: for each of the four presence combinations of the two socket getters, cut the paths that
        # contradict it and evaluate every return that is still reachable; all must equal A || B
        problems = []

        def which(e):
            e = strip(e)
            if e.k == "call" and e.a[0].is_local_target() and e.a[0].name in (a, b) and e.a[1] and strip(e.a[1][0]).k == "param":
                return e.a[0].name
            return None

        for A in (True, False):
            for B in (True, False):
                val = {a: A, b: B}

                def pred(cond, names, _val=val):
                    c = strip(cond)
                    neg = False
                    while c.k == "unop" and c.a[0] == "Not":
                        neg, c = not neg, strip(c.a[1])
                    if c.k == "discr" and names:
                        w = which(c.a[0])
                        if w is not None:
                            return {"Some"} if _val[w] else {"None"}
                    if c.k == "call" and c.a[0].name in ("is_some", "is_none") and c.a[1]:
                        w = which(c.a[1][0])
                        if w is not None:
                            truth = _val[w] if c.a[0].name == "is_some" else not _val[w]
                            return _bool_keep(truth != neg)
                    return None
                van = assume(an, pred)
                for bb, idx, e, node in ret_exprs(van):
                    es = strip(e)
                    neg = False
                    while es.k == "unop" and es.a[0] == "Not":
                        neg, es = not neg, strip(es.a[1])
                    got = None
                    if es.k == "const" and isinstance(es.a[0], int):
                        got = bool(es.a[0])
                    elif es.k == "call" and es.a[0].name in ("is_some", "is_none") and es.a[1] and which(es.a[1][0]) is not None:
                        got = val[which(es.a[1][0])] if es.a[0].name == "is_some" else not val[which(es.a[1][0])]
                    if got is not None and neg:
                        got = not got
                    if got is None:
                        problems.append("with %s()=%s, %s()=%s it returns %s" % (a, "Some" if A else "None", b, "Some" if B else "None", short(es, 80)))
                    elif got != (A or B):
                        problems.append("with %s()=%s, %s()=%s it returns %s" % (a, "Some" if A else "None", b, "Some" if B else "None", got))
        problems = sorted(set(problems))
        report.check(rule, f.name, not problems, "%s() = %s().is_some() || %s().is_some()" % (f.name, a, b), "%s() is not %s().is_some() || %s().is_some(): %s" % (f.name, a, b, "; ".join(problems[:4])), fn=f.path, sp=f.span, config=cfg)


def zip_map_socket(ctx, an, ipg, portg, ctor):
    import closures
    from kernel import E, closure_of
    rets = ret_exprs(an)
    if len(rets) != 1:
        return False
    es = strip(rets[0][2])
    if not (es.k == "call" and es.a[0].name == "map" and es.a[0].fn.startswith("std::option::Option") and len(es.a[1]) == 2):
        return False
    z = strip(es.a[1][0])
    if not (z.k == "call" and z.a[0].name == "zip" and z.a[0].fn.startswith("std::option::Option") and len(z.a[1]) == 2):
        return False
    a, b = strip(z.a[1][0]), strip(z.a[1][1])
    if not (a.k == "call" and a.a[0].target() == "Enr::<K>::" + ipg and port_read_key(b) == PORT_GETTERS["Enr::<K>::" + portg]):
        return False
    cl = closure_of(es.a[1][1])
    body = closures.closure_return(ctx, cl[0], cl[1], [E("closure-arg")]) if cl else None
    if not body or len(body) != 1:
        return False
    v = strip(body[0])
    if not (v.k == "call" and v.a[0].name == "new" and ctor in v.a[0].full and len(v.a[1]) >= 2):
        return False

    def fld(x, i):
        x = strip(x)
        return x.k == "field" and x.a[1] == i and strip(x.a[0]).k == "closure-arg"
    return fld(v.a[1][0], "0") and fld(v.a[1][1], "1") and all(strip(x).k == "const" and strip(x).a[0] == 0 for x in v.a[1][2:])


def socket_truth_table(ctx, f, an, ipg, portg, ctor):
    """for each presence combination of the address and the port: cut the paths
    that contradict it and require every reachable return to be
    Some(ctor::new(address, port, 0..)) when both are present, None otherwise"""
    want_port = PORT_GETTERS["Enr::<K>::" + portg]
    problems = []

    def part(e):
        e = strip(e)
        if e.k == "call" and e.a[0].name == "branch" and e.a[0].trait == "std::ops::Try" and e.a[1]:
            r = part(e.a[1][0])
            return (r[0], True) if r else None
        if e.k == "call" and e.a[0].target() == "Enr::<K>::" + ipg and e.a[1] and strip(e.a[1][0]).k == "param":
            return ("ip", False)
        if e.k == "call" and e.a[0].name == "ok" and e.a[0].fn.startswith("std::result::Result") and port_read_key(e) == want_port:
            return ("port2", False)
        if e.k == "call" and port_read_key(e) == want_port:
            return ("port", False)
        if e.k == "call" and e.a[0].name == "and_then" and e.a[1] and port_read_key(e) == want_port:
            return ("port", False)
        return None

    seen_parts = set()
    # is the port read as two tests (`get_decodable(KEY)?` then `.ok()?`)? then "absent" is two scenarios
    two_step = False
    for n_ in an.cfg.nodes:
        info = an.switch_info(n_)
        if info and strip(info[0]).k == "discr":
            r_ = part(strip(info[0]).a[0])
            if r_ is not None and r_[0] == "port2":
                two_step = True
    for A in (True, False):
        for B, B2 in ((True, True), (False, None)) + (((True, False),) if two_step else ()):
            val = {"ip": A, "port": B, "port2": B2}
            B = B and B2 is not False

            def pred(cond, names, _val=val):
                c = strip(cond)
                if c.k == "discr" and names:
                    r = part(c.a[0])
                    if r is not None:
                        seen_parts.add("port" if r[0] == "port2" else r[0])
                        if _val[r[0]] is None:
                            return None
                        if r[1]:
                            return {"Continue"} if _val[r[0]] else {"Break"}
                        return {"Some"} if _val[r[0]] else {"None"}
                return None
            van = assume(an, pred)
            for bb, idx, e, node in ret_exprs(van):
                es = strip(e)
                is_none = (es.k == "agg" and es.a[0].endswith("Option::None")) or (es.k == "call" and es.a[0].name == "from_residual")
                if A and B:
                    good = False
                    if es.k == "agg" and es.a[0].endswith("Option::Some"):
                        v = strip(es.a[1]["0"])
                        if v.k == "call" and v.a[0].name == "new" and ctor in v.a[0].full and len(v.a[1]) >= 2:
                            a0 = ok_payload(strip(v.a[1][0]))
                            a1 = ok_payload(strip(v.a[1][1]))
                            c0 = a0 is not None and strip(a0).k == "call" and strip(a0).a[0].target() == "Enr::<K>::" + ipg
                            c1 = a1 is not None and port_read_key(strip(a1)) == want_port
                            if not c1:
                                # the u16 inside `get_decodable::<u16>(KEY)` reached through `?`, `.ok()`, `?`
                                pb_, n_ = payload_base(v.a[1][1])
                                pbs_ = strip(pb_)
                                c1 = pbs_.k == "call" and port_read_key(pbs_) == want_port and ((pbs_.a[0].name == "ok" and n_ == 1) or (pbs_.a[0].target() == "Enr::<K>::get_decodable" and n_ == 2))
                            rest = all(strip(x).k == "const" and strip(x).a[0] == 0 for x in v.a[1][2:])
                            good = c0 and c1 and rest
                    if not good:
                        problems.append("with both parts present it returns %s" % short(es, 100))
                elif not is_none:
                    problems.append("with %s()=%s and %s()=%s it returns %s" % (ipg, "Some" if A else "None", portg, "Some" if B else "None", short(es, 80)))
    if seen_parts != {"ip", "port"}:
        problems.append("no test on the presence of %s" % sorted({"ip", "port"} - seen_parts))
    return sorted(set(problems))


def port_read_key(e):
    """the wire key a u16 port read denotes: a call of one of the port getters,
    or their definition `self.get_decodable::<u16>(KEY).and_then(Result::ok)` written out"""
    e = strip(e)
    if e.k != "call":
        return None
    tgt = e.a[0].target()
    if tgt in PORT_GETTERS and e.a[1] and strip(e.a[1][0]).k == "param":
        return PORT_GETTERS[tgt]
    # (in success-flow normal form the `.and_then(Result::ok)` is already looked through)
    if tgt == "Enr::<K>::get_decodable" and len(e.a[1]) == 2 and len(e.a[0].targs) > 1 and e.a[0].targs[1]["s"] == "u16" and strip(e.a[1][0]).k == "param":
        return const_key(e.a[1][1])
    if e.a[0].name == "ok" and e.a[0].fn.startswith("std::result::Result") and len(e.a[1]) == 1:
        # `self.get_decodable::<u16>(KEY)?.ok()`: the second of two presence tests
        base, n = payload_base(e.a[1][0])
        base = strip(base)
        if n == 1 and base.k == "call" and base.a[0].target() == "Enr::<K>::get_decodable" and len(base.a[1]) == 2 and len(base.a[0].targs) > 1 and base.a[0].targs[1]["s"] == "u16" and strip(base.a[1][0]).k == "param":
            return const_key(base.a[1][1])
    if e.a[0].name == "and_then" and len(e.a[1]) == 2:
        f2 = strip(e.a[1][1])
        inner = strip(e.a[1][0])
        if f2.k == "const" and isinstance(f2.a[0], tuple) and f2.a[0][0] == "fn" and f2.a[0][1].endswith("::ok") and inner.k == "call" and inner.a[0].target() == "Enr::<K>::get_decodable" and len(inner.a[1]) == 2:
            if len(inner.a[0].targs) > 1 and inner.a[0].targs[1]["s"] == "u16" and strip(inner.a[1][0]).k == "param":
                return const_key(inner.a[1][1])
    return None


def none_only_when_missing(ctx, report, rule, f, ipg, portg):
    """every None exit of a socket getter is behind `x() is None` for one of its two parts"""
    cfg = ctx.config
    an = ctx.an(f)
    bad = []
    for bb, idx, e, node in ret_exprs(an):
        es = strip(e)
        if not (es.k == "agg" and es.a[0].endswith("Option::None")):
            continue
        # the None assignment block may be a join; inspect its predecessors' constraints
        preds = an.cfg.pred.get(bb, []) or [bb]
        for pb in ([bb] if len(preds) <= 1 else preds):
            okp = False
            for d, cond, allowed, alll in an.constraints_at(pb) + ([] if pb == bb else an.constraints_at(bb)):
                if cond.k == "discr" and allowed <= {"None"}:
                    c = strip(cond.a[0])
                    if c.k == "call" and c.a[0].name == "branch" and c.a[1]:
                        c = strip(c.a[1][0])
                    if c.k == "call" and c.a[0].name in (ipg, portg):
                        okp = True
                    if c.k == "call" and port_read_key(c) == PORT_GETTERS["Enr::<K>::" + portg]:
                        okp = True
            if not okp:
                bad.append(pb)
    report.check(rule, f.name + "/none", not bad, "%s() is None only when %s() or %s() is None" % (f.name, ipg, portg),
                 "%s() can return None although both parts are present" % f.name, fn=f.path, sp=f.span, config=cfg)


def ip_getter(ctx, f, key, n, tyname):
    an = ctx.an(f)
    calls = typed_calls(ctx, f, ("get_decodable",))
    if len(calls) != 1 or calls[0]["key"] != key:
        return False, "reads key %s" % [c["key"] for c in calls]
    if calls[0]["targs"][1] not in ("alloy_rlp::Bytes", "bytes::Bytes"):
        if calls[0]["targs"][1] in ("std::net::" + tyname, "[u8; %d]" % n):
            return True, ""
        return False, "decodes the value as %s" % calls[0]["targs"][1]
    getcall = None
    for b, t in f.calls():
        if t.callee and t.callee.name == "get_decodable":
            getcall = an.call_expr(t, b.idx)
    somes = 0
    for bb, idx, e, node in ret_exprs(an):
        es = strip(e)
        if es.k == "agg" and es.a[0].endswith("Option::None"):
            continue
        if es.k == "call" and es.a[0].name == "from_residual" and (es.a[0].trait or "").endswith("FromResidual"):
            continue  # `?` on a None part
        # idiom 2: <[u8; N]>::try_from(bytes).ok().map(IpvNAddr::from) - exact length by the array conversion
        if es.k == "call" and es.a[0].name == "map" and len(es.a[1]) == 2:
            fnarg = strip(es.a[1][1])
            inner = strip(es.a[1][0])
            if inner.k == "phi":
                # `match .. { Some(Ok(b)) => try_from(b).ok(), _ => None }`: the None alternatives stay None under map
                from kernel import is_failure_value
                alts = [a for a in inner.a[0] if not is_failure_value(a)]
                if len(alts) == 1:
                    inner = strip(alts[0])
            if fnarg.k == "const" and isinstance(fnarg.a[0], tuple) and tyname in fnarg.a[0][1] and fnarg.a[0][1].endswith("::from"):
                if inner.k == "call" and inner.a[0].name == "ok" and inner.a[1]:
                    tf = strip(inner.a[1][0])
                    arr = "[u8; %d]" % n
                    # the array length is fixed by the conversion itself, or (generic helper spliced in) by the type the result is mapped from
                    sized = arr in tf.a[0].full if tf.k == "call" else False
                    if tf.k == "call" and not sized and "[u8; " in tf.a[0].full and ("Option::<%s>::map" % arr) in es.a[0].full:
                        sized = True
                    if tf.k == "call" and tf.a[0].name == "try_from" and sized and any(c.k == "call" and c.a[0].name == "get_decodable" for c in tf.walk()):
                        somes += 1
                        continue
            return False, "returns %s" % short(es, 120)
        if not (es.k == "agg" and es.a[0].endswith("Option::Some")):
            return False, "returns %s" % short(es, 100)
        v = strip(es.a[1]["0"])
        if not (v.k == "call" and v.a[0].name == "from" and tyname in v.a[0].full):
            return False, "returns %s" % short(v, 100)
        # idiom 3: Some(IpvNAddr::from(<[u8; N]>::try_from(bytes).ok()?)) - exact length by the array conversion
        p3 = ok_payload(strip(v.a[1][0])) if v.a[1] else None
        t3 = strip(p3) if p3 is not None else None
        if t3 is not None and t3.k == "call" and t3.a[0].name in ("try_from", "try_into") and ("[u8; %d]" % n) in t3.a[0].full and any(c.k == "call" and c.a[0].name == "get_decodable" for c in t3.walk()):
            somes += 1
            continue
        # admitted lengths at this block
        adm = [(0, guards.INF)]
        for d, cond, allowed, alll in an.constraints_at(bb):
            c = strip(cond)
            if c.k == "call" and c.a[0].name == "len":
                vals = set()
                for lab in allowed:
                    if isinstance(lab, int):
                        vals.add(lab)
                    else:
                        vals = None
                        break
                if vals:
                    adm = guards.intersect(adm, [(x, x) for x in sorted(vals)])
            elif len(allowed) == 1:
                r = guards.edge_set(cond, list(allowed)[0], const_int)
                if r is not None and strip(r[0]).k == "call" and strip(r[0]).a[0].name == "len":
                    adm = guards.intersect(adm, r[1])
        if adm != [(n, n)]:
            return False, "accepts values whose length is in %s, expected exactly %d" % (guards.fmt(adm), n)
        # the array is filled from the decoded bytes
        from rules.typestate import trace_local
        t = None
        for b2, t2 in f.calls():
            if b2.idx == v.site and t2.callee and t2.callee.name == "from":
                t = t2
        buf = trace_local(an, t.args[0]) if t is not None else None
        if buf is None:
            return False, "address is not built from a local array"
        fills, others = shapes.array_fills(an, buf)
        if len(fills) != 1 or others or fills[0]["range"] != (0, None):
            return False, "address bytes are not a single whole copy"
        src = fills[0]["src"]
        p = ok_payload(ok_payload(src)) if ok_payload(src) is not None else None
        if not any(c.k == "call" and c.a[0].name == "get_decodable" for c in src.walk()):
            return False, "address bytes do not come from the decoded value"
        somes += 1
    if somes == 0:
        return False, "never returns an address"
    return True, ""


def client_info_reader(ctx, report, rule):
    cfg = ctx.config
    f = fn_or_violate(ctx, report, rule, "Enr::<K>::client_info")
    if f is None:
        return
    an = ctx.an(f)
    calls = typed_calls(ctx, f, ("get_decodable",))
    ok = len(calls) == 1 and calls[0]["key"] == b"client" and rlpclass.class_of_type(calls[0]["targs"][1]) in (("LIST", ("BYTES", None)), ("LIST", ("UTF8",)))
    why = "reads %s" % [(c["key"], c["targs"][1]) for c in calls]
    arms = {}
    if ok:
        for bb, idx, e, node in ret_exprs(an):
            es = strip(e)
            if es.k == "agg" and es.a[0].endswith("Option::Some"):
                tup = strip(es.a[1]["0"])
                # list length known here
                ln = None
                for d, cond, allowed, alll in an.constraints_at(bb):
                    c = strip(cond)
                    if c.k == "call" and c.a[0].name == "len" and len(allowed) == 1 and isinstance(list(allowed)[0], int):
                        ln = list(allowed)[0]
                    # slice patterns: PtrMetadata(slice) == n
                    if c.k == "binop" and c.a[0] == "Eq" and ("otherwise" in allowed or 1 in allowed) and 0 not in allowed:
                        sides = [strip(c.a[1]), strip(c.a[2])]
                        meta = [x for x in sides if x.k == "unop" and x.a[0] == "PtrMetadata"]
                        cst = [const_int(x) for x in sides if const_int(x) is not None]
                        if meta and cst:
                            ln = cst[0]
                idxs = []
                for k2 in ("0", "1", "2"):
                    comp = strip(tup.a[1][k2]) if tup.k == "agg" and k2 in tup.a[1] else None
                    if comp is None:
                        continue
                    if comp.k == "agg" and comp.a[0].endswith("Option::None"):
                        idxs.append(None)
                        continue
                    if comp.k == "agg" and comp.a[0].endswith("Option::Some"):
                        comp = strip(comp.a[1]["0"])
                    found = None
                    for c in comp.walk():
                        if c.k == "call" and c.a[0].name == "index" and len(c.a[1]) == 2:
                            ci = const_int(c.a[1][1])
                            if ci is not None:
                                found = ci
                        if c.k == "cindex" and not c.a[3]:
                            found = c.a[1]
                    idxs.append(found)
                arms[ln] = idxs
        ok = arms == {2: [0, 1, None], 3: [0, 1, 2]}
        why = "arms %s" % arms
    report.check(rule, "client_info", ok, "client_info() reads `client` as a list of 2 or 3 strings: (l[0], l[1], None) / (l[0], l[1], Some(l[2]))",
                 "client_info(): %s" % why, fn=f.path, sp=f.span, config=cfg)


# ------------------------------------------------------------------ client info writers


def _bool_keep(truth):
    return {"otherwise", 1} if truth else {0}


def client_info_writers(ctx, report, rule="CLIENT"):
    """partial evaluation over build in {None, Some}: exactly one store, of
    [name, version] resp. [name, version, build]"""
    from kernel import assume
    cfg = ctx.config
    for path, helper, build_param in (("Enr::<K>::set_client_info", "insert", 4), ("builder::Builder::<K>::client_info", "add_value", 4)):
        f = fn_or_violate(ctx, report, rule, path)
        if f is None:
            continue
        an = ctx.an(f)
        rows = {}
        problems = []
        for case in ("None", "Some"):
            def pred(cond, names, case=case):
                c = strip(cond)
                neg = False
                while c.k == "unop" and c.a[0] == "Not":
                    neg = not neg
                    c = strip(c.a[1])
                if c.k == "call" and c.a[0].name in ("is_none", "is_some") and c.a[1] and strip(c.a[1][0]).k == "param" and strip(c.a[1][0]).a[0] == build_param:
                    truth = (case == "None") == (c.a[0].name == "is_none")
                    if neg:
                        truth = not truth
                    return _bool_keep(truth)
                if c.k == "discr" and names and strip(c.a[0]).k == "param" and strip(c.a[0]).a[0] == build_param:
                    return {case}
                return None
            van = assume(an, pred)
            calls = [c for c in typed_calls_an(ctx, f, van, (helper,))]
            if not calls and "Builder" in path:
                calls = builder_primitive_writes(ctx, f, van)
            lists = []
            for c in calls:
                if c["key"] != b"client":
                    problems.append("writes key %r" % c["key"])
                cls = rlpclass.class_of_type(c["targs"][1])
                if cls != ("LIST", ("UTF8",)):
                    problems.append("stores %s" % rlpclass.fmt(cls))
                elems = list_elements(f, van, c)
                ids = []
                for el in elems:
                    if el.k == "param":
                        ids.append(el.a[0])
                    elif el.k == "call" and el.a[0].name in ("unwrap", "expect", "unwrap_or_default") and strip(el.a[1][0]).k == "param":
                        ids.append(strip(el.a[1][0]).a[0])
                    elif el.k == "vfield" and strip(el.a[0]).k == "param":
                        ids.append(strip(el.a[0]).a[0])
                    else:
                        ids.append(short(el, 40))
                lists.append(ids)
            rows[case] = lists
        want = {"None": [[2, 3]], "Some": [[2, 3, 4]]}
        ok = not problems and rows == want
        report.check(rule, f.name if "Builder" not in path else "Builder::client_info", ok,
                     "%s stores [name, version] when build is None and [name, version, build] for every Some(build)" % f.name,
                     "%s: stores per case %s (expected %s) %s" % (f.name, rows, want, "; ".join(problems)), fn=f.path, sp=f.span, config=cfg)


def typed_calls_an(ctx, f, an, names):
    """typed_calls restricted to the feasible blocks of a (pruned) analysis"""
    out = []
    for b, t in f.calls():
        c = t.callee
        if b.idx not in an.cfg.succ or c is None or c.name not in names or not c.local:
            continue
        idx = len(b.stmts)
        args = [an.operand_expr(a, b.idx, idx) for a in t.args]
        key = const_key(args[1]) if len(args) > 1 else None
        out.append(dict(name=c.name, key=key, targs=[x["s"] for x in c.targs], args=args, bb=b.idx, sp=t.sp, term=t))
    return out


def list_elements(f, an, c):
    """elements of the Vec literal passed as the value of a typed call"""
    elems = []
    for x in c["args"][2].walk():
        if x.k == "agg" and x.a[0] == "array":
            elems = [strip(x.a[1][k2]) for k2 in sorted(x.a[1], key=int)]
    if elems:
        return elems
    # `vec![..]` writes the array through a raw pointer into a fresh box: take
    # the array literal built on this path
    cands = []
    for blk in f.blocks:
        if blk.cleanup or blk.idx not in an.cfg.succ:
            continue
        for i2, st in enumerate(blk.stmts):
            if st.kind == "assign" and st.rv.kind == "aggregate" and st.rv.j.get("agg") == "array":
                if an.cfg.reaches(blk.idx, c["bb"]):
                    cands.append(an.rvalue_expr(st.rv, blk.idx, i2))
    if len(cands) == 1:
        x = cands[0]
        elems = [strip(x.a[1][k2]) for k2 in sorted(x.a[1], key=int)]
        # elements appended afterwards on this path (`list.push(build)` under `if let Some(build)`)
        for blk, t in f.calls():
            if blk.idx in an.cfg.succ and not blk.cleanup and t.callee and t.callee.name == "push" and "Vec" in t.callee.fn and len(t.args) == 2 and an.cfg.reaches(blk.idx, c["bb"]) and blk.idx != c["bb"]:
                elems.append(strip(an.operand_expr(t.args[1], blk.idx, len(blk.stmts))))
        return elems
    return []


# ------------------------------------------------------------------ set_socket


def _socket_keys(f, an, sock_param, flag_param, fam, fv, problems):
    """keys (and checked values) written on the paths of (family fam, flag fv)"""
    from kernel import assume
    from rules.typestate import is_pubkey_method

    def is_family(c):
        inner = strip(c.a[0])
        if inner.k == "param" and inner.a[0] == sock_param:
            return True
        return inner.k == "call" and inner.a[0].name == "ip" and "SocketAddr" in inner.a[0].fn and strip(inner.a[1][0]).k == "param" and strip(inner.a[1][0]).a[0] == sock_param

    def pred(cond, names):
        c = strip(cond)
        neg = False
        while c.k == "unop" and c.a[0] == "Not":
            neg = not neg
            c = strip(c.a[1])
        if c.k == "discr" and names and is_family(c):
            return {fam}
        if flag_param is not None and c.k == "param" and c.a[0] == flag_param:
            return _bool_keep(bool(fv) != neg)
        # std: SocketAddr::is_ipv4() <=> matches!(self, V4(_)) <=> self.ip() is IpAddr::V4 (is_ipv6 likewise; same on IpAddr)
        if c.k == "call" and c.a[0].name in ("is_ipv4", "is_ipv6") and c.a[0].krate in ("core", "std") and len(c.a[1]) == 1:
            x = strip(c.a[1][0])
            own = (x.k == "param" and x.a[0] == sock_param) or (x.k == "call" and x.a[0].name == "ip" and "SocketAddr" in x.a[0].fn and strip(x.a[1][0]).k == "param" and strip(x.a[1][0]).a[0] == sock_param)
            if own:
                return _bool_keep(((fam == "V4") == (c.a[0].name == "is_ipv4")) != neg)
        return None
    # any V4/V6 decision must be taken on the socket's own address
    for n in an.cfg.nodes:
        info = an.switch_info(n)
        if info and info[0].k == "discr" and info[3] and set(info[3].values()) == {"V4", "V6"} and not is_family(info[0]):
            problems.append("an address-family decision is taken on %s, not on the socket's own address" % short(info[0].a[0], 100))
    van = assume(an, pred)
    keys = set()
    for b, t in f.calls():
        if b.idx not in van.cfg.succ or not (t.callee and t.callee.name == "insert" and "BTreeMap" in t.callee.fn):
            continue
        kexpr = van.operand_expr(t.args[1], b.idx, len(b.stmts))
        kb = const_key(kexpr)
        if kb is None:
            if is_pubkey_method(kexpr, "enr_key") is not None:
                continue
            problems.append("(%s, is_tcp=%d): a key that is not constant on this path: %s" % (fam, fv, short(kexpr, 100)))
            continue
        keys.add(kb)
        v = value_is_rlp_of(van, t, 2)
        want = {b"ip": ("BYTES", 4), b"ip6": ("BYTES", 16)}.get(kb, U16)
        if v["kind"] != "rlp":
            problems.append("(%s, is_tcp=%d): the value stored under %r is not one RLP-encoded value (%s)" % (fam, fv, kb, v.get("why") or v.get("kind")))
            continue
        cls = rlpclass.class_of_type(v["ty"])
        val = strip(v["value"])
        if cls != want:
            problems.append("(%s, is_tcp=%d): key %r is stored as %s" % (fam, fv, kb, rlpclass.fmt(cls)))
        if want == U16 and not (val.k == "call" and val.a[0].name == "port" and strip(val.a[1][0]).k == "param"):
            problems.append("(%s, is_tcp=%d): port value is %s" % (fam, fv, short(val, 80)))
        if want[0] == "BYTES" and not (val.k == "vfield" and val.a[1] == fam):
            problems.append("(%s, is_tcp=%d): address value is %s" % (fam, fv, short(val, 80)))
    return keys


def set_socket_rule(ctx, report, rule="SOCKET"):
    """partial evaluation of the socket setters over (address family, tcp/udp):
    on the shared helper set_socket(socket, key, is_tcp) when the tree has it,
    otherwise on each public setter with its private helpers spliced in"""
    cfg = ctx.config
    f = ctx.facts.fn("Enr::<K>::set_socket")
    flag_param = sock_param = None
    if f is not None:
        for i, t in enumerate(f.inputs):
            if t["s"] == "bool":
                flag_param = i + 1
            if t["s"] == "std::net::SocketAddr":
                sock_param = i + 1
    table = {}
    problems = []
    if f is not None and flag_param is not None and sock_param is not None:
        report.analysed_fns.add(f.path)
        an = ctx.an(f)
        for fam in ("V4", "V6"):
            for fv in (0, 1):
                table[(fam, fv)] = _socket_keys(f, an, sock_param, flag_param, fam, fv, problems)
        ok = table == SOCKET_TABLE and not problems
        report.check(rule, "set_socket/table", ok, "set_socket writes exactly {ip,tcp}/{ip,udp}/{ip6,tcp6}/{ip6,udp6} (plus the signer's key) by (family, is_tcp)",
                     "set_socket writes %s; expected %s; %s" % ({k: sorted(v) for k, v in sorted(table.items())}, {k: sorted(v) for k, v in sorted(SOCKET_TABLE.items())}, "; ".join(sorted(set(problems)))),
                     fn=f.path, sp=f.span, config=cfg)
        for path, flag in SOCKET_SETTERS.items():
            g = fn_or_violate(ctx, report, rule, path)
            if g is None:
                continue
            gan = ctx.an(g)
            cs = [(b, t) for b, t in g.calls() if t.callee and t.callee.target() == "Enr::<K>::set_socket"]
            ok = len(cs) == 1
            if ok:
                b, t = cs[0]
                args = [strip(gan.operand_expr(a, b.idx, len(b.stmts))) for a in t.args]
                ok = args[0].k == "param" and args[1].k == "param" and args[1].a[0] == 2 and args[2].k == "param" and args[2].a[0] == 3 and args[3].k == "const" and args[3].a[0] == flag
            report.check(rule, g.name, ok, "%s = set_socket(socket, key, %s)" % (g.name, bool(flag)), "%s does not call set_socket(socket, key, %s)" % (g.name, bool(flag)), fn=g.path, sp=g.span, config=cfg)
        return
    # no bool-flag helper in this tree: decide each public setter on its own (private helpers are spliced in by the normaliser)
    report.note("no Enr::set_socket(socket, key, bool) in %s: the socket table is decided on set_udp_socket / set_tcp_socket directly" % cfg)
    for path, flag in SOCKET_SETTERS.items():
        g = fn_or_violate(ctx, report, rule, path)
        if g is None:
            continue
        gan = ctx.an(g)
        sp_ = None
        for i, t in enumerate(g.inputs):
            if t["s"] == "std::net::SocketAddr":
                sp_ = i + 1
        for fam in ("V4", "V6"):
            table[(fam, flag)] = _socket_keys(g, gan, sp_, None, fam, flag, problems)
    ok = table == SOCKET_TABLE and not problems
    report.check(rule, "set_socket/table", ok, "the socket setters write exactly {ip,tcp}/{ip,udp}/{ip6,tcp6}/{ip6,udp6} (plus the signer's key) by (family, transport)",
                 "the socket setters write %s; expected %s; %s" % ({k: sorted(v) for k, v in sorted(table.items())}, {k: sorted(v) for k, v in sorted(SOCKET_TABLE.items())}, "; ".join(sorted(set(problems)))),
                 config=cfg)


def key_alternatives(an, kexpr, flag_param):
    """[(flag value or None, key bytes)] for a key expression that is a constant
    or one component of a tuple chosen by the boolean flag; None if the key is
    not constant (e.g. the public key's enr_key())"""
    k = const_key(kexpr)
    if k is not None:
        return [(None, k)]
    cur = strip(kexpr)
    for _ in range(4):
        if cur.k == "call" and cur.a[0].name in ("clone", "into", "to_vec") and cur.a[1]:
            cur = strip(cur.a[1][0])
    if cur.k == "field" and cur.a[1] in ("0", "1"):
        slot = cur.a[1]
        base = cur.a[0]
        alts = base.a[0] if base.k == "phi" else [base]
        out = []
        for a in alts:
            if a.k != "agg" or slot not in a.a[1]:
                return None
            kb = const_key(a.a[1][slot])
            if kb is None:
                return None
            fv = None
            if a.site is not None:
                for d, cond, allowed, alll in an.constraints_at(a.site):
                    c = strip(cond)
                    if c.k == "param" and c.a[0] == flag_param and len(allowed) == 1:
                        lab = list(allowed)[0]
                        fv = 0 if lab == 0 else 1
            out.append((fv, kb))
        return out
    return None
