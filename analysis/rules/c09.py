"""C09 - the 300-byte limit."""
import guards
from kernel import same_value, ok_payload, strip
from rules import mutators
from rules.typestate import MAX_ENR_SIZE, TOP, buffer_fill, const_int, trace_local

EXPLANATION = (
    "Guard-set analysis over MIR: MAX_ENR_SIZE evaluates to 300; size() is the length of a fresh buffer filled only by the record's own "
    "Encodable::encode; every commit of every mutator is dominated, after the last write to seq/content/signature, by a guard on size(committed object) "
    "whose admitted set is exactly [0,300] (so both off-by-one directions and a dropped guard are caught whatever the comparison operator); every "
    "Err(ExceedsMaxSize) is control-dependent on such a guard; early guards are followed only by seq/signature/node-id writes; the decoder's item-size "
    "guard admits exactly [0,300]; the builder's slack constant c satisfies 4 <= c <= 8."
)
TRUSTED = ["RLP header arithmetic: encoded size <= content_len + sig_len + 4 for signatures below 256 bytes", "alloy-rlp Header::decode_bytes only ever advances the buffer"]
ASSUMPTIONS = ["built-in schemes have fixed-length 64-byte signatures (early refusals imply the final one)"]


def admitted(cond, label):
    return guards.edge_set(cond, label, const_int)


def run(ctx, report):
    cfg = ctx.config
    facts = ctx.facts
    # ---- the constant
    c = facts.consts.get("MAX_ENR_SIZE")
    val = c["val"].get("int") if c else None
    report.check("CONST", "MAX_ENR_SIZE", val == MAX_ENR_SIZE, "MAX_ENR_SIZE evaluates to 300", "MAX_ENR_SIZE evaluates to %s, the specification says 300" % val,
                 sp=c["span"] if c else None, config=cfg)

    size_fn(ctx, report)

    infos = mutators.analyse(ctx)
    ncore = 0
    for info in infos.values():
        f = info.fn
        name = f.name
        if info.kind != "core":
            continue
        ncore += 1
        report.analysed_fns.add(f.path)
        an = ctx.an(f)
        for n, cm in enumerate(info.commits):
            key = "%s/commit%s" % (name, "" if n == 0 else "#%d" % (n + 1))
            st = cm.state
            ok = st is not None and st is not TOP and st["sized"] is True
            report.check("SIZED", key, ok, "%s commits only after a guard size(new record) <= 300 taken after its last write" % name,
                         "%s can commit a record without a size guard admitting only [0,300] after the last write to seq/content/signature" % name,
                         fn=f.path, sp=cm.sp, config=cfg)
        for rf in info.flows:
            # exactness of every size guard on the work object
            by_switch = {}
            for (sw, label, s, sp) in rf.size_guards:
                by_switch.setdefault(sw, {})[label] = (s, sp)
            for gi, (sw, labs) in enumerate(sorted(by_switch.items())):
                sp = list(labs.values())[0][1]
                cont = [s for lab, (s, _) in labs.items() if guards.subset(s, [(0, MAX_ENR_SIZE)])]
                refuse = [s for lab, (s, _) in labs.items() if guards.subset(s, [(MAX_ENR_SIZE + 1, guards.INF)])]
                exact = len(cont) == 1 and len(refuse) == 1 and cont[0] == [(0, MAX_ENR_SIZE)] and refuse[0] == [(MAX_ENR_SIZE + 1, guards.INF)]
                report.check("EXACT", "%s/guard#%d" % (name, gi + 1), exact,
                             "size guard of %s continues exactly on [0,300] and refuses exactly on [301,inf)" % name,
                             "size guard of %s admits %s (must be exactly [0,300] / [301,inf))" % (name, {str(l): guards.fmt(s) for l, (s, _) in labs.items()}),
                             fn=f.path, sp=sp, config=cfg)
                # an early guard must not be followed by content writes
                later_content = []
                for ev, act in rf.all_actions():
                    # (re)inserting the signer's public key never shrinks the record
                    if act[0] == "content" and act[1] != "key" and ev["bb"] != sw and an.cfg.reaches(sw, ev["bb"]):
                        later_content.append(act[-2] if isinstance(act[-1], dict) else act[-1])
                report.check("EARLY", "%s/guard#%d" % (name, gi + 1), not later_content,
                             "no content write other than the public-key entry follows this size guard of %s (a refusal here implies the final one)" % name,
                             "content is modified at %s after a size guard of %s: the guard can refuse a result that would fit" % (later_content, name),
                             fn=f.path, sp=sp, config=cfg)
    report.check("FLOOR", "core-mutators", ncore >= 1, "mutators that commit a re-signed copy directly are analysed (found %d)" % ncore, config=cfg)
    mutators.public_mutator_floor(ctx, report)

    # ---- every Err(ExceedsMaxSize) depends on a size guard
    for f in facts.fns:
        if f.kind not in ("AssocFn", "Fn"):
            continue
        an = None
        for b in f.blocks:
            if b.cleanup:
                continue
            for i, s in enumerate(b.stmts):
                if s.kind == "assign" and not s.exp and s.rv.kind == "aggregate" and s.rv.j.get("adt") == "error::Error" and s.rv.j.get("variant") == "ExceedsMaxSize":
                    an = an or ctx.an(f)
                    if b.idx not in an.cfg.succ:
                        continue
                    report.analysed_fns.add(f.path)
                    good = False
                    for d, cond, allowed, alll in an.constraints_at(b.idx):
                        if len(allowed) != 1:
                            continue
                        r = admitted(cond, list(allowed)[0])
                        if r is None:
                            continue
                        q, sset = r
                        atoms, cst = guards.linear(q, const_int, strip)
                        sset = guards.shift(sset, cst) if cst else sset
                        if guards.subset(sset, [(MAX_ENR_SIZE + 1 - cst, guards.INF)]) and is_size_quantity(atoms):
                            good = True
                    report.check("CAUSE", "%s/ExceedsMaxSize#%d" % (f.name or f.path, site_ordinal(report, f, s.sp)), good,
                                 "Err(ExceedsMaxSize) in %s is control-dependent on a size guard that holds only above the limit" % f.name,
                                 "Err(ExceedsMaxSize) in %s is not guarded by a size comparison that implies > 300" % f.name,
                                 fn=f.path, sp=s.sp, config=cfg)

    decoder_guard(ctx, report)
    builder_slack(ctx, report)


_ordinals = {}


def site_ordinal(report, f, sp):
    key = (id(report), f.path)
    d = _ordinals.setdefault(key, {})
    if sp not in d:
        d[sp] = len(d) + 1
    return d[sp]


def is_size_quantity(atoms):
    """every atom is a size()/len() of something"""
    if not atoms:
        return False
    for a in atoms:
        a = strip(a)
        if a.k == "call" and a.a[0].name in ("size", "len", "length", "length_with_payload"):
            continue
        # a sum of lengths over the pairs of a record / builder
        if a.k == "call" and a.a[0].name == "sum" and (a.a[0].trait or "").endswith("Iterator") and any(x.k == "field" and x.a[1] == "content" for x in a.walk()):
            continue
        if a.k == "field" and a.a[1] == "payload_length":
            continue
        if a.k == "field" and a.a[1] == "0" and a.a[0].k == "binop" and a.a[0].a[0] == "SubWithOverflow":
            continue
        if a.k == "binop" and a.a[0] in ("Sub", "SubWithOverflow"):
            continue
        return False
    return True


def size_fn(ctx, report):
    cfg = ctx.config
    f = ctx.method("size")
    if f is None:
        report.violate("SIZE", "size", "anchor Enr::size not found", config=cfg)
        return
    report.analysed_fns.add(f.path)
    an = ctx.an(f)
    rets = an.defs().get(0, [])
    ok = False
    why = "size() has %d return assignments" % len(rets)
    if len(rets) == 1:
        bb, idx, node = rets[0]
        if hasattr(node, "callee") and node.callee is not None and node.callee.name == "len" and node.args:
            buf = None
            tgt = an.operand_target(node.args[0])
            if tgt is not None and tgt[1] == [] and tgt[2] is False:
                buf = tgt[0]
            if buf is not None:
                import shapes as _sh
                buf = _sh.root_local(an, buf)
                d = an.unique_def(buf)
                muts = buffer_fill(an, buf)
                dn = d[2] if d else None
                fresh = dn is not None and hasattr(dn, "callee") and dn.callee is not None and dn.callee.name in ("new", "with_capacity") and "BytesMut" in dn.callee.fn
                enc = [m for m in muts if m["kind"] == "mutcall"]
                if fresh and len(muts) == 1 and len(enc) == 1:
                    t = enc[0]["term"]
                    c = t.callee
                    selfarg = strip(an.operand_expr(t.args[0], enc[0]["bb"], enc[0]["idx"]))
                    if c and c.name == "encode" and (c.trait or "").endswith("alloy_rlp::Encodable") and c.self_ty and c.self_ty.get("adt") == "Enr" and selfarg.k == "param" and selfarg.a[0] == 1:
                        if an.cfg.dominates(enc[0]["bb"], bb):
                            ok = True
                        else:
                            why = "encode does not dominate the length read"
                    else:
                        why = "buffer is not filled by <Enr as Encodable>::encode(self, ..)"
                else:
                    why = "buffer is not a fresh BytesMut filled by exactly one call (%d mutations)" % len(muts)
            else:
                why = "len() is not taken of a local buffer"
        else:
            why = "return value is not buffer.len(): %r" % (an.call_expr(node, bb) if hasattr(node, "callee") else an.rvalue_expr(node.rv, bb, idx))
    if not ok and len(rets) == 1:
        # idiom 3: self.length() with the trait's default length (encode into a scratch buffer and count), or alloy_rlp::encode(self).len()
        from rules.emit import is_encoding_of_self, length_overridden
        bb, idx, node = rets[0]
        if hasattr(node, "callee") and node.callee is not None and node.args:
            ce = an.call_expr(node, bb)
            a0 = strip(ce.a[1][0])
            if node.callee.name == "length" and (node.callee.trait or "").endswith("alloy_rlp::Encodable") and node.callee.self_ty and node.callee.self_ty.get("adt") == "Enr" and a0.k == "param" and a0.a[0] == 1 and not length_overridden(ctx):
                ok = True
            elif node.callee.name == "len" and is_encoding_of_self(ctx, f, an, ce.a[1][0]):
                ok = True
    if not ok and len(rets) == 1:
        # idiom 4: Header{list: true, payload_length: L}.length_with_payload() with L the sum of the length()/len() terms of
        # exactly what encode() emits (length mirror against the record's own emission list)
        bb, idx, node = rets[0]
        if hasattr(node, "callee") and node.callee is not None and node.callee.name == "length_with_payload" and "Header" in node.callee.fn and node.args:
            from rules.c01 import record_emissions
            from rules.emit import length_mirror
            hv = strip(an.operand_expr(node.args[0], bb, len(f.blocks[bb].stmts)))
            rec = record_emissions(ctx)
            if rec is not None and hv.k == "agg" and hv.a[0].endswith("Header::Header"):
                lst = strip(hv.a[1].get("list"))
                probs = length_mirror(ctx, hv.a[1].get("payload_length"), rec[0], rec[1], lambda e: e.k == "param" and e.a[0] == 1)
                if lst.k == "const" and lst.a[0] == 1 and not probs:
                    ok = True
                else:
                    why = why + " / length mirror: " + "; ".join(probs or ["not a list header"])
    if not ok and len(rets) == 1:
        # idiom 5: Header{list: true, payload_length: L}.length() + L (= length_with_payload), L mirrored against encode()'s emissions
        bb, idx, node = rets[0]
        rv = getattr(node, "rv", None)
        if rv is not None:
            from rules.c01 import record_emissions
            from rules.emit import length_mirror
            from kernel import unmut, E
            e = strip(an.rvalue_expr(rv, bb, idx))
            atoms, cst = guards.linear(e, const_int, strip)
            hl = [a for a in map(strip, atoms) if a.k == "call" and a.a[0].name == "length" and "Header" in a.a[0].fn and a.a[1]]
            if cst == 0 and len(hl) == 1:
                hv = unmut(strip(hl[0].a[1][0]))
                rest = [a for a in atoms if strip(a) is not hl[0]]
                rec = record_emissions(ctx)
                if rec is not None and hv.k == "agg" and hv.a[0].endswith("Header::Header") and rest:
                    lst = strip(hv.a[1].get("list"))
                    L_atoms, L_cst = guards.linear(hv.a[1].get("payload_length"), const_int, strip)
                    same = L_cst == 0 and sorted(repr(unmut(strip(a))) for a in L_atoms) == sorted(repr(unmut(strip(a))) for a in rest)
                    probs = length_mirror(ctx, hv.a[1].get("payload_length"), rec[0], rec[1], lambda e_: e_.k == "param" and e_.a[0] == 1)
                    if lst.k == "const" and lst.a[0] == 1 and same and not probs:
                        ok = True
                    else:
                        why = why + " / header.length() + payload length: " + "; ".join(probs or (["not a list header"] if same else ["the two payload lengths differ"]))
    if not ok and len(rets) == 1:
        # idiom 2: Header{list: true, payload_length: len(P)}.length() + len(P), P filled only by append_rlp_content(self, _, true)
        ok2, why2 = size_by_header_arithmetic(ctx, f, an, rets[0])
        if ok2:
            ok = True
        elif why2:
            why = why + " / " + why2
    report.check("SIZE", "size", ok, "size() == len(fresh buffer filled only by self.encode())", "size() is not exactly the length of the record's encoding: " + why, fn=f.path, sp=f.span, config=cfg)


def size_by_header_arithmetic(ctx, f, an, ret):
    import shapes
    from kernel import unmut
    bb, idx, node = ret
    rv = getattr(node, "rv", None)
    if rv is None:
        return False, None
    e = strip(an.rvalue_expr(rv, bb, idx))
    atoms, cst = guards.linear(e, const_int, strip)
    if cst != 0 or len(atoms) != 2:
        return False, "not header.length() + payload.len()"
    ln = [a for a in map(strip, atoms) if a.k == "call" and a.a[0].name == "len"]
    hl = [a for a in map(strip, atoms) if a.k == "call" and a.a[0].name == "length" and "Header" in a.a[0].fn]
    if len(ln) != 1 or len(hl) != 1:
        return False, "not header.length() + payload.len()"
    hdr = unmut(hl[0].a[1][0])
    if not (hdr.k == "agg" and hdr.a[0].endswith("Header::Header")):
        return False, "header is not built in place"
    lst, pl = strip(hdr.a[1]["list"]), strip(hdr.a[1]["payload_length"])
    if not (lst.k == "const" and lst.a[0] == 1 and pl.k == "call" and pl.a[0].name == "len" and repr(unmut(pl.a[1][0])) == repr(unmut(ln[0].a[1][0]))):
        return False, "header is not the list header of that payload"
    # the payload buffer
    buf = None
    for b, t in f.calls():
        if b.idx == ln[0].site and t.callee and t.callee.name == "len":
            tgt = an.operand_target(t.args[0])
            if tgt is not None and tgt[2] is False and tgt[1] == []:
                buf = tgt[0]
    if buf is None:
        return False, "payload is not a local buffer"
    buf = shapes.root_local(an, buf)
    muts = shapes.mutations(an, buf)
    d = shapes.def_expr(an, buf)
    fresh = d is not None and d.k == "call" and d.a[0].name in ("new", "with_capacity")
    if not (fresh and len(muts) == 1 and muts[0]["kind"] == "mutcall"):
        return False, "payload buffer is not fresh and filled once"
    t = muts[0]["term"]
    if not (t.callee and t.callee.target() == "Enr::<K>::append_rlp_content" and len(t.args) == 3):
        return False, "payload is not written by append_rlp_content"
    a0 = strip(an.operand_expr(t.args[0], muts[0]["bb"], muts[0]["idx"]))
    a2 = strip(an.operand_expr(t.args[2], muts[0]["bb"], muts[0]["idx"]))
    if not (a0.k == "param" and a0.a[0] == 1 and a2.k == "const" and a2.a[0] == 1):
        return False, "append_rlp_content(self, _, true) expected"
    if not all(an.cfg.dominates(muts[0]["bb"], x) for x in (ln[0].site, pl.site)):
        return False, "lengths are taken before the payload is written"
    return True, None


def find_decode(ctx):
    return [f for f in ctx.facts.fns if f.name == "decode" and (f.impl_trait or "").endswith("alloy_rlp::Decodable") and f.impl_self and f.impl_self.get("adt") == "Enr"]


def decoder_item_guards(ctx, f):
    """all guards of decode on a quantity measuring the input: returns list of
    (switch bb, label->set, form, sp) with form in 'consumed' | 'whole-buffer' | 'payload+header' | 'other'"""
    an = ctx.an(f)
    out = []
    # the outer header call
    outer = None
    for b, t in f.calls():
        if t.callee and t.callee.name in ("decode_bytes", "decode") and "Header" in t.callee.fn and t.args:
            tgt = an.operand_target(t.args[0])
            if tgt is not None and tgt[0] == 1 and tgt[2] is True:
                if outer is None or an.cfg.dominates(b.idx, outer):
                    outer = b.idx
    for n in an.cfg.nodes:
        info = an.switch_info(n)
        if info is None:
            continue
        cond, targets, otherwise, names = info
        if names:
            continue
        labs = {}
        form = None
        for lab in [v for v, _ in targets] + ["otherwise"]:
            r = admitted(cond, lab)
            if r is None:
                continue
            q, s = r
            atoms, cst = guards.linear(q, const_int, strip)
            fm = classify_quantity(an, atoms, outer)
            if fm is None:
                continue
            form = fm
            labs[lab] = guards.shift(s, cst) if cst else s
        if form:
            out.append((n, labs, form, f.blocks[n].term.sp))
    return out, outer


def classify_quantity(an, atoms, outer):
    if len(atoms) == 1:
        a = strip(atoms[0])
        if a.k == "field" and a.a[1] == "0" and a.a[0].k == "binop":
            a = a.a[0]
        if a.k == "binop" and a.a[0] in ("Sub", "SubWithOverflow"):
            x, y = strip(a.a[1]), strip(a.a[2])
            if is_len_of_param_buf(x) and is_len_of_param_buf(y) and outer is not None:
                if an.cfg.dominates(x.site, outer) and x.site != outer and an.cfg.dominates(outer, y.site) and y.site != outer:
                    return "consumed"
                return "other"
        if is_len_of_param_buf(a):
            if outer is None or (an.cfg.dominates(a.site, outer) and a.site != outer):
                return "whole-buffer"
            return "remaining-after"
        if a.k == "call" and a.a[0].name == "length_with_payload":
            return "header+payload"
    return None


def is_len_of_param_buf(e):
    e = strip(e)
    return e.k == "call" and e.a[0].name == "len" and e.a[1] and strip(e.a[1][0]).k == "param" and strip(e.a[1][0]).a[0] == 1


def decoder_guard(ctx, report):
    cfg = ctx.config
    decs = find_decode(ctx)
    if not decs:
        report.violate("DECODE", "guard", "anchor <Enr as Decodable>::decode not found", config=cfg)
    for f in decs:
        report.analysed_fns.add(f.path)
        an = ctx.an(f)
        gs, outer = decoder_item_guards(ctx, f)
        # every Ok site must be dominated by a guard continuing exactly on [0,300]
        oks = []
        for bb, idx, node in an.defs().get(0, []):
            rv = getattr(node, "rv", None)
            if rv is not None and rv.kind == "aggregate" and rv.j.get("variant") == "Ok" and bb in an.cfg.succ:
                oks.append((bb, node.sp))
        if not oks:
            report.violate("DECODE", "guard", "decode has no Ok exit", fn=f.path, sp=f.span, config=cfg)
        for bb, sp in oks:
            good = False
            seen = []
            for (n, labs, form, gsp) in gs:
                if form not in ("consumed", "whole-buffer", "header+payload"):
                    continue
                # which labels lead to this Ok?
                cons = [c for c in an.constraints_at(bb) if c[0] == n]
                if not cons:
                    continue
                allowed = cons[0][2]
                aset = []
                for lab in allowed:
                    if lab in labs:
                        aset = guards._norm(aset + labs[lab])
                    else:
                        aset = None
                        break
                seen.append((form, guards.fmt(aset) if aset is not None else "?"))
                if aset == [(0, MAX_ENR_SIZE)]:
                    good = True
            report.check("DECODE", "guard", good, "decode returns Ok only behind an input-size guard admitting exactly [0,300]",
                         "decode's size gate does not admit exactly [0,300] on the way to Ok (guards seen: %s)" % seen, fn=f.path, sp=sp, config=cfg)


def mirrored_payload(ctx, an, atoms, is_signature):
    """atoms = { len(signature), Header::length(H), <atoms of L> } with H = Header{list: true, payload_length: L} and L the
    length mirror of Builder::rlp_content's emissions: returns True/False, or None if the atoms do not have that shape"""
    from rules import emit
    from rules.typestate import trace_local
    import shapes
    rest = []
    sig = hdr = None
    for a in atoms:
        a = strip(a)
        if a.k == "call" and a.a[0].name == "len" and a.a[1] and is_signature(a.a[1][0]):
            sig = a
        elif a.k == "call" and a.a[0].name == "length" and "Header" in a.a[0].fn and a.a[1]:
            hdr = strip(a.a[1][0])
        else:
            rest.append(a)
    if sig is None or hdr is None or not (hdr.k == "agg" and hdr.a[0].endswith("Header::Header")):
        return None
    lst = strip(hdr.a[1].get("list"))
    if not (lst.k == "const" and lst.a[0] == 1):
        return False
    latoms, lc = guards.linear(hdr.a[1].get("payload_length"), const_int, strip)
    if lc != 0 or sorted(repr(strip(x)) for x in latoms) != sorted(repr(x) for x in rest):
        return False
    # the builder payload's own emission list
    rf = ctx.facts.fn("builder::Builder::<K>::rlp_content")
    if rf is None:
        return False
    fg = ctx.flat(rf)
    ran = ctx.an(fg)
    rets = [r for r in ran.defs().get(0, []) if r[0] in ran.cfg.succ]
    if len(rets) != 1 or getattr(rets[0][2], "rv", None) is None:
        return False
    out = trace_local(ran, rets[0][2].rv.ops[0])
    if out is None:
        return False
    em = emit.sink_emissions(ctx, fg, out, False)
    body = [e for e in em if e.kind != "header"]
    # either framed through a scratch stream (header + raw stream) or written directly
    raws = [e for e in body if e.kind == "raw" and e.loop is None]
    if len(body) == 1 and raws:
        tgt = ran.operand_target(raws[0].term.args[1])
        if tgt is None:
            return False
        body = emit.sink_emissions(ctx, fg, shapes.root_local(ran, tgt[0]), False)
    pre = [e for e in body if e.loop is None]
    inl = [e for e in body if e.loop is not None]
    probs = emit.length_mirror(ctx, hdr.a[1].get("payload_length"), pre, inl, lambda e: e.k == "param" and e.a[0] == 1)
    return not probs


def builder_slack(ctx, report):
    """build() returns Ok only behind `len(P) + len(S) + c <= 300`, 4 <= c <= 8, where P is a self.rlp_content()
    taken after the last content write (the payload that is signed, or an identical later one) and S the signature
    just computed.  Decided on build() with its helpers spliced in (c05.build_facts)."""
    from rules.c05 import build_facts
    cfg = ctx.config
    bf = build_facts(ctx)
    f = bf.get("fn")
    if f is None:
        report.violate("BUILD", "slack", "anchor Builder::build not found", config=cfg)
        return
    report.analysed_fns.add(f.path)
    an = bf["an"]
    g = an.cfg
    signs = bf["signs"]
    writes = [w for w in bf["writes"] if w["path"][:1] == ["content"] or w["path"] == []]
    oks = []
    for bb, idx, node in an.defs().get(0, []):
        rv = getattr(node, "rv", None)
        if rv is not None and rv.kind == "aggregate" and rv.j.get("variant") == "Ok" and bb in g.succ:
            oks.append((bb, idx, node))
    if not oks:
        report.violate("BUILD", "slack", "build has no Ok exit", fn=f.path, sp=f.span, config=cfg)

    # the object whose payload is signed (and whose pairs go into the record)
    signed_recv = None
    if len(signs) == 1:
        sb, st_ = signs[0]
        msg = strip(an.operand_expr(st_.args[1], sb.idx, len(sb.stmts)))
        for x in msg.walk():
            if x.k == "call" and x.a[0].target() == "builder::Builder::<K>::rlp_content" and x.a[1]:
                signed_recv = strip(x.a[1][0])

    def is_payload(e):
        """len(X.rlp_content()) for the X whose payload is signed (self), taken when no content write can follow"""
        e = strip(e)
        if not (e.k == "call" and e.a[0].target() == "builder::Builder::<K>::rlp_content" and e.a[1]):
            return False
        a0 = strip(e.a[1][0])
        if not (a0.k == "param" and a0.a[0] == 1):
            return False
        if signed_recv is None or not same_value(a0, signed_recv):
            return False
        return not any(g.reaches(e.site, w["bb"]) and w["bb"] != e.site for w in writes)

    def is_signature(e):
        e = strip(e)
        p = ok_payload(e)
        ps = strip(p) if p is not None else e
        while ps.k == "call" and ps.a[0].name == "map_err" and ps.a[1]:
            ps = strip(ps.a[1][0])
        return bool(signs) and ps.k == "call" and ps.a[0].name == "sign_v4" and ps.site == signs[0][0].idx

    for bb, idx, node in oks:
        good = False
        detail = []
        for d, cond, allowed, alll in an.constraints_at(bb):
            if len(allowed) != 1:
                continue
            r = admitted(cond, list(allowed)[0])
            if r is None:
                continue
            q, sset = r
            atoms, cst = guards.linear(q, const_int, strip)
            if len(atoms) > 2:
                # the payload size computed instead of measured: Header{list, L}.length() + L with L the length mirror of
                # what Builder::rlp_content emits (seq, then key/value of every pair)
                mp = mirrored_payload(ctx, an, atoms, is_signature)
                if mp is not None:
                    cont = guards.shift(sset, cst)
                    detail.append((["payload(mirror)", "signature"], cst, guards.fmt(cont)))
                    if mp and 4 <= cst <= 8 and cont == [(0, MAX_ENR_SIZE - cst)]:
                        good = True
                continue
            if len(atoms) != 2:
                continue
            kinds = []
            for a in atoms:
                a = strip(a)
                if a.k == "call" and a.a[0].name == "len" and a.a[1]:
                    inner = a.a[1][0]
                    kinds.append("payload" if is_payload(inner) else "signature" if is_signature(inner) else "?")
                else:
                    kinds.append("?")
            cont = guards.shift(sset, cst)
            detail.append((sorted(kinds), cst, guards.fmt(cont)))
            if sorted(kinds) == ["payload", "signature"] and 4 <= cst <= 8 and cont == [(0, MAX_ENR_SIZE - cst)]:
                good = True
        report.check("BUILD", "slack", good, "build() returns Ok only if len(self.rlp_content()) + len(signature) + c <= 300 with 4 <= c <= 8, measured on the final content",
                     "build()'s size check is not `final content + signature + c <= 300` with 4 <= c <= 8 (found %s)" % detail, fn=f.path, sp=node.sp, config=cfg)


_own_run = run


def run(ctx, report):
    _own_run(ctx, report)
    from common import Only
    from rules import c07
    # "refused with the size error": a wrapper must pass the refusal on, not turn it into a success
    c07.run(ctx, Only(report, {"ONCE": "REPORTS"}, keys=lambda r, k: k.endswith("swallows-error")))
    # "refused exactly when the result exceeds the limit": no back-end's sign_v4 refuses on a size estimate of its own
    from rules import c11
    c11._own_run(ctx, Only(report, {"ROLE": "SIGN-REFUSAL"}, keys=lambda r, k: k.startswith("sign_v4/")))

