"""Shared plumbing for rule packs: context, obligations, violations, evidence."""
import hashlib
import json
import os
import re
import time

from facts import Facts
from kernel import Analysis

VERIF = os.path.dirname(os.path.dirname(os.path.abspath(__file__)))


class Violation:
    def __init__(self, prop, rule, key, msg, fn=None, sp=None, config=None, path=None, detail=None):
        self.prop = prop
        self.rule = rule
        self.key = key  # stable identity, no line numbers
        self.msg = msg
        self.fn = fn
        self.sp = sp
        self.configs = [config] if config else []
        self.path = path or []
        self.detail = detail

    def to_json(self):
        return {
            "property": self.prop,
            "rule": self.rule,
            "key": self.key,
            "message": self.msg,
            "function": self.fn,
            "site": self.sp,
            "configs": self.configs,
            "path": self.path,
            "detail": self.detail,
        }


class Report:
    """Collects obligations (rule instances evaluated) and violations for one
    property over all analysed configurations."""

    def __init__(self, prop):
        self.prop = prop
        self.obligations = {}  # key -> dict
        self.violations = {}  # key -> Violation
        self.notes = []
        self.analysed_fns = set()
        self.configs = []

    def ob(self, rule, key, ok, desc, config=None, site=None, nontrivial=True):
        """Record the evaluation of one rule instance."""
        k = "%s/%s/%s" % (self.prop, rule, key)
        o = self.obligations.get(k)
        if o is None:
            o = {"rule": rule, "key": k, "desc": desc, "ok": True, "configs": [], "site": site, "nontrivial": nontrivial}
            self.obligations[k] = o
        if config and config not in o["configs"]:
            o["configs"].append(config)
        if not ok:
            o["ok"] = False
        return k

    def violate(self, rule, key, msg, fn=None, sp=None, config=None, path=None, detail=None):
        k = "%s/%s/%s" % (self.prop, rule, key)
        v = self.violations.get(k)
        if v is None:
            v = Violation(self.prop, rule, k, msg, fn, sp, config, path, detail)
            self.violations[k] = v
        elif config and config not in v.configs:
            v.configs.append(config)
        self.ob(rule, key, False, msg, config, sp)
        return v

    def check(self, rule, key, ok, desc, msg=None, fn=None, sp=None, config=None, path=None, detail=None):
        """Obligation + violation in one call."""
        if ok:
            self.ob(rule, key, True, desc, config, sp)
        else:
            self.violate(rule, key, msg or ("cannot establish: " + desc), fn, sp, config, path, detail)
        return ok

    def note(self, s):
        if s not in self.notes:
            self.notes.append(s)


class Only:
    """View of a Report that records only selected rules of another pack.

    Properties overlap (a record that cannot be re-decoded breaks the round trip
    *and* the validity invariant *and* the size limit): a pack re-uses the rules
    of a neighbouring pack that its own property rests on by running that pack
    against this filtered view.  rules: {source rule name: name under which it
    is recorded here}; keys: optional predicate on the instance key."""

    def __init__(self, report, rules, keys=None):
        self._r = report
        self._rules = dict(rules) if isinstance(rules, dict) else {x: x for x in rules}
        self._keys = keys
        self.prop = report.prop
        self.analysed_fns = report.analysed_fns
        self.configs = report.configs
        self.notes = report.notes
        self.obligations = report.obligations
        self.violations = report.violations

    def _keep(self, rule, key):
        return rule in self._rules and (self._keys is None or self._keys(rule, key))

    def ob(self, rule, key, ok, desc, config=None, site=None, nontrivial=True):
        if self._keep(rule, key):
            return self._r.ob(self._rules[rule], key, ok, desc, config, site, nontrivial)
        return None

    def violate(self, rule, key, msg, fn=None, sp=None, config=None, path=None, detail=None):
        if self._keep(rule, key):
            return self._r.violate(self._rules[rule], key, msg, fn, sp, config, path, detail)
        return None

    def check(self, rule, key, ok, desc, msg=None, fn=None, sp=None, config=None, path=None, detail=None):
        if self._keep(rule, key):
            self._r.check(self._rules[rule], key, ok, desc, msg, fn, sp, config, path, detail)
        return ok

    def note(self, s):
        self._r.note(s)


class Ctx:
    """One configuration's facts + cached analyses."""

    def __init__(self, facts):
        self.facts = facts if isinstance(facts, Facts) else Facts(facts)
        self.config = self.facts.config
        self._an = {}

    def an(self, fn):
        key = (fn.path, fn.j.get("flat") or False)
        a = self._an.get(key)
        if a is None:
            a = Analysis(fn)
            self._an[key] = a
        return a

    def flat(self, fn, keep=()):
        """`fn` with every crate-local callee spliced in (anchors included, except
        the paths in `keep`, which stay calls) and
        jump-threaded: the behaviour of an entry point as one body, independent
        of how it is cut into helper functions.  Closures and unresolved trait
        calls stay calls."""
        if not hasattr(self, "_flat"):
            self._flat = {}
        fkey = (fn.path, tuple(sorted(keep)))
        f = self._flat.get(fkey)
        if f is None:
            import copy
            import inline
            import thread
            from facts import Fn
            fj = copy.deepcopy(fn.j)
            fj["flat"] = True
            by_path = {}
            for g in self.facts.all_fns:
                by_path.setdefault(g.path, g.j)
            stats = {}
            for _ in range(6):
                if not inline.inline_into(fj, by_path, set(keep), stats):
                    break
            try:
                thread.thread_fn(fj)
            except Exception as exc:
                fj["thread_error"] = str(exc)
            fj["flat_inlined"] = stats.get(fn.path, [])
            fj["flat"] = "flat:" + ",".join(sorted(keep))
            f = Fn(fj, self.facts)
            self._flat[fkey] = f
        return f

    # -- lookups that do not depend on local names ----------------------
    def enr_methods(self):
        """inherent methods of the record type"""
        return [f for f in self.facts.fns if f.kind == "AssocFn" and f.path.startswith("Enr::<K>::")]

    def method(self, name):
        return self.facts.fn("Enr::<K>::" + name)

    def trait_impl_fn(self, trait_suffix, self_pred, name):
        out = []
        for f in self.facts.fns:
            if f.kind != "AssocFn" or f.name != name or not f.impl_trait:
                continue
            if not f.impl_trait.endswith(trait_suffix):
                continue
            if self_pred(f.impl_self):
                out.append(f)
        return out


def is_enr_ty(t):
    return bool(t) and t.get("k") == "adt" and t.get("adt") == "Enr"


def is_ref_to(t, pred, mut=None):
    if not t or t.get("k") != "ref":
        return False
    if mut is not None and bool(t.get("mut")) != mut:
        return False
    return pred(t.get("of"))


def short(e, n=300):
    s = repr(e)
    return s if len(s) <= n else s[: n - 3] + "..."


def load_known_findings():
    p = os.path.join(VERIF, "known_findings.json")
    if not os.path.exists(p):
        return []
    with open(p) as f:
        return json.load(f).get("findings", [])
