"""E1 front half: run the enr-facts driver over /repo's *current working tree*
for a set of cargo feature configurations and load the resulting fact files.

Nothing of the crate is executed: `cargo +nightly check` type-checks it and the
driver serialises MIR.  Every call re-extracts (the enr fingerprints are removed
first and the run id inside each fact file is verified), so a warm target
directory can never replay an older verdict.
"""
import fcntl
import glob
import json
import os
import shutil
import subprocess
import sys
import time
import uuid

VERIF = os.path.dirname(os.path.dirname(os.path.abspath(__file__)))
REPO = os.environ.get("ENR_REPO", "/repo")
DRIVER = os.path.join(VERIF, "driver", "target", "release", "enr-facts")
CACHE = os.environ.get("ENR_VERIF_CACHE", os.path.join(VERIF, ".cache"))

FEATURES = ["serde", "k256", "ed25519", "rust-secp256k1"]

# name -> cargo arguments
QUICK_CONFIGS = {
    "default": [],
    "all": ["--all-features"],
    "secp-serde": ["--no-default-features", "--features", "rust-secp256k1,serde"],
    "ed25519": ["--no-default-features", "--features", "ed25519"],
}


def all_configs():
    cfgs = {}
    for mask in range(16):
        fs = [f for i, f in enumerate(FEATURES) if mask >> i & 1]
        name = "f-" + ("+".join(fs) if fs else "none")
        args = ["--no-default-features"]
        if fs:
            args += ["--features", ",".join(fs)]
        cfgs[name] = args
    return cfgs


def nightly_sysroot():
    return subprocess.check_output(
        ["rustc", "+nightly", "--print", "sysroot"], text=True
    ).strip()


def ensure_driver():
    if not os.path.exists(DRIVER):
        env = dict(os.environ, CARGO_NET_OFFLINE="true")
        subprocess.check_call(
            ["cargo", "build", "--offline", "--release"],
            cwd=os.path.join(VERIF, "driver"),
            env=env,
        )
    return DRIVER


class ExtractError(Exception):
    def __init__(self, config, log):
        super().__init__("extraction failed for config %s" % config)
        self.config = config
        self.log = log


def extract(configs, repo=None, target_dir=None, keep=False, inline=True):
    """Return {config name: facts dict}. Raises ExtractError if a config does
    not type-check (fail closed)."""
    repo = repo or REPO
    ensure_driver()
    target_dir = target_dir or os.path.join(CACHE, "target")
    os.makedirs(target_dir, exist_ok=True)
    outdir = os.path.join(CACHE, "facts-" + uuid.uuid4().hex[:12])
    os.makedirs(outdir, exist_ok=True)
    sysroot = nightly_sysroot()
    results = {}
    lock_path = os.path.join(target_dir, ".enr-verif.lock")
    with open(lock_path, "w") as lock:
        fcntl.flock(lock, fcntl.LOCK_EX)
        try:
            for name, cargs in configs.items():
                run_id = uuid.uuid4().hex
                out = os.path.join(outdir, name + ".json")
                # defeat cargo's freshness cache for the analysed crate only
                for fp in glob.glob(os.path.join(target_dir, "debug", ".fingerprint", "enr-*")):
                    shutil.rmtree(fp, ignore_errors=True)
                env = dict(os.environ)
                env.update(
                    {
                        "CARGO_NET_OFFLINE": "true",
                        "LD_LIBRARY_PATH": os.path.join(sysroot, "lib")
                        + (":" + env["LD_LIBRARY_PATH"] if env.get("LD_LIBRARY_PATH") else ""),
                        "RUSTFLAGS": "-Zmir-opt-level=0 -Awarnings",
                        "RUSTC_WORKSPACE_WRAPPER": DRIVER,
                        "CARGO_TARGET_DIR": target_dir,
                        "CARGO_INCREMENTAL": "0",
                        "ENR_FACTS_OUT": out,
                        "ENR_FACTS_RUN_ID": run_id,
                        "ENR_FACTS_CONFIG": name,
                    }
                )
                env.pop("RUSTC_WRAPPER", None)
                p = subprocess.run(
                    ["cargo", "+nightly", "check", "--offline", "--lib", "--message-format", "short"] + cargs,
                    cwd=repo,
                    env=env,
                    stdout=subprocess.PIPE,
                    stderr=subprocess.STDOUT,
                    text=True,
                )
                if p.returncode != 0 or not os.path.exists(out):
                    raise ExtractError(name, p.stdout[-4000:])
                with open(out) as f:
                    facts = json.load(f)
                if facts.get("run_id") != run_id:
                    raise ExtractError(name, "stale fact file (run id mismatch)")
                facts["config"] = name
                facts["cargo_args"] = cargs
                if inline:
                    import inline as _inl
                    _inl.inline_helpers(facts)
                results[name] = facts
        finally:
            fcntl.flock(lock, fcntl.LOCK_UN)
            if not keep:
                shutil.rmtree(outdir, ignore_errors=True)
    return results


if __name__ == "__main__":
    t = time.time()
    which = sys.argv[1] if len(sys.argv) > 1 else "quick"
    cfgs = QUICK_CONFIGS if which == "quick" else all_configs()
    r = extract(cfgs)
    for k, v in r.items():
        print(k, v["features"], len(v["fns"]), "bodies")
    print("%.1fs" % (time.time() - t))
