"""E2 analysis kernel: CFG, dominators, reachability, edge predicates,
reaching definitions -> origin (expression) trees, alias resolution and
per-object event lists.  Pure functions of one `facts.Fn`; no source text.
"""
import sys

from facts import Callee, Fn, Operand, Place

sys.setrecursionlimit(20000)

# --------------------------------------------------------------------- CFG


class CFG:
    """Control-flow graph over normal (non-unwind) edges.  Blocks whose
    terminator is `unreachable` are pruned, as are cleanup blocks."""

    def __init__(self, fn, removed=frozenset()):
        self.fn = fn
        self.removed = frozenset(removed)
        blocks = fn.blocks
        dead = {b.idx for b in blocks if b.term.kind == "unreachable" and not b.stmts}
        self.nodes = []
        self.succ = {}
        self.pred = {}
        # forward reachability from entry over live blocks
        seen = set()
        stack = [0]
        while stack:
            n = stack.pop()
            if n in seen or n in dead or blocks[n].cleanup:
                continue
            seen.add(n)
            ss = [s for s in blocks[n].term.successors() if s not in dead and not blocks[s].cleanup and (n, s) not in self.removed]
            self.succ[n] = ss
            stack.extend(ss)
        self.nodes = sorted(seen)
        for n in self.nodes:
            self.pred.setdefault(n, [])
        for n in self.nodes:
            for s in self.succ[n]:
                self.pred.setdefault(s, []).append(n)
        self.exits = [n for n in self.nodes if blocks[n].term.kind == "return"]
        self.diverge = [n for n in self.nodes if not self.succ[n] and blocks[n].term.kind != "return"]
        self._rpo = None
        self._idom = None
        self._ipdom = None
        self._reach = {}

    # reverse post-order
    def rpo(self):
        if self._rpo is None:
            order = []
            seen = set()

            def dfs(n):
                stack = [(n, iter(self.succ[n]))]
                seen.add(n)
                while stack:
                    node, it = stack[-1]
                    adv = False
                    for s in it:
                        if s not in seen:
                            seen.add(s)
                            stack.append((s, iter(self.succ[s])))
                            adv = True
                            break
                    if not adv:
                        order.append(node)
                        stack.pop()

            dfs(0)
            self._rpo = list(reversed(order))
        return self._rpo

    def _dominators(self, entry, succ, pred, nodes):
        # Cooper-Harvey-Kennedy on an arbitrary graph given by succ/pred
        order = []
        seen = set()
        stack = [(entry, iter(succ.get(entry, [])))]
        seen.add(entry)
        while stack:
            node, it = stack[-1]
            adv = False
            for s in it:
                if s not in seen:
                    seen.add(s)
                    stack.append((s, iter(succ.get(s, []))))
                    adv = True
                    break
            if not adv:
                order.append(node)
                stack.pop()
        rpo = list(reversed(order))
        num = {n: i for i, n in enumerate(rpo)}
        idom = {entry: entry}
        changed = True
        while changed:
            changed = False
            for n in rpo[1:]:
                ps = [p for p in pred.get(n, []) if p in idom]
                if not ps:
                    continue
                new = ps[0]
                for p in ps[1:]:
                    a, b = p, new
                    while a != b:
                        while num[a] > num[b]:
                            a = idom[a]
                        while num[b] > num[a]:
                            b = idom[b]
                    new = a
                if idom.get(n) != new:
                    idom[n] = new
                    changed = True
        return idom

    def idom(self):
        if self._idom is None:
            self._idom = self._dominators(0, self.succ, self.pred, self.nodes)
        return self._idom

    def dominates(self, a, b):
        """a dominates b (reflexive)."""
        idom = self.idom()
        if b not in idom:
            return False
        while True:
            if a == b:
                return True
            nb = idom[b]
            if nb == b:
                return False
            b = nb

    def dominators_of(self, b):
        idom = self.idom()
        out = []
        if b not in idom:
            return out
        while True:
            out.append(b)
            nb = idom[b]
            if nb == b:
                break
            b = nb
        return out

    def ipdom(self):
        """post-dominators w.r.t. a virtual exit joining all return blocks."""
        if self._ipdom is None:
            EXIT = -1
            succ = {n: list(self.pred[n]) for n in self.nodes}
            pred = {n: list(self.succ[n]) for n in self.nodes}
            succ[EXIT] = list(self.exits)
            for e in self.exits:
                pred[e] = pred[e] + [EXIT]
            self._ipdom = self._dominators(EXIT, succ, pred, self.nodes + [EXIT])
        return self._ipdom

    def postdominates(self, a, b):
        ip = self.ipdom()
        if b not in ip:
            return False
        while True:
            if a == b:
                return True
            nb = ip[b]
            if nb == b:
                return False
            b = nb

    def reach(self, a, avoid=()):
        """set of blocks reachable from a (including a) without entering `avoid`."""
        key = (a, tuple(sorted(avoid)))
        if key in self._reach:
            return self._reach[key]
        seen = set()
        stack = [a]
        av = set(avoid)
        while stack:
            n = stack.pop()
            if n in seen or n in av:
                continue
            seen.add(n)
            stack.extend(self.succ.get(n, []))
        self._reach[key] = seen
        return seen

    def reaches(self, a, b, avoid=()):
        return b in self.reach(a, avoid)

    def back_edges(self):
        return [(n, s) for n in self.nodes for s in self.succ[n] if self.dominates(s, n)]

    def loops(self):
        """natural loops: header -> set of body blocks"""
        loops = {}
        for tail, head in self.back_edges():
            body = {head}
            stack = [tail]
            while stack:
                n = stack.pop()
                if n in body:
                    continue
                body.add(n)
                stack.extend(self.pred[n])
            loops.setdefault(head, set()).update(body)
        return loops


# ------------------------------------------------------------- expressions


class E:
    """Origin tree node."""

    __slots__ = ("k", "a", "site", "meta")

    def __init__(self, k, *a, site=None, meta=None):
        self.k = k
        self.a = a
        self.site = site
        self.meta = meta

    def children(self):
        out = []
        for x in self.a:
            if isinstance(x, E):
                out.append(x)
            elif isinstance(x, (list, tuple)):
                out.extend(y for y in x if isinstance(y, E))
            elif isinstance(x, dict):
                out.extend(y for y in x.values() if isinstance(y, E))
        return out

    def walk(self):
        yield self
        for c in self.children():
            yield from c.walk()

    def calls(self):
        return [e for e in self.walk() if e.k == "call"]

    def __repr__(self):
        k = self.k
        a = self.a
        if k == "param":
            return "param%d:%s" % (a[0], a[1])
        if k == "const":
            v = a[0]
            if isinstance(v, bytes):
                return "b%r" % v.decode("latin1")
            return "%r" % (v,)
        if k == "call":
            return "%s(%s)" % (a[0].target_full(), ", ".join(map(repr, a[1])))
        if k == "field":
            return "%r.%s" % (a[0], a[1])
        if k == "deref":
            return "*%r" % (a[0],)
        if k == "ref":
            return "&%s%r" % ("mut " if a[1] else "", a[0])
        if k == "vfield":
            return "(%r as %s).%s" % (a[0], a[1], a[2])
        if k == "phi":
            return "phi(%s)" % ", ".join(map(repr, a[0]))
        if k == "mutated":
            return "mut#%d<%r>" % (a[1], a[0])
        if k == "agg":
            return "%s{%s}" % (a[0], ", ".join("%s: %r" % kv for kv in a[1].items()))
        return "%s(%s)" % (k, ", ".join(map(repr, a)))


def const_value(op):
    v = op.val or {}
    if "int" in v:
        return v["int"]
    if "bytes" in v:
        return bytes.fromhex(v["bytes"])
    if "fn" in v:
        return ("fn", v["full"])
    if "zst" in v:
        return ("zst", v["zst"])
    if "array" in v:
        out = []
        for x in v["array"]:
            if "bytes" in x:
                out.append(bytes.fromhex(x["bytes"]))
            elif "int" in x:
                out.append(x["int"])
            else:
                out.append(("opaque", str(x)))
        return ("array", tuple(out))
    if "variant" in v:
        inner = v.get("0")
        iv = None
        if isinstance(inner, dict):
            iv = bytes.fromhex(inner["bytes"]) if "bytes" in inner else inner.get("int")
        return ("variant", v["variant"], iv)
    return ("opaque", str(v))


class Analysis:
    """All per-function analyses, computed lazily and cached."""

    def __init__(self, fn, removed=frozenset()):
        self.fn = fn
        self.cfg = CFG(fn, removed)
        self._defs = None
        self._expr_cache = {}
        self._alias_cache = {}

    # ---- definitions --------------------------------------------------
    def defs(self):
        """local -> list of (bb, idx, what) for whole-local definitions.
        idx == len(stmts) denotes the terminator (call destination)."""
        if self._defs is None:
            d = {}
            for b in self.fn.blocks:
                if b.cleanup:
                    continue
                for i, s in enumerate(b.stmts):
                    if s.kind == "assign" and s.place.is_local():
                        d.setdefault(s.place.local, []).append((b.idx, i, s))
                t = b.term
                if t.kind == "call" and t.dest is not None and t.dest.is_local():
                    d.setdefault(t.dest.local, []).append((b.idx, len(b.stmts), t))
            self._defs = d
        return self._defs

    def mutation_points(self):
        """local -> [(bb, idx)] where the local (not what it points to) is
        partially written or mutably borrowed: after such a point its defining
        expression alone no longer describes its value"""
        if getattr(self, "_mutpts", None) is None:
            m = {}
            fn = self.fn
            for b in fn.blocks:
                if b.cleanup:
                    continue
                for i, s in enumerate(b.stmts):
                    if s.kind != "assign":
                        continue
                    if s.place.proj and s.place.proj[0] != "deref":
                        m.setdefault(s.place.local, []).append((b.idx, i))
                    if s.rv.kind in ("ref", "rawptr") and s.rv.j.get("mut") and s.rv.place.proj[:1] != ["deref"]:
                        m.setdefault(s.rv.place.local, []).append((b.idx, i))
                t = b.term
                if t.kind == "call" and t.dest is not None and t.dest.proj and t.dest.proj[0] != "deref":
                    m.setdefault(t.dest.local, []).append((b.idx, len(b.stmts)))
            self._mutpts = m
        return self._mutpts

    def mutated_before(self, local, bb, idx):
        for mb, mi in self.mutation_points().get(local, ()):
            if mb == bb and mi < idx:
                return True
            if mb != bb and mb in self.cfg.succ and bb in self.cfg.reach(mb):
                return True
            if mb == bb and mi >= idx and any(bb in self.cfg.reach(s0) for s0 in self.cfg.succ.get(bb, [])):
                return True  # around a loop
        return False

    def unique_def(self, local):
        ds = self.defs().get(local, [])
        if len(ds) == 1:
            return ds[0]
        return None

    def reaching_defs(self, local, bb, idx):
        """definitions of `local` that may reach the point just before
        statement idx of block bb.  Returns list of def triples, plus the
        marker 'entry' if the function entry reaches without a def."""
        ds = self.defs().get(local, [])
        by_block = {}
        for d in ds:
            by_block.setdefault(d[0], []).append(d)
        # inside the block, before idx
        here = [d for d in by_block.get(bb, []) if d[1] < idx]
        if here:
            return [max(here, key=lambda d: d[1])]
        out = []
        seen = set()
        stack = list(self.cfg.pred.get(bb, []))
        entry_reached = bb == 0
        while stack:
            n = stack.pop()
            if n in seen:
                continue
            seen.add(n)
            if n in by_block:
                cand = by_block[n]
                if n == bb:
                    # looped back into our own block: defs after idx count
                    out.append(max(cand, key=lambda d: d[1]))
                else:
                    out.append(max(cand, key=lambda d: d[1]))
                continue
            if n == 0:
                entry_reached = True
            stack.extend(self.cfg.pred.get(n, []))
        if entry_reached:
            out.append("entry")
        # dedupe
        res = []
        for d in out:
            if d not in res:
                res.append(d)
        return res

    # ---- expression trees ---------------------------------------------
    def local_expr(self, local, bb, idx, depth=0, visiting=None):
        fn = self.fn
        key = (local, bb, idx)
        if key in self._expr_cache:
            return self._expr_cache[key]
        visiting = visiting or set()
        if key in visiting:
            return E("loop", local)
        if depth > 400:
            return E("toodeep", local)
        visiting = visiting | {key}
        rds = self.reaching_defs(local, bb, idx)
        alts = []
        for d in rds:
            if d == "entry":
                if 1 <= local <= fn.arg_count:
                    alts.append(E("param", local, fn.local_name(local) or "_%d" % local, meta=fn.local_ty(local)))
                else:
                    alts.append(E("uninit", local))
                continue
            dbb, didx, node = d
            if hasattr(node, "rv") and node.rv is not None:
                alts.append(self.rvalue_expr(node.rv, dbb, didx, depth + 1, visiting))
            else:
                # call terminator
                alts.append(self.call_expr(node, dbb, depth + 1, visiting))
        if not alts:
            e = E("uninit", local)
        elif len(alts) == 1:
            e = alts[0]
        else:
            e = E("phi", alts)
        if local in self.mutation_points() and self.mutated_before(local, bb, idx):
            e = E("mutated", e, local)
        self._expr_cache[key] = e
        return e

    def call_expr(self, term, bb, depth=0, visiting=None):
        idx = len(self.fn.blocks[bb].stmts)
        args = [self.operand_expr(a, bb, idx, depth + 1, visiting) for a in term.args]
        if term.callee is None:
            f = self.operand_expr(term.func_op, bb, idx, depth + 1, visiting)
            return E("icall", f, args, site=bb)
        return E("call", term.callee, args, site=bb)

    def place_expr(self, place, bb, idx, depth=0, visiting=None):
        e = self.local_expr(place.local, bb, idx, depth + 1, visiting)
        for el in place.proj:
            if el == "deref":
                e = E("deref", e)
            elif isinstance(el, dict) and "f" in el:
                # field of a downcast?
                if e.k == "downcast":
                    # payload of a value whose construction is in sight: (Ok(x) as Ok).0 = x,
                    # (branch(Ok(x)) as Continue).0 = x  (threaded paths make these definitions unique)
                    base = e.a[0]
                    bs = base
                    while bs.k in ("mutated",):
                        bs = bs.a[0]
                    if bs.k == "call" and bs.a[0].trait == "std::ops::Try" and bs.a[0].name == "branch" and bs.a[1] and e.a[1] == "Continue":
                        inner = bs.a[1][0]
                        while inner.k in ("mutated",):
                            inner = inner.a[0]
                        if inner.k == "agg" and inner.a[0] in ("std::result::Result::Ok", "std::option::Option::Some") and isinstance(inner.a[1], dict) and el["name"] in inner.a[1]:
                            e = inner.a[1][el["name"]]
                            continue
                        # several success constructions join before the `?` (two `Ok(..)` arms of a spliced-in helper): the choice of payloads
                        if inner.k == "phi" and inner.a[0] and all(a.k == "agg" and a.a[0] in ("std::result::Result::Ok", "std::option::Option::Some") and isinstance(a.a[1], dict) and el["name"] in a.a[1] for a in inner.a[0]):
                            e = E("phi", [a.a[1][el["name"]] for a in inner.a[0]])
                            continue
                    if bs.k == "agg" and isinstance(bs.a[1], dict) and bs.a[0].endswith("::" + str(e.a[1])) and el["name"] in bs.a[1]:
                        e = bs.a[1][el["name"]]
                        continue
                    e = E("vfield", e.a[0], e.a[1], el["name"])
                elif e.k == "agg" and isinstance(e.a[1], dict) and el["name"] in e.a[1] and (e.a[0] in ("tuple", "array") or (el.get("adt") and str(e.a[0]).startswith(str(el["adt"]) + "::"))):
                    # component of a tuple / field of a struct that was just built (a private carrier struct is transparent)
                    e = e.a[1][el["name"]]
                elif e.k == "phi" and e.a[0] and all(a.k == "agg" and a.a[0] == "tuple" and isinstance(a.a[1], dict) and el["name"] in a.a[1] for a in e.a[0]):
                    # component of a tuple chosen by a match: the choice of that component
                    e = E("phi", [a.a[1][el["name"]] for a in e.a[0]])
                else:
                    e = E("field", e, el["name"], meta=el.get("adt"))
            elif isinstance(el, dict) and "down" in el:
                e = E("downcast", e, el["name"])
            elif isinstance(el, dict) and "idx" in el:
                e = E("index", e, self.local_expr(el["idx"], bb, idx, depth + 1, visiting))
            elif isinstance(el, dict) and "cidx" in el:
                e = E("cindex", e, el["cidx"], el["min"], el["from_end"])
            elif isinstance(el, dict) and "sub_from" in el:
                e = E("subslice", e, el["sub_from"], el["sub_to"], el["from_end"])
            else:
                e = E("proj?", e, str(el))
        return e

    def operand_expr(self, op, bb, idx, depth=0, visiting=None):
        if op.kind in ("copy", "move"):
            return self.place_expr(op.place, bb, idx, depth + 1, visiting)
        if op.kind == "const":
            return E("const", const_value(op), meta={"named": op.named, "ty": op.ty, "refs": op.raw.get("promoted_refs")})
        return E("unknown", str(op.raw))

    def rvalue_expr(self, rv, bb, idx, depth=0, visiting=None):
        k = rv.kind
        j = rv.j
        oe = lambda o: self.operand_expr(o, bb, idx, depth + 1, visiting)
        if k == "use":
            return oe(rv.ops[0])
        if k == "ref":
            return E("ref", self.place_expr(rv.place, bb, idx, depth + 1, visiting), j["mut"])
        if k == "rawptr":
            return E("ref", self.place_expr(rv.place, bb, idx, depth + 1, visiting), j["mut"])
        if k == "cast":
            return E("cast", j["kind"], oe(rv.ops[0]), j["ty"]["s"])
        if k == "binop":
            return E("binop", j["op"], oe(rv.ops[0]), oe(rv.ops[1]))
        if k == "unop":
            return E("unop", j["op"], oe(rv.ops[0]))
        if k == "discr":
            return E("discr", self.place_expr(rv.place, bb, idx, depth + 1, visiting), meta=j.get("variants"))
        if k == "repeat":
            return E("repeat", oe(rv.ops[0]), j["n"])
        if k == "aggregate":
            if j["agg"] == "adt":
                fs = j["fields"]
                d = {}
                for i, o in enumerate(rv.ops):
                    d[fs[i] if i < len(fs) else str(i)] = oe(o)
                return E("agg", "%s::%s" % (j["adt"], j["variant"]), d, site=bb)
            d = {str(i): oe(o) for i, o in enumerate(rv.ops)}
            return E("agg", j["agg"] + (":" + j["fn"] if "fn" in j else ""), d, site=bb)
        return E("unknown", j.get("dbg", k))

    # ---- alias resolution ---------------------------------------------
    def resolve_ref(self, local, depth=0):
        """If `local` is a reference temporary with a single definition that
        (re)borrows a place, return (root_local, [field names...], via_param)
        naming the place it points to; root may be a by-reference parameter
        (then via_param=True and the path is below its pointee).  Otherwise
        None."""
        if local in self._alias_cache:
            return self._alias_cache[local]
        res = None
        fn = self.fn
        if depth < 20:
            ds = self.defs().get(local, [])
            if not ds and 1 <= local <= fn.arg_count and fn.local_ty(local).get("k") in ("ref", "ptr"):
                res = (local, [], True)
            elif len(ds) == 1:
                node = ds[0][2]
                rv = getattr(node, "rv", None)
                if rv is not None:
                    if rv.kind in ("ref", "rawptr"):
                        res = self.resolve_place(rv.place, depth + 1)
                    elif rv.kind == "use" and rv.ops[0].kind in ("copy", "move"):
                        p = rv.ops[0].place
                        if p.is_local():
                            res = self.resolve_ref(p.local, depth + 1)
                        elif len(p.proj) == 1 and isinstance(p.proj[0], dict) and "f" in p.proj[0]:
                            # one half of `slice.split_at(_mut)(k)` / split_first / split_last: points into the slice
                            td = self.defs().get(p.local, [])
                            if len(td) == 1 and getattr(td[0][2], "callee", None) is not None:
                                tn = td[0][2]
                                tc = tn.callee
                                if tc.name in ("split_at", "split_at_mut") and tc.krate in ("core", "alloc", "std") and tn.args and tn.args[0].kind in ("copy", "move") and tn.args[0].place.is_local():
                                    base = self.resolve_ref(tn.args[0].place.local, depth + 1)
                                    if base is not None:
                                        res = (base[0], list(base[1]) + ["[]"], base[2])
                    elif rv.kind == "cast" and rv.ops[0].kind in ("copy", "move") and rv.ops[0].place.is_local():
                        res = self.resolve_ref(rv.ops[0].place.local, depth + 1)
                elif getattr(node, "callee", None) is not None and node.args:
                    # references derived from a reference argument point into it
                    c = node.callee
                    derived = None
                    if c.trait in ("std::ops::Index", "std::ops::IndexMut"):
                        derived = "[]"
                    elif c.trait in ("std::ops::Deref", "std::ops::DerefMut", "std::convert::AsRef", "std::convert::AsMut", "std::borrow::Borrow", "std::borrow::BorrowMut"):
                        derived = ""
                    elif c.name in ("as_slice", "as_mut_slice", "as_mut", "as_bytes") and c.krate in ("core", "alloc", "std", "bytes"):
                        derived = ""
                    if derived is not None and node.args[0].kind in ("copy", "move") and node.args[0].place.is_local():
                        base = self.resolve_ref(node.args[0].place.local, depth + 1)
                        if base is not None:
                            res = (base[0], list(base[1]) + ([derived] if derived else []), base[2])
        self._alias_cache[local] = res
        return res

    def resolve_place(self, place, depth=0):
        """Name the memory a place denotes: (root_local, [fields], via_param)."""
        proj = list(place.proj)
        if proj and proj[0] == "deref":
            base = self.resolve_ref(place.local, depth + 1)
            if base is None:
                return None
            root, path, via = base
            rest = proj[1:]
        else:
            root, path, via = place.local, [], False
            rest = proj
        path = list(path)
        for el in rest:
            if isinstance(el, dict) and "f" in el:
                path.append(el["name"])
            elif isinstance(el, dict) and "down" in el:
                path.append("@" + el["name"])
            elif el == "deref":
                path.append("*")
            else:
                path.append("[]")
        return (root, path, via)

    def operand_target(self, op):
        """For a reference-typed operand: the memory it points to."""
        if op.kind not in ("copy", "move"):
            return None
        p = op.place
        if p.is_local():
            return self.resolve_ref(p.local)
        return None

    # ---- events on an object ------------------------------------------
    def events(self, root, via_param):
        """Ordered (per block) events touching the object rooted at `root`.
        Each event: dict(kind, bb, idx, path, ...).  kinds:
          write    assignment to a (sub)place of the object
          mutcall  call receiving &mut to (a sub-place of) the object
          readcall call receiving & to (a sub-place of) the object
          move     the whole object moved out (operand `move root`)
          def      (re)definition of the whole object (locals only)
        """
        fn = self.fn
        out = {}

        def match_place(pl):
            r = self.resolve_place(pl)
            if r is None:
                return None
            rl, path, via = r
            if rl == root and via == via_param:
                return path
            return None

        def ref_is_mut(local):
            # the type of the reference temporary decides
            t = fn.local_ty(local)
            if t.get("k") in ("ref", "ptr"):
                return bool(t.get("mut"))
            return None

        for b in fn.blocks:
            if b.cleanup or b.idx not in self.cfg.succ:
                continue
            evs = []
            for i, s in enumerate(b.stmts):
                if s.kind == "assign":
                    # writes
                    if not (s.place.is_local() and s.place.local != root):
                        path = match_place(s.place) if (s.place.proj or s.place.local == root) else None
                        if path is not None and not (via_param and not s.place.proj):
                            kind = "def" if (not path and not via_param and s.place.is_local()) else "write"
                            evs.append(dict(kind=kind, bb=b.idx, idx=i, path=path, stmt=s, sp=s.sp))
                    # a reference-typed object read through (`&(*obj)`, `(*obj)[i]`)
                    if not via_param:
                        thru = []
                        if s.rv.place is not None and s.rv.place.local == root and s.rv.place.proj and s.rv.place.proj[0] == "deref":
                            thru.append(s.rv.place)
                        for o in s.rv.ops:
                            if o.kind in ("copy", "move") and o.place.local == root and o.place.proj and o.place.proj[0] == "deref":
                                thru.append(o.place)
                        for pl in thru:
                            evs.append(dict(kind="read", bb=b.idx, idx=i, path=["*"], stmt=s, sp=s.sp))
                    # moves of the whole object out
                    for o in s.rv.ops:
                        if o.kind == "move" and o.place.is_local() and o.place.local == root and not via_param:
                            evs.append(dict(kind="move", bb=b.idx, idx=i, path=[], stmt=s, sp=s.sp))
                        elif o.kind in ("copy", "move") and (o.place.proj or (o.place.local == root and not via_param)):
                            # value read out of (a sub-place of) the object
                            rp = match_place(o.place)
                            if rp is not None and not (via_param and not o.place.proj):
                                evs.append(dict(kind="read", bb=b.idx, idx=i, path=rp, stmt=s, sp=s.sp))
            t = b.term
            if t.kind == "call":
                ti = len(b.stmts)
                for ai, a in enumerate(t.args):
                    if a.kind in ("copy", "move") and a.place.is_local():
                        tgt = self.resolve_ref(a.place.local)
                        if tgt is not None and tgt[0] == root and tgt[2] == via_param and a.place.local != root:
                            m = ref_is_mut(a.place.local)
                            evs.append(
                                dict(
                                    kind="mutcall" if m else "readcall",
                                    bb=b.idx,
                                    idx=ti,
                                    path=tgt[1],
                                    term=t,
                                    arg=ai,
                                    sp=t.sp,
                                )
                            )
                        elif a.place.local == root and not via_param and a.kind == "move":
                            evs.append(dict(kind="move", bb=b.idx, idx=ti, path=[], term=t, arg=ai, sp=t.sp))
                        elif a.place.local == root and via_param:
                            # the reference parameter itself handed on
                            m = ref_is_mut(root)
                            evs.append(
                                dict(kind="mutcall" if m else "readcall", bb=b.idx, idx=ti, path=[], term=t, arg=ai, sp=t.sp)
                            )
                if t.dest is not None and t.dest.is_local() and t.dest.local == root and not via_param:
                    evs.append(dict(kind="def", bb=b.idx, idx=ti, path=[], term=t, sp=t.sp))
                elif t.dest is not None and (t.dest.proj):
                    path = match_place(t.dest)
                    if path is not None:
                        evs.append(dict(kind="write", bb=b.idx, idx=ti, path=path, term=t, sp=t.sp))
            if evs:
                out[b.idx] = evs
        return out

    # ---- edge predicates -----------------------------------------------
    def switch_info(self, bb):
        """Describe what a switch block tests: returns (cond_expr, {target:
        set(values) or 'otherwise'}) with values mapped to variant names when
        the discriminant of an enum is tested."""
        b = self.fn.blocks[bb]
        t = b.term
        if t.kind != "switch":
            return None
        cond = self.operand_expr(t.discr, bb, len(b.stmts))
        names = None
        if cond.k == "discr" and cond.meta:
            names = {v: n for v, n in cond.meta}
        return cond, t.targets, t.otherwise, names

    def constraints_at(self, target, _unfold_depth=0):
        """Path constraints that hold whenever `target` executes: for every
        switch block D that dominates target, the subset of D's outgoing
        labels from which target is reachable without passing through D again.
        Returns list of (D, cond_expr, allowed_labels, all_labels) where a
        label is a variant name / integer / 'otherwise'."""
        cfg = self.cfg
        out = []
        for d in cfg.dominators_of(target):
            if d == target:
                continue
            info = self.switch_info(d)
            if info is None:
                continue
            cond, targets, otherwise, names = info
            labels = {}
            for v, tb in targets:
                labels.setdefault(names.get(v, v) if names else v, tb)
            # 'otherwise' stands for every value not listed
            listed = set(v for v, _ in targets)
            if names:
                for v, n in names.items():
                    if v not in listed:
                        labels.setdefault(n, otherwise)
            else:
                labels["otherwise"] = otherwise
            allowed = set()
            for lab, tb in labels.items():
                if tb in cfg.succ and target in cfg.reach(tb, avoid=(d,)):
                    allowed.add(lab)
            out.append((d, cond, allowed, set(labels)))
            # the switch tests a boolean temporary that was assigned constants on
            # different paths (`matches!`, `a && b`, a helper returning bool that was
            # inlined): the admitted value names the assignment the path came through,
            # and whatever held there holds here
            if _unfold_depth < 6 and not names and allowed and allowed != set(labels):
                via = self._bool_temp_origin(d, allowed)
                if via is not None and via != target:
                    for c in self.constraints_at(via, _unfold_depth + 1):
                        if c not in out:
                            out.append(c)
        return out

    def _bool_temp_origin(self, d, allowed):
        """block of the unique assignment `tmp = const v` that a path leaving
        switch block d through the `allowed` labels must have executed"""
        fn = self.fn
        t = fn.blocks[d].term
        if t.discr.kind not in ("copy", "move") or not t.discr.place.is_local():
            return None
        if not ({lab for lab in allowed} <= {0, 1, "otherwise"}):
            return None
        if fn.local_ty(t.discr.place.local).get("k") != "bool":
            return None
        if allowed == {0}:
            want = 0
        elif 0 not in allowed:
            want = 1
        else:
            return None
        cur = t.discr.place.local
        pos = (d, len(fn.blocks[d].stmts))
        for _ in range(12):
            rds = self.reaching_defs(cur, pos[0], pos[1])
            if len(rds) == 1 and rds[0] != "entry":
                dbb, didx, node = rds[0]
                rv = getattr(node, "rv", None)
                if rv is None:
                    return None
                if rv.kind == "use" and rv.ops[0].kind in ("copy", "move") and rv.ops[0].place.is_local():
                    cur = rv.ops[0].place.local
                    pos = (dbb, didx)
                    continue
                if rv.kind == "unop" and rv.j.get("op") == "Not" and rv.ops[0].kind in ("copy", "move") and rv.ops[0].place.is_local():
                    cur = rv.ops[0].place.local
                    pos = (dbb, didx)
                    want = 1 - want
                    continue
                return None
            sites = []
            for r in rds:
                if r == "entry":
                    return None
                dbb, didx, node = r
                rv = getattr(node, "rv", None)
                if rv is None or rv.kind != "use" or rv.ops[0].const_int() is None:
                    return None
                if int(rv.ops[0].const_int() != 0) == want:
                    sites.append(dbb)
            if len(sites) == 1:
                return sites[0]
            return None
        return None


# ------------------------------------------------------------- normalisers

TRANSPARENT_SUFFIX = (
    "::deref",
    "::deref_mut",
    "::as_ref",
    "::as_mut",
    "::borrow",
    "::borrow_mut",
    "::as_slice",
    "::as_mut_slice",
    "::as_bytes",
    "::as_str",
)


def is_transparent_call(e):
    if e.k != "call":
        return False
    c = e.a[0]
    n = c.name or ""
    if c.trait in ("std::ops::Deref", "std::ops::DerefMut", "std::convert::AsRef", "std::convert::AsMut", "std::borrow::Borrow", "std::borrow::BorrowMut"):
        return True
    if n in ("as_slice", "as_bytes", "as_str", "as_mut_slice") and c.krate in ("core", "alloc", "std", "bytes"):
        return True
    # x[..] is the whole of x
    if n in ("index", "index_mut") and c.trait in ("std::ops::Index", "std::ops::IndexMut") and "<std::ops::RangeFull>" in (c.full or ""):
        return True
    return False


def unmut(e):
    """look through the `mutated` marker (for rules that account for the
    mutations of a local themselves, e.g. via Analysis.events)"""
    e = strip(e)
    while e.k == "mutated":
        e = strip(e.a[0])
    return e


def strip(e):
    """Look through references, dereferences, reborrows and transparent
    view conversions (Deref/AsRef/Borrow/as_slice/as_bytes/...)."""
    while True:
        if e.k in ("ref", "deref"):
            e = e.a[0]
        elif is_transparent_call(e) and e.a[1]:
            e = e.a[1][0]
        elif e.k == "cast" and e.a[0].startswith("PointerCoercion"):
            e = e.a[1]
        elif e.k == "cast" and e.a[0] in ("Transmute", "PtrToPtr"):
            e = e.a[1]
        else:
            return e


def try_payload(e):
    """compat: the value being `?`-ed if e is the Continue payload of a branch"""
    if e.k == "vfield" and e.a[1] == "Continue":
        b = e.a[0]
        if b.k == "call" and b.a[0].trait == "std::ops::Try" and b.a[0].name == "branch":
            return b.a[1][0]
    return None


FAIL_VARIANTS = ("std::result::Result::Err", "std::option::Option::None")
OK_VARIANTS = ("std::result::Result::Ok", "std::option::Option::Some", "std::ops::ControlFlow::Continue")
PAYLOAD_PRESERVING = ("ok_or", "ok_or_else", "map_err", "inspect_err", "inspect", "or_else_err", "copied_err")


def is_failure_value(e):
    """an Option/Result value that is certainly None / Err (cannot feed a
    success payload)"""
    es = unmut_shallow(e)
    if es.k == "agg" and es.a[0] in FAIL_VARIANTS:
        return True
    if es.k == "call" and es.a[0].name == "from_residual" and (es.a[0].trait or "").endswith("FromResidual"):
        return True
    return False


def unmut_shallow(e):
    e = strip(e)
    while e.k == "mutated":
        e = strip(e.a[0])
    return e


def success_of(x, depth=0):
    """The success payload of an Option/Result-valued expression, in normal
    form: looks through `?` (Try::branch), ok_or/map_err (payload preserving),
    explicit Ok(..)/Some(..) construction and joins of alternatives (failure
    alternatives are dropped).  A call that returns an Option/Result stands
    for its own success payload."""
    x = unmut_shallow(x)
    if depth > 30:
        return x
    if x.k == "call":
        c = x.a[0]
        if c.trait == "std::ops::Try" and c.name == "branch" and x.a[1]:
            return success_of(x.a[1][0], depth + 1)
        if c.name in PAYLOAD_PRESERVING and x.a[1] and (c.fn.startswith("std::option::Option") or c.fn.startswith("std::result::Result")):
            return success_of(x.a[1][0], depth + 1)
        if c.name == "ok" and c.fn.startswith("std::result::Result") and x.a[1]:
            return success_of(x.a[1][0], depth + 1)
        if c.name == "and_then" and len(x.a[1]) == 2:
            f = strip(x.a[1][1])
            # x.and_then(Result::ok): Option<Result<T>> -> Option<T>
            if f.k == "const" and isinstance(f.a[0], tuple) and f.a[0][0] == "fn" and f.a[0][1].endswith("::ok"):
                return success_of(success_of(x.a[1][0], depth + 1), depth + 1)
        return x
    if x.k == "agg" and x.a[0] in OK_VARIANTS and "0" in x.a[1]:
        return x.a[1]["0"]
    if x.k == "phi":
        alts = [success_of(a, depth + 1) for a in x.a[0] if not is_failure_value(a)]
        uniq = []
        for a in alts:
            if not any(repr(strip(a)) == repr(strip(u)) for u in uniq):
                uniq.append(a)
        if len(uniq) == 1:
            return uniq[0]
        if uniq:
            return E("phi", uniq)
        return x
    if x.k == "vfield" and x.a[1] in ("Ok", "Some", "Continue"):
        # payload of a payload (Option<Result<T>>)
        return success_of(success_of(x.a[0], depth + 1), depth + 1) if False else x
    return x


def ok_payload(e):
    """x if e is `(x as Ok).0` / `(x as Some).0` / the `?` payload of x, with x
    reduced to its success normal form (see success_of)."""
    e = unmut_shallow(e)
    if e.k == "vfield" and e.a[1] in ("Ok", "Some", "Continue") and str(e.a[2]) == "0":
        return success_of(e.a[0])
    return None


def callee_is(e, *names, trait=None, krate=None):
    if e.k != "call":
        return False
    c = e.a[0]
    if names and c.name not in names:
        return False
    if trait and c.trait != trait:
        return False
    if krate and c.krate != krate:
        return False
    return True


def same_value(e1, e2):
    """do two origin trees denote the same computed value?  Structural
    equality, and call results must come from the same call site."""
    a, b = strip(e1), strip(e2)
    if repr(a) != repr(b):
        return False
    ca = [(c.site, c.a[0].full) for c in a.walk() if c.k == "call"]
    cb = [(c.site, c.a[0].full) for c in b.walk() if c.k == "call"]
    return ca == cb


def subst(e, fn_map):
    """rebuild tree e, replacing nodes for which fn_map(node) returns a
    replacement (not None)"""
    r = fn_map(e)
    if r is not None:
        return r
    new_a = []
    changed = False
    for x in e.a:
        if isinstance(x, E):
            y = subst(x, fn_map)
            changed = changed or (y is not x)
            new_a.append(y)
        elif isinstance(x, list):
            ys = [subst(y, fn_map) if isinstance(y, E) else y for y in x]
            changed = changed or any(a is not b for a, b in zip(ys, x))
            new_a.append(ys)
        elif isinstance(x, dict):
            ys = {k: (subst(v, fn_map) if isinstance(v, E) else v) for k, v in x.items()}
            changed = changed or any(ys[k] is not x[k] for k in x)
            new_a.append(ys)
        else:
            new_a.append(x)
    if not changed:
        return e
    return E(e.k, *new_a, site=e.site, meta=e.meta)


def deep_strip(e, depth=0):
    """e with references, dereferences, reborrows, `mutated` markers and
    transparent view conversions removed at *every* level: the access path of
    a projection, independent of how often it was reborrowed on the way"""
    e = unmut(e)
    if depth > 40:
        return e
    new_a = []
    for x in e.a:
        if isinstance(x, E):
            new_a.append(deep_strip(x, depth + 1))
        elif isinstance(x, list):
            new_a.append([deep_strip(y, depth + 1) if isinstance(y, E) else y for y in x])
        elif isinstance(x, dict):
            new_a.append({k: (deep_strip(v, depth + 1) if isinstance(v, E) else v) for k, v in x.items()})
        else:
            new_a.append(x)
    return E(e.k, *new_a, site=e.site, meta=e.meta)


def same_projection(e1, e2):
    """do two expressions denote the same call-free access path (e.g.
    self.seq), possibly in two different functions with the same parameters?"""
    a, b = deep_strip(e1), deep_strip(e2)
    if any(c.k in ("call", "icall") for c in a.walk()) or any(c.k in ("call", "icall") for c in b.walk()):
        return False
    return repr(a) == repr(b)


def closure_of(e):
    """path of the closure if e is a closure aggregate, plus captured exprs"""
    e = strip(e)
    if e.k == "agg" and e.a[0].startswith("closure:"):
        caps = [e.a[1][k] for k in sorted(e.a[1], key=int)]
        return e.a[0][len("closure:"):], caps
    return None


def assume(an, pred):
    """A path-restricted view of a function: `pred(cond_expr, names)` inspects
    every switch and returns the set of labels assumed possible (or None for
    no assumption); edges for other labels are removed from the CFG.  Returns a
    fresh Analysis over the pruned graph."""
    removed = set()
    for n in an.cfg.nodes:
        info = an.switch_info(n)
        if info is None:
            continue
        cond, targets, otherwise, names = info
        keep = pred(cond, names)
        if keep is None:
            continue
        labels = {}
        listed = set()
        for v, tb in targets:
            labels.setdefault(tb, set()).add(names.get(v, v) if names else v)
            listed.add(v)
        if names:
            for v, nm in names.items():
                if v not in listed:
                    labels.setdefault(otherwise, set()).add(nm)
        else:
            labels.setdefault(otherwise, set()).add("otherwise")
        for tb, labs in labels.items():
            if not (labs & set(keep)):
                removed.add((n, tb))
    return Analysis(an.fn, removed)


def payload_base(e, depth=0):
    """(base, n): e is the n-fold success payload of `base` (n >= 0), looking
    through `?`, ok_or/map_err and Ok/Some re-wrapping."""
    e = unmut_shallow(e)
    if depth > 20:
        return e, 0
    if e.k == "vfield" and e.a[1] in ("Ok", "Some", "Continue") and str(e.a[2]) == "0":
        inner = unmut_shallow(e.a[0])
        # containers that forward their payload
        for _ in range(10):
            if inner.k == "call" and inner.a[0].trait == "std::ops::Try" and inner.a[0].name == "branch" and inner.a[1]:
                inner = unmut_shallow(inner.a[1][0])
                continue
            if inner.k == "call" and inner.a[0].name in PAYLOAD_PRESERVING and inner.a[1]:
                inner = unmut_shallow(inner.a[1][0])
                continue
            break
        if inner.k == "agg" and inner.a[0] in OK_VARIANTS and "0" in inner.a[1]:
            return payload_base(inner.a[1]["0"], depth + 1)
        b, n = payload_base(inner, depth + 1)
        return b, n + 1
    return e, 0


VARIANT_OF_AGG = {
    "std::result::Result::Ok": "Ok", "std::result::Result::Err": "Err",
    "std::option::Option::Some": "Some", "std::option::Option::None": "None",
    "std::ops::ControlFlow::Continue": "Continue", "std::ops::ControlFlow::Break": "Break",
}
BRANCH_OF = {"Ok": "Continue", "Some": "Continue", "Err": "Break", "None": "Break"}


def feasible_reach(an, start, env=None, limit=4000):
    """Blocks reachable from `start` when the variant of locals that were just
    built as Ok/Err/Some/None (or derived from such by move, `?`) is tracked:
    a switch on the discriminant of a local whose variant is known follows
    only the matching edge.  Everything unknown is followed both ways."""
    fn = an.fn
    cfg = an.cfg
    seen = set()
    out = set()
    stack = [(start, dict(env or {}))]
    steps = 0
    while stack and steps < limit:
        steps += 1
        bb, e = stack.pop()
        if bb not in cfg.succ:
            continue
        key = (bb, frozenset(e.items()))
        if key in seen:
            continue
        seen.add(key)
        out.add(bb)
        e = dict(e)
        b = fn.blocks[bb]
        for s in b.stmts:
            if s.kind != "assign" or not s.place.is_local():
                if s.kind == "assign" and s.place.local in e:
                    e.pop(s.place.local, None)
                continue
            L = s.place.local
            rv = s.rv
            if rv.kind == "aggregate" and rv.j.get("agg") == "adt":
                v = VARIANT_OF_AGG.get("%s::%s" % (rv.j["adt"], rv.j["variant"]))
                if v:
                    e[L] = v
                else:
                    e.pop(L, None)
            elif rv.kind == "use" and rv.ops[0].kind in ("copy", "move") and rv.ops[0].place.is_local() and rv.ops[0].place.local in e:
                e[L] = e[rv.ops[0].place.local]
            elif rv.kind == "use" and rv.ops[0].kind == "const" and rv.ops[0].const_int() is not None:
                # boolean / integer temporaries set on one branch and tested after a join
                e[L] = ("c", rv.ops[0].const_int())
                e.pop(("d", L), None)
            elif rv.kind == "unop" and rv.j["op"] == "Not" and rv.ops[0].kind in ("copy", "move") and rv.ops[0].place.is_local() and isinstance(e.get(rv.ops[0].place.local), tuple) and e[rv.ops[0].place.local][0] == "c":
                e[L] = ("c", 0 if e[rv.ops[0].place.local][1] else 1)
            elif rv.kind == "discr" and rv.place.is_local() and rv.place.local in e and rv.j.get("variants"):
                val = None
                for vv, nm in rv.j["variants"]:
                    if nm == e[rv.place.local]:
                        val = vv
                if val is not None:
                    e[("d", L)] = val
                else:
                    e.pop(("d", L), None)
                e.pop(L, None)
            else:
                e.pop(L, None)
                e.pop(("d", L), None)
        t = b.term
        if t.kind == "call":
            L = t.dest.local if (t.dest is not None and t.dest.is_local()) else None
            if L is not None:
                e.pop(L, None)
                c = t.callee
                if c is not None and c.trait == "std::ops::Try" and c.name == "branch" and t.args and t.args[0].kind in ("copy", "move") and t.args[0].place.is_local():
                    src = e.get(t.args[0].place.local)
                    if src in BRANCH_OF:
                        e[L] = BRANCH_OF[src]
                elif c is not None and c.name == "from_residual":
                    e[L] = "Err"
            for s2 in cfg.succ[bb]:
                stack.append((s2, e))
        elif t.kind == "switch":
            d = t.discr
            val = None
            if d.kind in ("copy", "move") and d.place.is_local():
                val = e.get(("d", d.place.local))
                cv = e.get(d.place.local)
                if val is None and isinstance(cv, tuple) and cv[0] == "c":
                    val = cv[1]
            if val is not None:
                tgt = None
                for vv, tb in t.targets:
                    if vv == val:
                        tgt = tb
                if tgt is None:
                    tgt = t.otherwise
                if tgt in cfg.succ and (bb, tgt) not in cfg.removed:
                    stack.append((tgt, e))
            else:
                for s2 in cfg.succ[bb]:
                    stack.append((s2, e))
        else:
            for s2 in cfg.succ[bb]:
                stack.append((s2, e))
    return out


def result_passthrough(an, rets, is_source):
    """Does a function return "the Result of SOURCE, up to error conversion"?
    rets: [(bb, idx, expr, node)] return expressions; is_source(call_expr) ->
    bool recognises the source call.  Accepted per return:
      * SOURCE itself, possibly under map_err(..)            (direct)
      * Ok(v) with v the success payload of SOURCE           (match/if-let/? forms)
      * an error value returned exactly when SOURCE failed: derived from
        SOURCE's residual (`?`), or any Err(..) in a block that is
        control-dependent on SOURCE being Err
    Returns (number of returns tied to SOURCE, [problem strings])."""
    n = 0
    problems = []
    for bb, idx, e, node in rets:
        es = strip(e)
        cur = es
        while cur.k == "call" and cur.a[0].name == "map_err" and cur.a[1]:
            cur = strip(cur.a[1][0])
        if cur.k == "call" and is_source(cur):
            n += 1
            continue
        if es.k == "agg" and es.a[0].endswith("Result::Ok"):
            v = strip(es.a[1]["0"])
            p = ok_payload(v)
            if p is not None and strip(p).k == "call" and is_source(strip(p)):
                n += 1
                continue
            problems.append("returns Ok(%s), which is not the value SOURCE produced" % _short(v))
            continue
        # error results
        tied = any(x.k == "call" and is_source(x) for x in es.walk()) and not (es.k == "agg" and es.a[0].endswith("Result::Ok"))
        if not tied:
            for d, cond, allowed, alll in an.constraints_at(bb):
                if cond.k == "discr" and allowed and allowed <= {"Err", "Break"}:
                    c = strip(cond.a[0])
                    if c.k == "call" and c.a[0].name == "branch" and c.a[1]:
                        c = strip(c.a[1][0])
                    while c.k == "call" and c.a[0].name == "map_err" and c.a[1]:
                        c = strip(c.a[1][0])
                    if c.k == "call" and is_source(c):
                        tied = True
        is_err = (es.k == "agg" and es.a[0].endswith("Result::Err")) or (es.k == "call" and es.a[0].name == "from_residual")
        if tied and is_err:
            n += 1
            continue
        problems.append("returns %s" % _short(e))
    return n, problems


def _short(e, n=160):
    s = repr(e)
    return s if len(s) <= n else s[: n - 3] + "..."

