"""Value classes of alloy-rlp 0.3.x codecs (transcribed from the pinned source):
which RLP items a Decodable impl accepts / an Encodable impl produces.

  ("UINT", bits)    canonical big-endian integer below 2^bits (no leading zero)
  ("BYTES", n)      byte string, n = exact payload length or None for any
  ("UTF8",)         byte string that is valid UTF-8 (encode side: any str)
  ("LIST", cls)     list whose items are all of class cls
  ("BOOL",)
  ("ITEM",)         exactly one item of any kind (header-validated)
"""
import re


def class_of_type(ty):
    t = ty.strip()
    while t.startswith("&"):
        t = t[1:].strip()
        if t.startswith("mut "):
            t = t[4:].strip()
        if t.startswith("'"):
            t = t.split(" ", 1)[1] if " " in t else t
    m = re.match(r"^u(8|16|32|64|128)$", t)
    if m:
        return ("UINT", int(m.group(1)))
    if t == "usize":
        return ("UINT", 64)
    if t == "bool":
        return ("BOOL",)
    if t in ("[u8]", "alloy_rlp::Bytes", "bytes::Bytes", "alloy_rlp::BytesMut", "bytes::BytesMut"):
        return ("BYTES", None)
    m = re.match(r"^\[u8; (\d+)\]$", t)
    if m:
        return ("BYTES", int(m.group(1)))
    if t == "std::net::Ipv4Addr":
        return ("BYTES", 4)
    if t == "std::net::Ipv6Addr":
        return ("BYTES", 16)
    if t in ("str", "std::string::String"):
        return ("UTF8",)
    m = re.match(r"^std::vec::Vec<(.*)>$", t)
    if m:
        return ("LIST", class_of_type(m.group(1)))
    return ("UNKNOWN", t)


def consumer_class(term):
    """class of the item a call consumes from the cursor it receives"""
    c = term.callee
    if c is None:
        return ("UNKNOWN", "indirect call")
    if c.name == "decode_bytes" and "alloy_rlp::Header" in c.fn:
        flag = term.args[1].const_int() if len(term.args) > 1 else None
        if flag == 0:
            return ("BYTES", None)
        if flag == 1:
            return ("LISTPAYLOAD",)
        return ("UNKNOWN", "decode_bytes with non-constant kind")
    if c.name == "decode" and (c.trait or "").endswith("alloy_rlp::Decodable"):
        st = c.self_ty["s"] if c.self_ty else "?"
        return class_of_type(st)
    if c.name == "decode" and "alloy_rlp::Header" in c.fn:
        return ("HEADER",)
    if c.name == "decode_str" and "alloy_rlp::Header" in c.fn:
        return ("UTF8",)
    if c.name == "advance":
        return ("ADVANCE",)
    return ("UNKNOWN", c.full)


def encoder_class(callee):
    """class of the item produced by `alloy_rlp::encode::<T>` or
    `<T as Encodable>::encode`"""
    if callee.fn == "alloy_rlp::encode" and callee.targs:
        return class_of_type(callee.targs[0]["s"])
    if callee.name in ("encode", "length") and (callee.trait or "").endswith("alloy_rlp::Encodable") and callee.self_ty:
        return class_of_type(callee.self_ty["s"])
    return ("UNKNOWN", callee.full)


def sub(a, b):
    """is class a a sub-class of class b (every a-item is a b-item)?"""
    if a == b:
        return True
    if b == ("ITEM",):
        return a[0] in ("UINT", "BYTES", "UTF8", "LIST", "BOOL", "ITEM")
    if a[0] == "BYTES" and b[0] == "BYTES":
        return b[1] is None or a[1] == b[1]
    if a[0] == "UTF8" and b == ("BYTES", None):
        return True
    if a[0] == "UINT" and b[0] == "UINT":
        return a[1] <= b[1]
    if a[0] == "LIST" and b[0] == "LIST":
        return sub(a[1], b[1])
    return False


def fmt(c):
    if c is None:
        return "-"
    if c[0] == "UINT":
        return "UINT%d" % c[1]
    if c[0] == "BYTES":
        return "BYTES(%s)" % ("*" if c[1] is None else c[1])
    if c[0] == "LIST":
        return "LIST(%s)" % fmt(c[1])
    if c[0] == "UNKNOWN":
        return "UNKNOWN<%s>" % c[1]
    return c[0]
