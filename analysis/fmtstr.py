"""A11 - abstract strings: decode what a `format!`/`write!` produces from the
toolchain's byte-coded template (layout documented in core::fmt, nightly
1.97) and the `Argument::new_*::<T>(x)` array, as a sequence of
  ("lit", bytes)  |  ("arg", kind, value_expr, type_string, options)
"""
from kernel import strip


class BadTemplate(Exception):
    pass


def decode_template(t):
    """-> list of ('lit', bytes) / ('ph', arg_index or None, opts dict)"""
    out = []
    i = 0
    n = len(t)
    while True:
        if i >= n:
            raise BadTemplate("unterminated template")
        b = t[i]
        i += 1
        if b == 0:
            if i != n:
                raise BadTemplate("bytes after the end marker")
            return out
        if b < 0x80:
            out.append(("lit", bytes(t[i:i + b])))
            i += b
        elif b == 0x80:
            ln = t[i] | (t[i + 1] << 8)
            i += 2
            out.append(("lit", bytes(t[i:i + ln])))
            i += ln
        elif b >= 0xC0:
            opts = {}
            idx = None
            if b & 1:
                opts["flags"] = int.from_bytes(t[i:i + 4], "little")
                i += 4
            if b & 2:
                opts["width"] = int.from_bytes(t[i:i + 2], "little")
                i += 2
            if b & 4:
                opts["precision"] = int.from_bytes(t[i:i + 2], "little")
                i += 2
            if b & 8:
                idx = int.from_bytes(t[i:i + 2], "little")
                i += 2
            if b & 16:
                opts["width_indirect"] = True
            if b & 32:
                opts["precision_indirect"] = True
            out.append(("ph", idx, opts))
        else:
            raise BadTemplate("unknown template byte 0x%02x" % b)


def pieces_of_arguments(e):
    """e: expression of a core::fmt::Arguments value -> list of pieces, or None"""
    e = strip(e)
    if e.k != "call":
        return None
    c = e.a[0]
    if c.name == "from_str" and "fmt::Arguments" in c.fn and e.a[1]:
        s = strip(e.a[1][0])
        if s.k == "const" and isinstance(s.a[0], bytes):
            return [("lit", s.a[0])]
        return None
    if c.name == "new" and "fmt::Arguments" in c.fn and len(e.a[1]) == 2:
        t = strip(e.a[1][0])
        arr = strip(e.a[1][1])
        if not (t.k == "const" and isinstance(t.a[0], bytes)):
            return None
        if not (arr.k == "agg" and arr.a[0] == "array"):
            return None
        args = []
        for k in sorted(arr.a[1], key=int):
            a = strip(arr.a[1][k])
            if not (a.k == "call" and a.a[0].name.startswith("new_") and "fmt::rt::Argument" in a.a[0].fn and a.a[1]):
                return None
            kind = a.a[0].name[len("new_"):]
            ty = a.a[0].targs[0]["s"] if a.a[0].targs else "?"
            args.append((kind, strip(a.a[1][0]), ty))
        try:
            tpl = decode_template(t.a[0])
        except BadTemplate:
            return None
        out = []
        nxt = 0
        for p in tpl:
            if p[0] == "lit":
                if out and out[-1][0] == "lit":
                    out[-1] = ("lit", out[-1][1] + p[1])
                else:
                    out.append(p)
            else:
                idx = p[1] if p[1] is not None else nxt
                nxt = idx + 1
                if idx >= len(args):
                    return None
                kind, v, ty = args[idx]
                vs = strip(v)
                if kind == "display" and not p[2] and vs.k == "const" and isinstance(vs.a[0], bytes):
                    # `{CONST}` with a constant &str: the text itself
                    if out and out[-1][0] == "lit":
                        out[-1] = ("lit", out[-1][1] + vs.a[0])
                    else:
                        out.append(("lit", vs.a[0]))
                    continue
                out.append(("arg", kind, v, ty, p[2]))
        return out
    return None


def pieces_of_string(e, an=None):
    """expression of a String produced by format!() (or, given the analysis,
    assembled in a local String buffer) -> pieces"""
    e = strip(e)
    if e.k == "mutated" and an is not None:
        return pieces_of_string_buffer(an, e.a[1])
    if e.k == "call" and e.a[0].name == "must_use" and e.a[1]:
        e = strip(e.a[1][0])
    if e.k == "call" and e.a[0].fn in ("std::fmt::format", "alloc::fmt::format") and e.a[1]:
        return pieces_of_arguments(e.a[1][0])
    if e.k == "call" and e.a[0].name in ("to_string", "to_owned", "from", "into") and e.a[1]:
        s = strip(e.a[1][0])
        if s.k == "const" and isinstance(s.a[0], bytes):
            return [("lit", s.a[0])]
    return None


def write_fmt_pieces(e):
    """expression `Formatter::write_fmt(f, ARGS)` -> pieces"""
    e = strip(e)
    if e.k == "call" and e.a[0].name == "write_fmt" and len(e.a[1]) == 2:
        return pieces_of_arguments(e.a[1][1])
    if e.k == "call" and e.a[0].name == "write_str" and len(e.a[1]) == 2:
        s = strip(e.a[1][1])
        if s.k == "const" and isinstance(s.a[0], bytes):
            return [("lit", s.a[0])]
        # f.write_str(&s) writes s as {} would
        return [("arg", "display", s, "str", {})]
    return None


def pieces_of_string_buffer(an, local):
    """A String built as `String::new()/with_capacity(..)` followed only by
    push_str / push calls: -> pieces, or None"""
    import shapes
    d = shapes.def_expr(an, local)
    if d is None:
        return None
    from kernel import unmut
    d = unmut(d)
    out = []
    if d.k == "call" and d.a[0].name in ("from", "to_string", "to_owned", "into") and d.a[1] and strip(d.a[1][0]).k == "const" and isinstance(strip(d.a[1][0]).a[0], bytes):
        out.append(("lit", strip(d.a[1][0]).a[0]))
    elif not (d.k == "call" and d.a[0].name in ("new", "with_capacity") and "String" in d.a[0].fn):
        return None
    for mu in shapes.mutations(an, local):
        if mu["kind"] != "mutcall":
            return None
        t = mu["term"]
        c = t.callee
        if c is not None and c.name == "encode_string" and (c.trait or "").endswith("base64::Engine") and len(t.args) == 3 and mu.get("arg") == 2:
            # ENGINE.encode_string(bytes, &mut buf) appends what ENGINE.encode(bytes) returns
            out.append(("arg", "display", an.call_expr(t, mu["bb"]), "String", {}))
            continue
        if c is None or c.name not in ("push_str", "push") or "String" not in c.fn or len(t.args) != 2:
            return None
        a = strip(an.operand_expr(t.args[1], mu["bb"], mu["idx"]))
        if a.k == "const" and isinstance(a.a[0], bytes):
            if out and out[-1][0] == "lit":
                out[-1] = ("lit", out[-1][1] + a.a[0])
            else:
                out.append(("lit", a.a[0]))
        else:
            out.append(("arg", "display", a, "String", {}))
    return out


def flatten_pieces(an, pieces, depth=0):
    """a `{}` argument that is itself a String assembled in a local buffer
    (a helper like `prefixed_hex` spliced in) is replaced by the pieces of that
    buffer; adjacent literals are merged"""
    if pieces is None:
        return None
    out = []
    for p in pieces:
        sub = None
        if p[0] == "arg" and p[1] == "display" and not p[4] and depth < 3:
            v = strip(p[2])
            if v.k == "mutated":
                sub = pieces_of_string_buffer(an, v.a[1])
                sub = flatten_pieces(an, sub, depth + 1) if sub is not None else None
        for q in (sub if sub is not None else [p]):
            if q[0] == "lit" and out and out[-1][0] == "lit":
                out[-1] = ("lit", out[-1][1] + q[1])
            else:
                out.append(q)
    return out

