"""Developer probe for the record typestate."""
import sys, os
sys.path.insert(0, os.path.dirname(os.path.abspath(__file__)))
from probe import load
from common import Ctx
from rules.typestate import RecordFlow, work_objects, commit_sites, INITIAL_VALID

facts = load(sys.argv[1])
ctx = Ctx(facts)
for pat in sys.argv[2:]:
    for f in facts.fns:
        if pat in f.path and f.kind == "AssocFn":
            an = ctx.an(f)
            objs = work_objects(ctx, f)
            commits = commit_sites(ctx, f)
            print("==", f.path, "objects", [o[0] for o in objs], "commits", [(c[0], c[1], c[2]) for c in commits])
            for l, d in objs:
                rf = RecordFlow(ctx, f, l, False)
                start = d[2].target
                rf.solve(start, INITIAL_VALID)
                for ev, act in rf.all_actions():
                    print("   bb%d.%d %-8s %s -> %s" % (ev["bb"], ev["idx"], ev["kind"], ev["path"], str(act)[:200]))
                for bb, idx, src, stmt in commits:
                    if src == l:
                        # state at the move of the object
                        print("   commit at bb%d: state" % bb, rf.state_before(bb, idx))
                        for ev in rf.events.get(bb, []):
                            pass
                print("   guards", rf.size_guards)
