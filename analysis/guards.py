"""F5 guard-set solver: the set of values of a quantity q for which a switch
edge is taken, for guards of the form `q (op) const` (either operand order,
optionally negated).  Sets are finite unions of closed integer intervals over
the naturals; INF stands for +infinity."""

INF = float("inf")


def _norm(ivs):
    ivs = sorted((lo, hi) for lo, hi in ivs if lo <= hi)
    out = []
    for lo, hi in ivs:
        if out and lo <= out[-1][1] + 1:
            out[-1] = (out[-1][0], max(out[-1][1], hi))
        else:
            out.append((lo, hi))
    return out


def complement(ivs):
    out = []
    cur = 0
    for lo, hi in _norm(ivs):
        if lo > cur:
            out.append((cur, lo - 1))
        cur = hi + 1
        if hi == INF:
            cur = INF
            break
    if cur != INF:
        out.append((cur, INF))
    return _norm(out)


def intersect(a, b):
    out = []
    for lo1, hi1 in a:
        for lo2, hi2 in b:
            lo, hi = max(lo1, lo2), min(hi1, hi2)
            if lo <= hi:
                out.append((lo, hi))
    return _norm(out)


def subset(a, b):
    return intersect(a, b) == _norm(a)


def op_set(op, c):
    """{q : q op c}"""
    if op == "Gt":
        return _norm([(c + 1, INF)])
    if op == "Ge":
        return _norm([(c, INF)])
    if op == "Lt":
        return _norm([(0, c - 1)])
    if op == "Le":
        return _norm([(0, c)])
    if op == "Eq":
        return _norm([(c, c)])
    if op == "Ne":
        return complement([(c, c)])
    return None


FLIP = {"Gt": "Lt", "Ge": "Le", "Lt": "Gt", "Le": "Ge", "Eq": "Eq", "Ne": "Ne"}


def cond_true_set(cond, const_of):
    """For a boolean expression tree `cond` return (q_expr, set of q for which
    cond is true), or None if the shape is not `q op const`.  `const_of(e)`
    returns an int for constant sub-expressions (after looking through
    copies), else None."""
    if cond.k == "unop" and cond.a[0] == "Not":
        r = cond_true_set(cond.a[1], const_of)
        if r is None:
            return None
        return r[0], complement(r[1])
    if cond.k != "binop":
        return None
    op, a, b = cond.a
    ca, cb = const_of(a), const_of(b)
    if cb is not None and ca is None:
        s = op_set(op, cb)
        return (a, s) if s is not None else None
    if ca is not None and cb is None:
        s = op_set(FLIP.get(op, "?"), ca)
        return (b, s) if s is not None else None
    return None


def edge_set(cond, label, const_of):
    """set of q for which a switchInt on `cond` takes the edge labelled
    `label` (0 = false, 1/'otherwise' = true)."""
    r = cond_true_set(cond, const_of)
    if r is None:
        return None
    q, s = r
    if label == 0:
        return q, complement(s)
    if label in (1, "otherwise"):
        return q, s
    return None


def fmt(ivs):
    return " u ".join("[%s,%s]" % (lo, "inf" if hi == INF else hi) for lo, hi in ivs) or "{}"


def linear(e, const_of, strip):
    """Decompose a sum: returns (atoms, constant) with e == sum(atoms) + constant.
    Understands Add / AddWithOverflow(.0) / AddUnchecked; anything else is an atom."""
    e = strip(e)
    if e.k == "field" and e.a[1] == "0" and e.a[0].k == "binop" and e.a[0].a[0] in ("AddWithOverflow",):
        e = E_add(e.a[0])
    if e.k == "binop" and e.a[0] in ("Add", "AddUnchecked", "AddWithOverflow"):
        a1, c1 = linear(e.a[1], const_of, strip)
        a2, c2 = linear(e.a[2], const_of, strip)
        return a1 + a2, c1 + c2
    c = const_of(e)
    if c is not None:
        return [], c
    return [e], 0


def E_add(b):
    return b


def shift(ivs, c):
    """{q - c : q in ivs} restricted to naturals"""
    out = []
    for lo, hi in ivs:
        nlo = max(0, lo - c)
        nhi = hi if hi == INF else hi - c
        if nhi >= 0:
            out.append((nlo, nhi))
    return _norm(out)


def constraint_set(cond, allowed, const_of, strip):
    """Generalised guard: the set of values of a quantity q admitted by a
    dominating switch constraint (cond, allowed labels).  Understands
      * boolean comparisons `q op const` (one allowed label),
      * a switch on q itself (allowed = explicit integer labels),
      * `match q.cmp(&const) { Less | Equal | Greater }` (Ordering labels).
    Returns (q_expr, set) or None."""
    c = strip(cond)
    if c.k == "discr" and allowed and all(isinstance(a, str) and a in ("Less", "Equal", "Greater") for a in allowed):
        inner = strip(c.a[0])
        if inner.k == "call" and inner.a[0].name in ("cmp", "partial_cmp") and len(inner.a[1]) == 2:
            a, b = inner.a[1]
            ca, cb = const_of(a), const_of(b)
            if cb is not None and ca is None:
                q, k, flip = a, cb, False
            elif ca is not None and cb is None:
                q, k, flip = b, ca, True
            else:
                return None
            out = []
            for lab in allowed:
                if flip:
                    lab = {"Less": "Greater", "Greater": "Less", "Equal": "Equal"}[lab]
                out += {"Less": [(0, k - 1)], "Equal": [(k, k)], "Greater": [(k + 1, INF)]}[lab]
            return q, _norm(out)
    if allowed and all(isinstance(a, int) for a in allowed) and c.k not in ("binop", "unop"):
        return cond, _norm([(a, a) for a in allowed])
    if len(allowed) == 1:
        return edge_set(cond, list(allowed)[0], const_of)
    return None
