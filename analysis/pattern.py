"""Tiny pattern language over origin trees (kernel.E), used by the
expression-shape rules (DESIGN F6).  Matching looks through references,
reborrows and transparent view conversions at every level (kernel.strip)."""
from kernel import E, ok_payload, strip

ANY = ("any",)


def call(name=None, args=None, trait=None, fn=None, self_ty=None, target=None, krate=None, full=None):
    spec = {}
    if full is not None:
        spec["full"] = full
    if name is not None:
        spec["name"] = name
    if trait is not None:
        spec["trait"] = trait
    if fn is not None:
        spec["fn"] = fn
    if self_ty is not None:
        spec["self_ty"] = self_ty
    if target is not None:
        spec["target"] = target
    if krate is not None:
        spec["krate"] = krate
    return ("call", spec, args)


def param(i):
    return ("param", i)


def const(v):
    return ("const", v)


def field(base, name):
    return ("field", base, name)


def vfield(base, variant, fname="0"):
    return ("vfield", base, variant, fname)


def ok(p):
    return ("ok", p)


def bind(name, p=ANY):
    return ("bind", name, p)


def agg(name_end, fields=None):
    return ("agg", name_end, fields or {})


def either(*ps):
    return ("or",) + ps


def _spec_ok(c, spec):
    if "name" in spec:
        names = spec["name"] if isinstance(spec["name"], (tuple, list)) else (spec["name"],)
        if c.name not in names:
            return False
    if "trait" in spec and not (c.trait or "").endswith(spec["trait"]):
        return False
    if "fn" in spec and spec["fn"] not in c.fn:
        return False
    if "full" in spec and spec["full"] not in c.full and spec["full"] not in c.target_full():
        return False
    if "target" in spec and not c.target().endswith(spec["target"]):
        return False
    if "krate" in spec and c.krate != spec["krate"]:
        return False
    if "self_ty" in spec:
        st = c.self_ty["s"] if c.self_ty else (c.impl_self or "")
        want = spec["self_ty"]
        if callable(want):
            if not want(st):
                return False
        elif st != want:
            return False
    return True


def match(e, p, b=None):
    """returns bindings dict on success, None on failure"""
    if b is None:
        b = {}
    if e is None:
        return None
    if callable(p):
        return b if p(strip(e)) else None
    k = p[0]
    if k == "any":
        return b
    if k == "bind":
        r = match(e, p[2], b)
        if r is None:
            return None
        if p[1] in r and repr(strip(r[p[1]])) != repr(strip(e)):
            return None
        r[p[1]] = e
        return r
    if k == "or":
        for alt in p[1:]:
            r = match(e, alt, dict(b))
            if r is not None:
                return r
        return None
    if k == "ok":
        inner = ok_payload(strip(e))
        if inner is None:
            return None
        return match(inner, p[1], b)
    es = strip(e)
    if k == "param":
        return b if (es.k == "param" and es.a[0] == p[1]) else None
    if k == "const":
        if es.k != "const":
            return None
        v = p[1]
        if callable(v):
            return b if v(es.a[0]) else None
        return b if es.a[0] == v else None
    if k == "call":
        if es.k != "call":
            return None
        if not _spec_ok(es.a[0], p[1]):
            return None
        if p[2] is None:
            return b
        if len(p[2]) != len(es.a[1]):
            return None
        for sub, a in zip(p[2], es.a[1]):
            b = match(a, sub, b)
            if b is None:
                return None
        return b
    if k == "field":
        if es.k != "field" or es.a[1] != p[2]:
            return None
        return match(es.a[0], p[1], b)
    if k == "vfield":
        if es.k != "vfield" or es.a[1] != p[2] or str(es.a[2]) != str(p[3]):
            return None
        return match(es.a[0], p[1], b)
    if k == "agg":
        if es.k != "agg" or not es.a[0].endswith(p[1]):
            return None
        for fname, sub in p[2].items():
            if fname not in es.a[1]:
                return None
            b = match(es.a[1][fname], sub, b)
            if b is None:
                return None
        return b
    if k == "binop":
        if es.k != "binop" or es.a[0] != p[1]:
            return None
        b = match(es.a[1], p[2], b)
        if b is None:
            return None
        return match(es.a[2], p[3], b)
    if k == "index":
        if es.k != "call" or es.a[0].name not in ("index", "index_mut"):
            return None
        b = match(es.a[1][0], p[1], b)
        if b is None:
            return None
        return match(es.a[1][1], p[2], b)
    raise ValueError("bad pattern %r" % (p,))


def nontransparent_calls(e):
    """all call nodes of a tree that are not transparent views (for 'nothing
    else happens to this value' checks)"""
    from kernel import is_transparent_call

    return [c for c in e.walk() if c.k == "call" and not is_transparent_call(c)]
