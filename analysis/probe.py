"""Developer probe: print return-value origin trees and path constraints."""
import sys, json, os, pickle
sys.path.insert(0, os.path.dirname(os.path.abspath(__file__)))
from extract import QUICK_CONFIGS, all_configs, extract
from facts import Facts
from kernel import Analysis

def load(cfg):
    cfgs = dict(QUICK_CONFIGS); cfgs.update(all_configs())
    return Facts(extract({cfg: cfgs[cfg]})[cfg])

if __name__ == "__main__":
    facts = load(sys.argv[1])
    for pat in sys.argv[2:]:
        for f in facts.fns:
            if pat in f.path:
                an = Analysis(f)
                print("==", f.path)
                for b in f.blocks:
                    if b.idx not in an.cfg.succ: continue
                    for i, s in enumerate(b.stmts):
                        if s.kind == "assign" and s.place.is_local() and s.place.local == 0:
                            print("  bb%d: _0 = %r" % (b.idx, an.rvalue_expr(s.rv, b.idx, i)))
                            for d, cond, allowed, alll in an.constraints_at(b.idx):
                                if allowed != alll:
                                    print("      if bb%d %r in %s" % (d, cond, sorted(map(str, allowed))))
                    t = b.term
                    if t.kind == "call" and t.dest.is_local() and t.dest.local == 0:
                        print("  bb%d: _0 = %r" % (b.idx, an.call_expr(t, b.idx)))
                        for d, cond, allowed, alll in an.constraints_at(b.idx):
                            if allowed != alll:
                                print("      if bb%d %r in %s" % (d, cond, sorted(map(str, allowed))))
