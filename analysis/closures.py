"""Inline a closure body into the expression that passes it to a combinator."""
from kernel import E, closure_of, strip, subst


def closure_return(ctx, path, captured, args):
    """return-value expressions of closure `path` with its captured variables
    and explicit arguments substituted. args: list of E for closure params 2.."""
    f = ctx.facts.fn(path)
    if f is None:
        return None
    an = ctx.an(f)
    outs = []
    for bb, idx, node in an.defs().get(0, []):
        if bb not in an.cfg.succ:
            continue
        rv = getattr(node, "rv", None)
        e = an.rvalue_expr(rv, bb, idx) if rv is not None else an.call_expr(node, bb)

        def m(x):
            # captured variable: field(param1 [deref], i)
            if x.k == "field" and str(x.a[1]).isdigit():
                b = x.a[0]
                while b.k in ("deref", "ref"):
                    b = b.a[0]
                if b.k == "param" and b.a[0] == 1:
                    i = int(x.a[1])
                    if i < len(captured):
                        return captured[i]
            if x.k == "param" and x.a[0] >= 2:
                j = x.a[0] - 2
                if j < len(args):
                    return args[j]
            return None

        outs.append(subst(e, m))
    return outs
