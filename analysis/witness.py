"""E4 - run the compile-fail witness crate (rustdoc on nightly; nothing of the
library is executed: twins are `no_run`) against /repo's current tree and
return {witness name: (ok, detail)}."""
import os
import re
import shutil
import subprocess

from extract import CACHE, REPO, VERIF


def run_witnesses(repo=None):
    repo = repo or REPO
    wdir = os.path.join(VERIF, "witness")
    work = wdir
    if os.path.abspath(repo) != "/repo":
        # witnesses name /repo as a path dependency; for another tree use a patched copy
        work = os.path.join(CACHE, "witness-copy")
        shutil.rmtree(work, ignore_errors=True)
        shutil.copytree(wdir, work, ignore=shutil.ignore_patterns("target"))
        ct = os.path.join(work, "Cargo.toml")
        s = open(ct).read().replace('path = "/repo"', 'path = "%s"' % os.path.abspath(repo))
        open(ct, "w").write(s)
    shutil.copy(os.path.join(repo, "Cargo.lock"), os.path.join(work, "Cargo.lock"))
    env = dict(os.environ, CARGO_NET_OFFLINE="true", CARGO_TARGET_DIR=os.path.join(CACHE, "witness-target"))
    p = subprocess.run(["cargo", "+nightly", "test", "--doc", "--offline"], cwd=work, env=env, stdout=subprocess.PIPE, stderr=subprocess.STDOUT, text=True)
    out = p.stdout
    res = {}
    for m in re.finditer(r"^test src/lib\.rs - (\w+) \(line \d+\)( - compile fail| - compile)? \.\.\. (\w+)", out, flags=re.M):
        name, cf, verdict = m.group(1), (m.group(2) or "").strip() == "- compile fail", m.group(3)
        key = name + ("/forbidden" if cf else "/twin")
        res[key] = (verdict == "ok", verdict)
    if not res:
        res["build"] = (False, out[-1500:])
    return res
