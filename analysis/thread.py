"""Jump threading over compiler-generated glue (a normaliser, like inline.py).

After a helper returning `Result`/`Option`/`bool` has been inlined, or when the
source itself routes a value through a temporary (`matches!`, `a && b`,
`let ok = ..; if ok`), MIR joins the paths and immediately re-tests what each
of them has just decided:

      bbA: _r = Ok(..)      bbB: _r = from_residual(e)
              \\                  /
               bbJ: _t = branch(move _r); switch discriminant(_t)

A path-insensitive analysis sees the infeasible combinations A->Break and
B->Continue.  This pass clones the join (bbJ) per incoming fact and folds the
switch, exactly as LLVM's jump threading does, so that every later analysis
(dominators, reaching definitions, origin trees, typestate) works on a CFG
without those infeasible paths.

Facts are tracked only
  * for locals whose address is never taken (so nothing can change them
    behind the analysis' back),
  * while they are live, and
  * across statements and *compiler-generated* terminators only: at every
    call written in the source all facts are dropped, so no source-level call
    site is ever duplicated (site counts and stable keys are unaffected).
"""
import copy

R_OK, R_ERR = "std::result::Result::Ok", "std::result::Result::Err"
O_SOME, O_NONE = "std::option::Option::Some", "std::option::Option::None"
CF_CONT, CF_BREAK = "std::ops::ControlFlow::Continue", "std::ops::ControlFlow::Break"
# facts about enums are "<adt path>::<variant>" strings: any enum built in place is tracked
BRANCH_OF = {R_OK: CF_CONT, R_ERR: CF_BREAK, O_SOME: CF_CONT, O_NONE: CF_BREAK}
MAX_FACTOR = 3


def _places(obj, out):
    """all place dicts inside a JSON fragment"""
    if isinstance(obj, list):
        for x in obj:
            _places(x, out)
    elif isinstance(obj, dict):
        if "l" in obj and "p" in obj and isinstance(obj["p"], list):
            out.append(obj)
            for el in obj["p"]:
                if isinstance(el, dict) and "idx" in el:
                    out.append({"l": el["idx"], "p": []})
            return
        for v in obj.values():
            _places(v, out)


def _uses_defs_stmt(st):
    uses, defs = set(), set()
    if st.get("k") == "assign":
        pl = st["pl"]
        if pl["p"]:
            uses.add(pl["l"])
            for el in pl["p"]:
                if isinstance(el, dict) and "idx" in el:
                    uses.add(el["idx"])
        else:
            defs.add(pl["l"])
        ps = []
        _places(st.get("rv"), ps)
        uses |= {p["l"] for p in ps}
    else:
        ps = []
        _places(st, ps)
        uses |= {p["l"] for p in ps}
    return uses, defs


def _uses_defs_term(t):
    uses, defs = set(), set()
    k = t["k"]
    ps = []
    if k in ("call", "tailcall"):
        _places(t.get("func"), ps)
        _places(t.get("args"), ps)
        d = t.get("dest")
        if d is not None:
            if d["p"]:
                uses.add(d["l"])
            else:
                defs.add(d["l"])
    elif k == "switch":
        _places(t.get("discr"), ps)
    elif k == "assert":
        _places(t.get("cond"), ps)
    elif k == "drop":
        _places(t.get("pl"), ps)
    elif k == "return":
        uses.add(0)
    else:
        _places({kk: vv for kk, vv in t.items() if kk not in ("sp",)}, ps)
    uses |= {p["l"] for p in ps}
    return uses, defs


def _succ(t):
    k = t["k"]
    if k in ("goto", "drop", "assert"):
        return [t["target"]]
    if k == "call":
        return [t["target"]] if t.get("target") is not None else []
    if k == "switch":
        out = []
        for _, b in t["targets"]:
            if b not in out:
                out.append(b)
        if t["otherwise"] not in out:
            out.append(t["otherwise"])
        return out
    if k == "other":
        return list(t.get("succ", []))
    return []


def _fact_uses_stmt(st):
    """locals whose tracked fact (variant / boolean constant) this statement can consume"""
    if st.get("k") != "assign" or st["pl"]["p"]:
        return set()
    rv = st["rv"]
    k = rv.get("rv")
    if k == "use" and _plain_local(rv["op"]):
        return {rv["op"]["pl"]["l"]}
    if k == "unop" and rv.get("op") == "Not" and _plain_local(rv["a"]):
        return {rv["a"]["pl"]["l"]}
    if k == "discr" and not rv["pl"]["p"]:
        return {rv["pl"]["l"]}
    return set()


def _fact_uses_term(t):
    k = t["k"]
    if k == "switch" and _plain_local(t["discr"]):
        return {t["discr"]["pl"]["l"]}
    if k == "call" and t.get("exp") and t.get("args") and _plain_local(t["args"][0]):
        v = t["func"].get("v") if t["func"].get("k") == "const" else None
        if isinstance(v, dict) and v.get("trait") == "std::ops::Try" and v.get("name") == "branch":
            return {t["args"][0]["pl"]["l"]}
    return set()


def _liveness(blocks):
    """fact-liveness: a local is live where a fact about it can still be consumed
    (copied, negated, its discriminant read, switched on, `?`-branched) before
    it is redefined and before a call written in the source is passed"""
    n = len(blocks)
    use = [set() for _ in range(n)]
    dfn = [set() for _ in range(n)]
    barrier = [False] * n
    for i, b in enumerate(blocks):
        u, d = set(), set()
        for st in b["stmts"]:
            su = _fact_uses_stmt(st)
            _, sd = _uses_defs_stmt(st)
            if st.get("k") == "assign" and st["pl"]["p"] and st["pl"]["p"][0] != "deref":
                sd = sd | {st["pl"]["l"]}
            u |= su - d
            d |= sd
        t = b["term"]
        u |= _fact_uses_term(t) - d
        _, td = _uses_defs_term(t)
        d |= td
        if t["k"] in ("call", "tailcall") and not t.get("exp"):
            barrier[i] = True
        use[i], dfn[i] = u, d
    live_in = [set() for _ in range(n)]
    changed = True
    while changed:
        changed = False
        for i in range(n - 1, -1, -1):
            out = set()
            if not barrier[i]:
                for s in _succ(blocks[i]["term"]):
                    out |= live_in[s]
            li = use[i] | (out - dfn[i])
            if li != live_in[i]:
                live_in[i] = li
                changed = True
    return live_in


def _address_taken(blocks):
    taken = set()
    for b in blocks:
        for st in b["stmts"]:
            rv = st.get("rv") if st.get("k") == "assign" else None
            if isinstance(rv, dict) and rv.get("rv") in ("ref", "rawptr"):
                pl = rv.get("pl")
                # `&(*p).f` borrows what p points to, not p itself
                if pl is not None and not (pl["p"] and pl["p"][0] == "deref"):
                    taken.add(pl["l"])
            elif st.get("k") != "assign":
                ps = []
                _places(st, ps)
                taken |= {p["l"] for p in ps}
    return taken


def _plain_local(op):
    return isinstance(op, dict) and op.get("k") in ("copy", "move") and not op["pl"]["p"]


def _const_int(op):
    if isinstance(op, dict) and op.get("k") == "const" and isinstance(op.get("v"), dict) and "int" in op["v"]:
        return op["v"]["int"]
    return None


def _transfer_stmt(st, e, ok_locals):
    if st.get("k") != "assign":
        return
    pl = st["pl"]
    L = pl["l"]
    if pl["p"]:
        # partial write: the variant of an enum cannot change by writing a field, a bool has no fields
        if pl["p"][0] == "deref":
            return
        e.pop(L, None)
        e.pop(("d", L), None)
        return
    rv = st["rv"]
    k = rv.get("rv")
    e.pop(L, None)
    e.pop(("d", L), None)
    if L not in ok_locals:
        return
    if k == "aggregate" and rv.get("agg") == "adt":
        if rv.get("adt") and rv.get("variant") is not None:
            e[L] = "%s::%s" % (rv.get("adt"), rv.get("variant"))
    elif k == "use" and _plain_local(rv["op"]):
        M = rv["op"]["pl"]["l"]
        if M in e:
            e[L] = e[M]
    elif k == "use" and _const_int(rv["op"]) is not None:
        e[L] = ("c", _const_int(rv["op"]))
    elif k == "unop" and rv.get("op") == "Not" and _plain_local(rv["a"]):
        f = e.get(rv["a"]["pl"]["l"])
        if isinstance(f, tuple) and f[0] == "c":
            e[L] = ("c", 0 if f[1] else 1)
    elif k == "discr" and not rv["pl"]["p"] and rv.get("variants"):
        f = e.get(rv["pl"]["l"])
        if isinstance(f, str):
            for vv, nm in rv["variants"]:
                if "%s::%s" % (rv.get("adt"), nm) == f:
                    e[("d", L)] = vv


def elide_drop_flags(fj, taken):
    """Drop elaboration guards conditional drops with boolean flags:
         switchInt(flag) -> [0: next, otherwise: d];   d: drop(x) -> next
    No rule gives `drop` an effect, so the test is noise that hides the real
    shape of the paths (both edges reach the same continuation): take the drop
    edge unconditionally.  Only for locals that are compiler flags: bool,
    unnamed, address never taken, assigned nothing but constants."""
    body = fj["body"]
    blocks = body["blocks"]
    flags = set()
    for i, l in enumerate(body["locals"]):
        if i > body["arg_count"] and l["ty"].get("k") == "bool" and "name" not in l and i not in taken:
            flags.add(i)
    for b in blocks:
        for st in b["stmts"]:
            if st.get("k") == "assign" and st["pl"]["l"] in flags:
                if st["pl"]["p"] or st["rv"].get("rv") != "use" or _const_int(st["rv"]["op"]) is None:
                    flags.discard(st["pl"]["l"])
        t = b["term"]
        d = t.get("dest") if t["k"] in ("call", "tailcall") else None
        if d is not None and d["l"] in flags:
            flags.discard(d["l"])
    n = 0
    for b in blocks:
        t = b["term"]
        if t["k"] != "switch" or b["cleanup"] or not _plain_local(t["discr"]) or t["discr"]["pl"]["l"] not in flags:
            continue
        tg = _succ(t)
        if len(tg) != 2:
            continue
        for a, o in ((tg[0], tg[1]), (tg[1], tg[0])):
            ba = blocks[a]
            only_flags = all(st.get("k") == "assign" and st["pl"]["l"] in flags and not st["pl"]["p"] for st in ba["stmts"])
            if only_flags and ba["term"]["k"] == "drop" and ba["term"].get("target") == o:
                b["term"] = {"k": "goto", "target": a, "sp": t.get("sp"), "exp": True, "dropflag": True}
                n += 1
                break
    return n


def fold_single_assignment_constants(fj, taken):
    """Sparse constant propagation for locals that are assigned exactly once in
    the whole body (compiler temporaries, parameters of spliced-in helpers): a
    constant, an enum value built in place, or a copy / negation /
    discriminant of such a local has the same value wherever it is read, so a
    switch on it is folded without cloning anything (and across source-level
    calls, which path-cloning jump threading does not cross)."""
    body = fj["body"]
    blocks = body["blocks"]
    ndefs = {}
    defstmt = {}
    for b in blocks:
        for st in b["stmts"]:
            if st.get("k") == "assign":
                l = st["pl"]["l"]
                ndefs[l] = ndefs.get(l, 0) + 1
                if not st["pl"]["p"]:
                    defstmt[l] = st
                else:
                    ndefs[l] += 1  # partial writes disqualify
        t = b["term"]
        d = t.get("dest") if t["k"] in ("call", "tailcall") else None
        if d is not None:
            ndefs[d["l"]] = ndefs.get(d["l"], 0) + 2
    known = {}
    changed = True
    rounds = 0
    while changed and rounds < 10:
        changed = False
        rounds += 1
        for l, st in defstmt.items():
            if l in known or ndefs.get(l) != 1 or l in taken or l <= body["arg_count"]:
                continue
            rv = st["rv"]
            k = rv.get("rv")
            val = None
            if k == "use" and _const_int(rv["op"]) is not None:
                val = ("c", _const_int(rv["op"]))
            elif k == "aggregate" and rv.get("agg") == "adt" and rv.get("adt") and rv.get("variant") is not None:
                val = "%s::%s" % (rv["adt"], rv["variant"])
            elif k == "use" and _plain_local(rv["op"]) and rv["op"]["pl"]["l"] in known:
                val = known[rv["op"]["pl"]["l"]]
            elif k == "unop" and rv.get("op") == "Not" and _plain_local(rv["a"]) and isinstance(known.get(rv["a"]["pl"]["l"]), tuple) and known[rv["a"]["pl"]["l"]][0] == "c":
                val = ("c", 0 if known[rv["a"]["pl"]["l"]][1] else 1)
            elif k == "discr" and not rv["pl"]["p"] and isinstance(known.get(rv["pl"]["l"]), str) and rv.get("variants"):
                for vv, nm in rv["variants"]:
                    if "%s::%s" % (rv.get("adt"), nm) == known[rv["pl"]["l"]]:
                        val = ("c", vv)
            if val is not None:
                known[l] = val
                changed = True
    n = 0
    for b in blocks:
        t = b["term"]
        if t["k"] != "switch" or b["cleanup"] or not _plain_local(t["discr"]):
            continue
        v = known.get(t["discr"]["pl"]["l"])
        if not (isinstance(v, tuple) and v[0] == "c"):
            continue
        tgt = t["otherwise"]
        for vv, tb in t["targets"]:
            if vv == v[1]:
                tgt = tb
        b["term"] = {"k": "goto", "target": tgt, "sp": t.get("sp"), "exp": True, "folded": True}
        n += 1
    return n


def thread_fn(fj):
    """rewrite fj["body"]["blocks"] in place; returns number of folded switches"""
    body = fj["body"]
    blocks = body["blocks"]
    n = len(blocks)
    if n == 0:
        return 0
    taken = _address_taken(blocks)
    elide_drop_flags(fj, taken)
    fold_single_assignment_constants(fj, taken)
    ok_locals = {i for i in range(len(body["locals"])) if i not in taken and i > body["arg_count"]}
    live_in = _liveness(blocks)

    def prune(env, tb):
        li = live_in[tb]
        return frozenset((k, v) for k, v in env.items() if (k[1] if isinstance(k, tuple) else k) in li)

    states = {}
    order = []
    edges = {}  # state -> list of (kind, payload)
    work = [(0, frozenset())]
    states[(0, frozenset())] = 0
    order.append((0, frozenset()))
    folded = 0
    limit = MAX_FACTOR * n + 50
    while work:
        bb, fenv = work.pop(0)
        b = blocks[bb]
        if b["cleanup"]:
            edges[(bb, fenv)] = None
            continue
        e = dict(fenv)
        for st in b["stmts"]:
            _transfer_stmt(st, e, ok_locals)
        t = b["term"]
        k = t["k"]
        succ_env = {}
        fold_to = None
        if k in ("call", "tailcall"):
            d = t.get("dest")
            L = d["l"] if (d is not None and not d["p"]) else None
            if d is not None:
                e.pop(d["l"], None)
                e.pop(("d", d["l"]), None)
            v = t["func"].get("v") if t["func"].get("k") == "const" else None
            if not t.get("exp"):
                e = {}  # a call written in the source: forget everything (no source call site is ever cloned)
            elif isinstance(v, dict) and L is not None and L in ok_locals:
                if v.get("trait") == "std::ops::Try" and v.get("name") == "branch" and t["args"] and _plain_local(t["args"][0]):
                    src = e.get(t["args"][0]["pl"]["l"])
                    if src in BRANCH_OF:
                        e[L] = BRANCH_OF[src]
                elif v.get("name") == "from_residual" and (v.get("trait") or "").endswith("FromResidual"):
                    st_ = (v.get("self_ty") or {}).get("s", "")
                    if st_.startswith("std::result::Result<"):
                        e[L] = R_ERR
                    elif st_.startswith("std::option::Option<"):
                        e[L] = O_NONE
        elif k == "switch":
            dop = t["discr"]
            val = None
            if _plain_local(dop):
                L = dop["pl"]["l"]
                val = e.get(("d", L))
                cv = e.get(L)
                if val is None and isinstance(cv, tuple) and cv[0] == "c":
                    val = cv[1]
            if val is not None:
                fold_to = t["otherwise"]
                for vv, tb in t["targets"]:
                    if vv == val:
                        fold_to = tb
        outs = [fold_to] if fold_to is not None else _succ(t)
        res = {}
        for tb in outs:
            se = prune(e, tb) if not blocks[tb]["cleanup"] else frozenset()
            key = (tb, se)
            if key not in states:
                states[key] = len(order)
                order.append(key)
                work.append(key)
                if len(order) > limit:
                    return 0
            res[tb] = states[key]
        edges[(bb, fenv)] = (fold_to, res)
        if fold_to is not None:
            folded += 1
    if folded == 0 and len(order) == len([1 for b in blocks if not b["cleanup"]]):
        # nothing to gain: keep the body (and its block numbering) as it is
        return 0
    new_blocks = []
    for key in order:
        bb, fenv = key
        nb = copy.deepcopy(blocks[bb])
        info = edges.get(key)
        if info is not None:
            fold_to, res = info
            t = nb["term"]
            k = t["k"]
            if fold_to is not None:
                nb["term"] = {"k": "goto", "target": res[fold_to], "sp": t.get("sp"), "exp": True, "folded": True}
            elif k in ("goto", "drop", "assert", "call"):
                if t.get("target") is not None:
                    t["target"] = res[t["target"]]
            elif k == "switch":
                t["targets"] = [[v, res[tb]] for v, tb in t["targets"]]
                t["otherwise"] = res[t["otherwise"]]
            elif k == "other" and "succ" in t:
                t["succ"] = [res[x] for x in t["succ"]]
        new_blocks.append(nb)
    body["blocks"] = new_blocks
    return folded


def thread_all(facts_json):
    stats = {}
    for f in facts_json["fns"]:
        if f.get("absorbed"):
            continue
        try:
            n = thread_fn(f)
        except Exception as exc:  # never let the normaliser take the analysis down: the unthreaded body is still sound
            f["thread_error"] = "%s: %s" % (type(exc).__name__, exc)
            n = 0
        if n:
            stats[f["path"]] = n
    facts_json["threaded"] = stats
    return stats
