"""Typed, read-only view of one fact file + a MIR pretty-printer.

All rules work on these objects; nothing here looks at source text.
"""
import json


class Place:
    __slots__ = ("local", "proj")

    def __init__(self, j):
        self.local = j["l"]
        self.proj = j["p"]

    def is_local(self):
        return not self.proj

    def field_names(self):
        return [e["name"] for e in self.proj if isinstance(e, dict) and "f" in e]

    def key(self):
        return (self.local, json.dumps(self.proj, sort_keys=True))

    def __repr__(self):
        s = "_%d" % self.local
        for e in self.proj:
            if e == "deref":
                s = "(*%s)" % s
            elif isinstance(e, dict) and "f" in e:
                s += "." + e["name"]
            elif isinstance(e, dict) and "idx" in e:
                s += "[_%d]" % e["idx"]
            elif isinstance(e, dict) and "cidx" in e:
                s += "[%s%d of %d]" % ("-" if e["from_end"] else "", e["cidx"], e["min"])
            elif isinstance(e, dict) and "sub_from" in e:
                s += "[%d..%s%d]" % (e["sub_from"], "-" if e["from_end"] else "", e["sub_to"])
            elif isinstance(e, dict) and "down" in e:
                s = "(%s as %s)" % (s, e["name"])
            else:
                s += "<%s>" % e
        return s


class Operand:
    __slots__ = ("kind", "place", "ty", "val", "named", "raw")

    def __init__(self, j):
        self.raw = j
        self.kind = j["k"]
        self.place = Place(j["pl"]) if "pl" in j else None
        self.ty = j.get("ty")
        self.val = j.get("v")
        self.named = j.get("named")

    def is_const(self):
        return self.kind == "const"

    def const_int(self):
        if self.kind == "const" and isinstance(self.val, dict) and "int" in self.val:
            return self.val["int"]
        return None

    def const_bytes(self):
        if self.kind == "const" and isinstance(self.val, dict) and "bytes" in self.val:
            return bytes.fromhex(self.val["bytes"])
        return None

    def const_fn(self):
        if self.kind == "const" and isinstance(self.val, dict) and "fn" in self.val:
            return self.val
        return None

    def __repr__(self):
        if self.kind in ("copy", "move"):
            return "%s %r" % (self.kind, self.place)
        if self.kind == "const":
            v = self.val or {}
            if "int" in v:
                return "const %s" % v["int"]
            if "text" in v:
                return "const b%r" % v["text"]
            if "bytes" in v:
                return "const 0x%s" % v["bytes"]
            if "fn" in v:
                return "fn %s" % v["full"]
            if "zst" in v:
                return "const <%s>" % v["zst"]
            if "array" in v:
                return "const %s" % json.dumps(v)
            return "const ?%s:%s" % (json.dumps(v), self.ty)
        return "?%s" % self.raw


class Rvalue:
    __slots__ = ("kind", "j", "ops", "place")

    def __init__(self, j):
        self.j = j
        self.kind = j["rv"]
        self.ops = []
        self.place = None
        if self.kind in ("use", "repeat", "cast"):
            self.ops = [Operand(j["op"])]
        elif self.kind == "binop":
            self.ops = [Operand(j["a"]), Operand(j["b"])]
        elif self.kind == "unop":
            self.ops = [Operand(j["a"])]
        elif self.kind == "aggregate":
            self.ops = [Operand(o) for o in j["ops"]]
        if "pl" in j:
            self.place = Place(j["pl"])

    def __repr__(self):
        j = self.j
        k = self.kind
        if k == "use":
            return repr(self.ops[0])
        if k == "ref":
            return "&%s%r" % ("mut " if j["mut"] else "", self.place)
        if k == "rawptr":
            return "&raw %r" % self.place
        if k == "cast":
            return "%r as %s (%s)" % (self.ops[0], j["ty"]["s"], j["kind"])
        if k == "binop":
            return "%s(%r, %r)" % (j["op"], self.ops[0], self.ops[1])
        if k == "unop":
            return "%s(%r)" % (j["op"], self.ops[0])
        if k == "discr":
            return "discriminant(%r)" % self.place
        if k == "repeat":
            return "[%r; %s]" % (self.ops[0], j["n"])
        if k == "aggregate":
            if j["agg"] == "adt":
                fs = j["fields"]
                return "%s::%s{%s}" % (
                    j["adt"],
                    j["variant"],
                    ", ".join("%s: %r" % (fs[i] if i < len(fs) else i, o) for i, o in enumerate(self.ops)),
                )
            return "%s(%s)" % (j["agg"], ", ".join(map(repr, self.ops)))
        return "other<%s>" % j.get("dbg")


class Stmt:
    __slots__ = ("kind", "place", "rv", "sp", "exp", "j")

    def __init__(self, j):
        self.j = j
        self.kind = j["k"]
        self.place = Place(j["pl"]) if "pl" in j else None
        self.rv = Rvalue(j["rv"]) if self.kind == "assign" else None
        self.sp = j.get("sp")
        self.exp = j.get("exp", False)

    def __repr__(self):
        if self.kind == "assign":
            return "%r = %r" % (self.place, self.rv)
        if self.kind == "setdiscr":
            return "discriminant(%r) = %s" % (self.place, self.j["v"])
        return "other<%s>" % self.j.get("dbg")


class Callee:
    """A resolved callee of a call terminator."""

    __slots__ = ("j", "fn", "full", "krate", "local", "name", "trait", "self_ty", "targs", "resolved", "impl_self")

    def __init__(self, j):
        self.j = j
        self.fn = j["fn"]
        self.full = j["full"]
        self.krate = j["krate"]
        self.local = j["local"]
        self.name = j.get("name")
        self.trait = j.get("trait")
        self.self_ty = j.get("self_ty")
        self.targs = j.get("targs", [])
        self.resolved = j.get("resolved")
        self.impl_self = j.get("impl_self")

    def target(self):
        """def path of the function that actually runs, if statically known."""
        if self.resolved:
            return self.resolved["fn"]
        return self.fn

    def target_full(self):
        if self.resolved:
            return self.resolved["full"]
        return self.full

    def is_local_target(self):
        if self.resolved:
            return self.resolved["local"]
        # an unresolved trait method of a local trait is a call on a generic
        return self.local and not self.trait

    def __repr__(self):
        if self.resolved:
            return "%s => %s" % (self.full, self.resolved["full"])
        return self.full


class Term:
    __slots__ = ("kind", "j", "sp", "exp", "callee", "args", "dest", "target", "discr", "targets", "otherwise", "place", "func_op")

    def __init__(self, j):
        self.j = j
        self.kind = j["k"]
        self.sp = j.get("sp")
        self.exp = j.get("exp", False)
        self.callee = None
        self.args = []
        self.dest = None
        self.target = j.get("target")
        self.discr = None
        self.targets = []
        self.otherwise = None
        self.place = Place(j["pl"]) if "pl" in j else None
        self.func_op = None
        if self.kind in ("call", "tailcall"):
            self.func_op = Operand(j["func"])
            f = self.func_op.const_fn()
            self.callee = Callee(f) if f else None
            self.args = [Operand(a) for a in j["args"]]
            if "dest" in j:
                self.dest = Place(j["dest"])
        elif self.kind == "switch":
            self.discr = Operand(j["discr"])
            self.targets = [(v, b) for v, b in j["targets"]]
            self.otherwise = j["otherwise"]
        elif self.kind == "assert":
            self.discr = Operand(j["cond"])

    def successors(self):
        k = self.kind
        if k in ("goto", "drop", "assert"):
            return [self.target]
        if k == "call":
            return [self.target] if self.target is not None else []
        if k == "switch":
            out = []
            for _, b in self.targets:
                if b not in out:
                    out.append(b)
            if self.otherwise not in out:
                out.append(self.otherwise)
            return out
        if k == "other":
            return list(self.j.get("succ", []))
        return []

    def __repr__(self):
        k = self.kind
        if k == "goto":
            return "goto bb%d" % self.target
        if k == "switch":
            return "switchInt(%r) -> [%s, otherwise: bb%d]" % (
                self.discr,
                ", ".join("%d: bb%d" % (v, b) for v, b in self.targets),
                self.otherwise,
            )
        if k == "call":
            return "%r = %s(%s) -> %s" % (
                self.dest,
                self.callee if self.callee else repr(self.func_op),
                ", ".join(map(repr, self.args)),
                "bb%d" % self.target if self.target is not None else "!",
            )
        if k == "drop":
            return "drop(%r) -> bb%d" % (self.place, self.target)
        if k == "assert":
            return "assert(%s%r, %s) -> bb%d" % ("" if self.j["expected"] else "!", self.discr, self.j["msg"], self.target)
        if k == "other":
            return "other<%s>" % self.j.get("dbg")
        return k


class Block:
    __slots__ = ("idx", "cleanup", "stmts", "term")

    def __init__(self, idx, j):
        self.idx = idx
        self.cleanup = j["cleanup"]
        self.stmts = [Stmt(s) for s in j["stmts"]]
        self.term = Term(j["term"])


class Fn:
    def __init__(self, j, facts):
        self.j = j
        self.facts = facts
        self.path = j["path"]
        self.kind = j["kind"]
        self.span = j["span"]
        self.name = j.get("name")
        self.vis = j.get("vis")
        self.reachable = j.get("reachable")
        self.impl_trait = j.get("impl_trait")
        self.impl_self = j.get("impl_self")
        self.parent = j.get("parent")
        self.inputs = j.get("inputs", [])
        self.output = j.get("output")
        b = j["body"]
        self.arg_count = b["arg_count"]
        self.locals = b["locals"]
        self.blocks = [Block(i, x) for i, x in enumerate(b["blocks"])]

    def local_ty(self, l):
        return self.locals[l]["ty"]

    def local_name(self, l):
        return self.locals[l].get("name")

    def calls(self):
        for b in self.blocks:
            if b.term.kind == "call" and not b.cleanup:
                yield b, b.term

    def loc(self, sp):
        return sp or self.span

    def pretty(self):
        out = ["fn %s  [%s] %s" % (self.path, self.vis, self.span)]
        for i, l in enumerate(self.locals):
            out.append(
                "  let _%d: %s%s%s"
                % (i, l["ty"]["s"], "  // " + l["name"] if "name" in l else "", "  (arg)" if 1 <= i <= self.arg_count else "")
            )
        for b in self.blocks:
            out.append("  bb%d%s:" % (b.idx, " (cleanup)" if b.cleanup else ""))
            for s in b.stmts:
                out.append("    %r;%s  // %s" % (s, " [exp]" if s.exp else "", s.sp))
            out.append("    %r;%s  // %s" % (b.term, " [exp]" if b.term.exp else "", b.term.sp))
        return "\n".join(out)


class Facts:
    def __init__(self, j):
        self.j = j
        self.config = j.get("config")
        self.features = j.get("features", [])
        self.all_fns = [Fn(f, self) for f in j["fns"]]
        # helpers that were inlined into all their callers are not analysed on their own
        self.fns = [f for f in self.all_fns if not f.j.get("absorbed")]
        self.inlined = j.get("inlined", {})
        self.by_path = {}
        for f in self.fns:
            self.by_path.setdefault(f.path, f)
        self.consts = {c["path"]: c for c in j["consts"]}
        self.adts = {a["path"]: a for a in j["adts"]}
        self.impls = j["impls"]
        self.items = j["items"]
        self.unsafe_sites = j.get("unsafe_sites", [])

    def fn(self, path):
        return self.by_path.get(path)

    def find(self, pred):
        return [f for f in self.fns if pred(f)]

    def fns_named(self, suffix):
        return [f for f in self.fns if f.path.endswith(suffix)]

    def closures_of(self, fn):
        return [f for f in self.fns if f.kind == "Closure" and f.path.startswith(fn.path + "::{closure")]


if __name__ == "__main__":
    import sys

    from extract import QUICK_CONFIGS, all_configs, extract

    cfg = sys.argv[1]
    cfgs = dict(QUICK_CONFIGS)
    cfgs.update(all_configs())
    facts = Facts(extract({cfg: cfgs[cfg]})[cfg])
    for pat in sys.argv[2:]:
        for f in facts.fns:
            if pat in f.path:
                print(f.pretty())
                print()
