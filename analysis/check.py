#!/usr/bin/env python3
"""Entry point of every registered check.

  check.py <PROPERTY_ID> [--tier quick|thorough] [--repo DIR]
  check.py --explain <replay.json>

Exit 0: every rule instance of the property was discharged on /repo's current
working tree (known findings are printed as KNOWN-FINDING lines).
Exit 1: at least one violation not listed in known_findings.json; one
`VIOLATION property=<id> replay=<path>` line per violation.
"""
import argparse
import hashlib
import importlib
import json
import os
import sys
import time

HERE = os.path.dirname(os.path.abspath(__file__))
sys.path.insert(0, HERE)

import extract as ex  # noqa: E402
from common import VERIF, Ctx, Report, load_known_findings  # noqa: E402


def run_property(prop, tier, repo=None, facts_by_config=None, write=True, quiet=False):
    t0 = time.time()
    mod = importlib.import_module("rules." + prop.lower())
    report = Report(prop)
    configs = ex.QUICK_CONFIGS if tier == "quick" else ex.all_configs()
    extraction_error = None
    ctxs = []
    if facts_by_config is None:
        try:
            facts_by_config = ex.extract(configs, repo=repo)
        except ex.ExtractError as e:
            extraction_error = e
            facts_by_config = {}
    if extraction_error is not None:
        report.violate(
            "BUILD",
            "config:" + extraction_error.config,
            "configuration %s of the crate does not type-check; nothing can be established (fail closed)" % extraction_error.config,
            detail=extraction_error.log[-1500:],
        )
    else:
        for name, facts in facts_by_config.items():
            ctx = Ctx(facts)
            ctxs.append(ctx)
            report.configs.append(name)
            try:
                mod.run(ctx, report)
            except Exception as exc:  # fail closed, but say that it is the checker that gave up
                import traceback
                tb = traceback.format_exc()
                report.violate("INTERNAL", "analysis-error", "the rule pack could not analyse this tree (%s: %s); nothing is established" % (type(exc).__name__, exc), config=name, detail=tb[-1500:])
        if hasattr(mod, "finish"):
            mod.finish(ctxs, report)
        if tier == "thorough" and getattr(mod, "WITNESSES", None):
            import witness
            res = witness.run_witnesses(repo)
            if "build" in res:
                report.violate("WITNESS", "build", "the witness crate does not build against the current tree: %s" % res["build"][1][-400:])
            for w in mod.WITNESSES:
                for kind in ("forbidden", "twin"):
                    k = "%s/%s" % (w, kind)
                    if k not in res:
                        if "build" not in res:
                            report.violate("WITNESS", k, "witness %s did not run" % k)
                        continue
                    okw, verdict = res[k]
                    desc = ("user code that must not type-check is rejected by rustc (%s)" % w) if kind == "forbidden" else ("the compiling twin of %s type-checks" % w)
                    report.check("WITNESS", k, okw, desc, ("witness %s: code that must be rejected compiles (or fails with another error code)" % w) if kind == "forbidden" else ("twin of %s no longer compiles: the witness is vacuous" % w))
    liveness = None
    if tier == "thorough" and extraction_error is None and not os.environ.get("ENR_NO_LIVENESS"):
        liveness = checker_liveness(prop, repo)
    wall = time.time() - t0

    known = [k for k in load_known_findings() if k.get("property") == prop and k.get("status") == "known"]
    known_keys = {k["key"]: k for k in known}
    new_violations = []
    known_hit = []
    for key, v in sorted(report.violations.items()):
        if key in known_keys:
            known_hit.append((v, known_keys[key]))
        else:
            new_violations.append(v)

    outdir = os.path.join(VERIF, "out", prop)
    lines = []
    lines.append("[%s] tier=%s configs=%d functions=%d rule-instances=%d discharged=%d wall=%.1fs" % (
        prop, tier, len(report.configs), len(report.analysed_fns),
        len(report.obligations), sum(1 for o in report.obligations.values() if o["ok"]), wall))
    by_rule = {}
    for o in report.obligations.values():
        r = by_rule.setdefault(o["rule"], [0, 0])
        r[0] += 1
        r[1] += 1 if o["ok"] else 0
    for r in sorted(by_rule):
        lines.append("  rule %-14s instances=%-3d discharged=%d" % (r, by_rule[r][0], by_rule[r][1]))
    for v, k in known_hit:
        lines.append("KNOWN-FINDING: property=%s %s (%s)" % (prop, v.key, k.get("what", v.msg)))
    if new_violations and write:
        os.makedirs(outdir, exist_ok=True)
    for v in new_violations:
        h = hashlib.sha1(v.key.encode()).hexdigest()[:12]
        path = os.path.join(outdir, h + ".json")
        if write:
            with open(path, "w") as f:
                json.dump(v.to_json(), f, indent=1)
        lines.append("  violated %s at %s in %s [%s]: %s" % (v.key, v.sp, v.fn, ",".join(v.configs), v.msg))
        lines.append("VIOLATION property=%s replay=%s" % (prop, path))
    if liveness is not None:
        lines.append("  checker liveness: %d/%d property-breaking variants of this tree reported%s" % (
            sum(1 for v in liveness.values() if v == "reported"), sum(1 for v in liveness.values() if v != "not applicable"),
            "".join("; NOT reported: " + k for k, v in liveness.items() if v == "missed")))
    if not quiet:
        try:
            print("\n".join(lines), flush=True)
        except BrokenPipeError:
            pass

    if write:
        write_evidence(prop, tier, report, wall, len(new_violations), mod, known_hit, liveness)
    return report, new_violations


def checker_liveness(prop, repo):
    """Thorough tier only: the rule pack is also run on every committed
    property-breaking variant of the *current* tree for this property
    (selftest/mutants and seeded/: one small patch each, applied to a scratch copy outside
    /repo and /verif that is removed afterwards) and must report each of them.
    This is a statement about the checker (its rules still bite on this tree),
    not about the property: a variant that is no longer reported is listed in
    the evidence and in the output, it is not a VIOLATION of the property."""
    import shutil
    import subprocess
    import tempfile
    st = os.path.join(VERIF, "selftest")
    try:
        with open(os.path.join(st, "mutants", "meta.json")) as f:
            meta = json.load(f)
    except OSError:
        return None
    out = {}
    src = repo or ex.REPO
    todo = []
    for name, m in sorted(meta.items()):
        exp = [e for e in m.get("expect", []) if e[0] == prop]
        if exp:
            todo.append((name, os.path.join(st, "mutants", name + ".patch"), exp))
    # the independently seeded changes written against this property (any report by this pack counts)
    sd = os.path.join(VERIF, "seeded")
    if os.path.isdir(sd):
        for name in sorted(os.listdir(sd)):
            mp = os.path.join(sd, name, "meta.json")
            if os.path.exists(mp):
                try:
                    sm = json.load(open(mp))
                except ValueError:
                    continue
                if sm.get("breaks") == prop:
                    todo.append(("seeded/" + name, os.path.join(sd, name, "patch.diff"), [(prop, "")]))
    for name, patch, exp in todo:
        d = tempfile.mkdtemp(prefix="enr-liveness-")
        try:
            for item in ("Cargo.toml", "Cargo.lock", "src", "tests"):
                pth = os.path.join(src, item)
                if os.path.isdir(pth):
                    shutil.copytree(pth, os.path.join(d, item))
                elif os.path.exists(pth):
                    shutil.copy(pth, os.path.join(d, item))
            r = subprocess.run(["patch", "-p1", "-s", "--no-backup-if-mismatch", "-i", patch], cwd=d, stdout=subprocess.PIPE, stderr=subprocess.STDOUT)
            if r.returncode != 0:
                out[name] = "not applicable"  # the tree has moved on; the variant no longer applies
                continue
            try:
                rep, viols = run_property(prop, "quick", repo=d, write=False, quiet=True)
            except Exception:
                out[name] = "missed"
                continue
            hit = any(frag in v.key for v in viols for _, frag in exp)
            out[name] = "reported" if hit else "missed"
        finally:
            shutil.rmtree(d, ignore_errors=True)
    return out


def write_evidence(prop, tier, report, wall, nviol, mod, known_hit, liveness=None):
    obs = list(report.obligations.values())
    nontrivial = [o for o in obs if o.get("nontrivial", True)]
    samples = []
    seen_rules = set()
    for o in obs:
        if o["rule"] not in seen_rules:
            seen_rules.add(o["rule"])
            samples.append({"rule": o["rule"], "instance": o["key"], "site": o["site"], "what": o["desc"], "discharged": o["ok"], "configs": o["configs"]})
    for o in obs:
        if len(samples) >= 60:
            break
        s = {"rule": o["rule"], "instance": o["key"], "site": o["site"], "what": o["desc"], "discharged": o["ok"], "configs": o["configs"]}
        if s not in samples:
            samples.append(s)
    ev = {
        "property_id": prop,
        "tier": tier,
        "seed": int(os.environ.get("VERIF_SEED", "0") or 0),
        "level": "other",
        "coverage": {
            "explanation": getattr(mod, "EXPLANATION", "static rule pack over MIR facts"),
            "evaluations": len(obs),
            "distinct_nontrivial": len(nontrivial),
            "rule": "one evaluation = one rule instance (rule x anchored site x key/exit) decided from the MIR of /repo's working tree; "
            "an instance is non-trivial when it matched a real site of the crate (anchors/floors enforce that none is vacuous); instances are distinct by their stable key",
            "obligations": len(obs),
            "discharged": sum(1 for o in obs if o["ok"]),
            "samples": samples,
            "configs_analysed": report.configs,
            "functions_analysed": sorted(report.analysed_fns),
            "rules": sorted({o["rule"] for o in obs}),
            "known_findings_reported": [v.key for v, _ in known_hit],
            "notes": report.notes,
            "exhaustive": False,
            "checker_cmd": "python3 analysis/check.py %s --tier %s" % (prop, tier),
            "trusted_base": getattr(mod, "TRUSTED", []),
        },
        "assumptions": getattr(mod, "ASSUMPTIONS", []) + [
            "rustc nightly MIR (mir-opt-level=0) is a faithful rendering of the source",
        ],
        "wall_s": round(wall, 2),
        "violations": nviol,
    }
    if liveness is not None:
        ev["coverage"]["checker_liveness"] = {
            "what": "the rule pack run on each committed property-breaking variant of the current tree (selftest/mutants and the independently seeded changes under seeded/ for this property); each must be reported",
            "variants": liveness,
            "reported": sum(1 for v in liveness.values() if v == "reported"),
            "applicable": sum(1 for v in liveness.values() if v != "not applicable"),
        }
    os.makedirs(os.path.join(VERIF, "evidence"), exist_ok=True)
    with open(os.path.join(VERIF, "evidence", prop + ".json"), "w") as f:
        json.dump(ev, f, indent=1)


def main():
    ap = argparse.ArgumentParser()
    ap.add_argument("prop", nargs="?")
    ap.add_argument("--tier", default=os.environ.get("VERIF_TIER") or "quick")
    ap.add_argument("--repo", default=None)
    ap.add_argument("--explain", default=None)
    a = ap.parse_args()
    if a.explain:
        with open(a.explain) as f:
            v = json.load(f)
        print(json.dumps(v, indent=1))
        prop = v["property"]
        _, viols = run_property(prop, "quick", repo=a.repo, write=False)
        hit = [x for x in viols if x.key == v["key"]]
        print("re-run: %s" % ("still violated" if hit else "no longer violated"))
        sys.exit(1 if hit else 0)
    tier = a.tier if a.tier in ("quick", "thorough") else "quick"
    _, viols = run_property(a.prop, tier, repo=a.repo)
    sys.exit(1 if viols else 0)


if __name__ == "__main__":
    main()
