"""MIR-level inlining of *non-anchor* crate-local helper functions.

The rules are anchored on the functions that exist in the tree they were
written for (analysis/anchors.json).  A private helper that a refactoring
extracts (or a function that did not exist before) is not an anchor: its body
is spliced into every caller before any analysis runs, so that extracting a
helper is invisible to the rules, exactly as it is invisible to behaviour.
Works on the JSON fact structures (before facts.Fn objects are built).
"""
import copy
import json
import os

HERE = os.path.dirname(os.path.abspath(__file__))
MAX_BLOCKS = 400
MAX_ROUNDS = 4


def load_anchors():
    p = os.path.join(HERE, "anchors.json")
    if not os.path.exists(p):
        return None
    with open(p) as f:
        return set(json.load(f)["functions"])


def _remap_place(pl, lofs):
    pl["l"] += lofs
    for el in pl["p"]:
        if isinstance(el, dict) and "idx" in el:
            el["idx"] += lofs


def _remap_operand(op, lofs):
    if "pl" in op:
        _remap_place(op["pl"], lofs)


def _remap_rvalue(rv, lofs):
    if "pl" in rv:
        _remap_place(rv["pl"], lofs)
    for k in ("op", "a", "b"):
        if k in rv and isinstance(rv[k], dict) and "k" in rv[k]:
            _remap_operand(rv[k], lofs)
    if "ops" in rv:
        for o in rv["ops"]:
            _remap_operand(o, lofs)


def _remap_stmt(st, lofs):
    if "pl" in st:
        _remap_place(st["pl"], lofs)
    if "rv" in st and isinstance(st["rv"], dict):
        _remap_rvalue(st["rv"], lofs)


def _remap_term(t, lofs, bofs):
    k = t["k"]
    if "pl" in t:
        _remap_place(t["pl"], lofs)
    if k in ("call", "tailcall"):
        _remap_operand(t["func"], lofs)
        for a in t["args"]:
            _remap_operand(a, lofs)
        if "dest" in t:
            _remap_place(t["dest"], lofs)
    if k == "switch":
        _remap_operand(t["discr"], lofs)
        t["targets"] = [[v, b + bofs] for v, b in t["targets"]]
        t["otherwise"] += bofs
    if k == "assert":
        _remap_operand(t["cond"], lofs)
    if t.get("target") is not None and k in ("goto", "drop", "assert", "call"):
        t["target"] += bofs
    if "succ" in t:
        t["succ"] = [b + bofs for b in t["succ"]]


def _callee_target(t):
    f = t.get("func", {})
    v = f.get("v") if f.get("k") == "const" else None
    if not isinstance(v, dict) or "fn" not in v:
        return None
    if v.get("resolved"):
        return v["resolved"]["fn"], v["resolved"]["local"]
    if v.get("trait"):
        return None  # unresolved trait method on a generic
    return v["fn"], v.get("local", False)


def inline_into(fj, by_path, anchors, stats):
    """inline every eligible call of function json `fj` once; returns True if
    something was inlined"""
    body = fj["body"]
    blocks = body["blocks"]
    changed = False
    nblocks0 = len(blocks)
    for bi in range(nblocks0):
        if len(blocks) > MAX_BLOCKS:
            break
        b = blocks[bi]
        t = b["term"]
        if t["k"] != "call" or b["cleanup"]:
            continue
        ct = _callee_target(t)
        if ct is None:
            continue
        path, local = ct
        if not local or path in anchors or path == fj["path"]:
            continue
        g = by_path.get(path)
        if g is None or g["kind"] not in ("Fn", "AssocFn"):
            continue
        gb = g["body"]
        if len(gb["blocks"]) + len(blocks) > MAX_BLOCKS:
            continue
        if len(t["args"]) != gb["arg_count"] or t.get("target") is None:
            continue
        lofs = len(body["locals"])
        bofs = len(blocks)
        # locals
        for l in gb["locals"]:
            body["locals"].append(copy.deepcopy(l))
        # blocks
        cont = t["target"]
        dest = t["dest"]
        for gblk in gb["blocks"]:
            nb = copy.deepcopy(gblk)
            for st in nb["stmts"]:
                _remap_stmt(st, lofs)
            nt = nb["term"]
            if nt["k"] == "return":
                # dest = move _0'; goto continuation
                nb["stmts"].append({"k": "assign", "pl": copy.deepcopy(dest),
                                    "rv": {"rv": "use", "op": {"k": "move", "pl": {"l": lofs, "p": []}}},
                                    "sp": nt.get("sp"), "exp": True})
                nb["term"] = {"k": "goto", "target": cont, "sp": nt.get("sp"), "exp": True}
            else:
                _remap_term(nt, lofs, bofs)
            blocks.append(nb)
        # argument passing
        for i, a in enumerate(t["args"]):
            b["stmts"].append({"k": "assign", "pl": {"l": lofs + 1 + i, "p": []}, "rv": {"rv": "use", "op": copy.deepcopy(a)}, "sp": t.get("sp"), "exp": True})
        b["term"] = {"k": "goto", "target": bofs, "sp": t.get("sp"), "exp": True}
        stats.setdefault(fj["path"], []).append(path)
        changed = True
    return changed


def _rewrite_upvars(obj, env_local, by_ref, upvar_places):
    """replace every place rooted at the closure environment `env_local`
    ((*_1).i for Fn/FnMut closures, _1.i for FnOnce) by the captured place"""
    if isinstance(obj, list):
        for x in obj:
            _rewrite_upvars(x, env_local, by_ref, upvar_places)
        return True
    if not isinstance(obj, dict):
        return True
    if "l" in obj and "p" in obj and isinstance(obj["p"], list) and obj["l"] == env_local:
        pr = obj["p"]
        skip = 1 if by_ref else 0
        if len(pr) > skip and (not by_ref or pr[0] == "deref") and isinstance(pr[skip], dict) and "f" in pr[skip]:
            up = upvar_places.get(pr[skip]["f"])
            if up is None:
                raise ValueError("upvar")
            obj["l"] = up["l"]
            obj["p"] = copy.deepcopy(up["p"]) + pr[skip + 1:]
        else:
            raise ValueError("env escapes")
        return True
    for v in obj.values():
        _rewrite_upvars(v, env_local, by_ref, upvar_places)
    return True


def desugar_for_each(fj, by_path, stats):
    """`ITER.for_each(|x| BODY)` becomes the loop it abbreviates:
    `loop { match ITER.next() { None => break, Some(x) => BODY } }`, with the
    closure body spliced in and its captured variables substituted.  Purely a
    re-sugaring: Iterator::for_each is specified as exactly this loop."""
    body = fj["body"]
    blocks = body["blocks"]
    changed = False
    for bi in range(len(blocks)):
        b = blocks[bi]
        t = b["term"]
        if t["k"] != "call" or b["cleanup"] or t.get("target") is None:
            continue
        v = t["func"].get("v") if t["func"].get("k") == "const" else None
        if not isinstance(v, dict) or v.get("fn") != "std::iter::Iterator::for_each" or len(t["args"]) != 2:
            continue
        it_op, cl_op = t["args"]
        if cl_op.get("k") != "move" or cl_op["pl"]["p"] or it_op.get("k") != "move" or it_op["pl"]["p"]:
            continue
        cl_local = cl_op["pl"]["l"]
        # the unique closure aggregate
        aggs = []
        for blk in blocks:
            for st in blk["stmts"]:
                if st["k"] == "assign" and st["pl"]["l"] == cl_local and not st["pl"]["p"]:
                    aggs.append(st)
        if len(aggs) != 1 or aggs[0]["rv"].get("rv") != "aggregate" or aggs[0]["rv"].get("agg") != "closure":
            continue
        g = by_path.get(aggs[0]["rv"].get("fn"))
        if g is None or g["kind"] != "Closure" or g["body"]["arg_count"] != 2:
            continue
        ups = {}
        okc = True
        for i, o in enumerate(aggs[0]["rv"]["ops"]):
            if o.get("k") in ("move", "copy"):
                ups[i] = o["pl"]
            else:
                okc = False
        if not okc:
            continue
        gb = g["body"]
        env_ty = gb["locals"][1]["ty"]
        by_ref = env_ty.get("k") == "ref"
        lofs = len(body["locals"])
        bofs = len(blocks) + 3
        new_locals = [copy.deepcopy(l) for l in gb["locals"]]
        new_blocks = []
        try:
            for gblk in gb["blocks"]:
                nb = copy.deepcopy(gblk)
                for st in nb["stmts"]:
                    _remap_stmt(st, lofs)
                nt = nb["term"]
                if nt["k"] == "return":
                    nb["term"] = {"k": "goto", "target": len(blocks), "sp": nt.get("sp"), "exp": True}
                else:
                    _remap_term(nt, lofs, bofs)
                _rewrite_upvars(nb, lofs + 1, by_ref, ups)
                new_blocks.append(nb)
        except ValueError:
            continue
        self_ty = v.get("self_ty") or (v.get("targs") or [None])[0]
        if self_ty is None:
            continue
        sp = t.get("sp")
        # extra locals: &mut iter, Option<Item>, discriminant
        body["locals"].extend(new_locals)
        l_ref = len(body["locals"])
        body["locals"].append({"ty": {"s": "&mut " + self_ty["s"], "k": "ref", "mut": True, "of": self_ty}})
        l_opt = l_ref + 1
        body["locals"].append({"ty": {"s": "std::option::Option<%s>" % gb["locals"][2]["ty"]["s"], "k": "adt", "adt": "std::option::Option", "args": [gb["locals"][2]["ty"]]}})
        l_d = l_ref + 2
        body["locals"].append({"ty": {"s": "isize", "k": "int"}})
        full = "<%s as std::iter::Iterator>::next" % self_ty["s"]
        nxt = {"fn": "std::iter::Iterator::next", "full": full, "krate": "core", "local": False, "targs": [self_ty],
               "name": "next", "trait": "std::iter::Iterator", "self_ty": self_ty}
        head = len(blocks)
        h = {"cleanup": False,
             "stmts": [{"k": "assign", "pl": {"l": l_ref, "p": []}, "rv": {"rv": "ref", "mut": True, "pl": copy.deepcopy(it_op["pl"])}, "sp": sp, "exp": True}],
             "term": {"k": "call", "func": {"k": "const", "ty": "fn", "v": nxt}, "args": [{"k": "move", "pl": {"l": l_ref, "p": []}}],
                      "dest": {"l": l_opt, "p": []}, "target": head + 1, "sp": sp, "exp": True}}
        sw = {"cleanup": False,
              "stmts": [{"k": "assign", "pl": {"l": l_d, "p": []}, "rv": {"rv": "discr", "pl": {"l": l_opt, "p": []}, "adt": "std::option::Option", "variants": [[0, "None"], [1, "Some"]]}, "sp": sp, "exp": True}],
              "term": {"k": "switch", "discr": {"k": "move", "pl": {"l": l_d, "p": []}}, "targets": [[0, t["target"]]], "otherwise": head + 2, "sp": sp, "exp": True}}
        item_ty = gb["locals"][2]["ty"]["s"]
        bd = {"cleanup": False,
              "stmts": [{"k": "assign", "pl": {"l": lofs + 2, "p": []},
                         "rv": {"rv": "use", "op": {"k": "move", "pl": {"l": l_opt, "p": [{"down": 1, "name": "Some"}, {"f": 0, "name": "0", "ty": item_ty, "adt": "std::option::Option"}]}}}, "sp": sp, "exp": True}],
              "term": {"k": "goto", "target": bofs, "sp": sp, "exp": True}}
        blocks.extend([h, sw, bd])
        blocks.extend(new_blocks)
        b["term"] = {"k": "goto", "target": head, "sp": sp, "exp": True}
        g["absorbed"] = True
        stats.setdefault(fj["path"], []).append(g["path"] + " (for_each)")
        changed = True
    return changed


def desugar_parse(facts_json):
    """`s.parse::<T>()` is, by definition of str::parse, `<T as FromStr>::from_str(s)`"""
    impls = {}
    for f in facts_json["fns"]:
        if f.get("name") == "from_str" and (f.get("impl_trait") or "").endswith("str::FromStr") and f.get("impl_self"):
            impls[f["impl_self"]["s"]] = f["path"]
    n = 0
    for f in facts_json["fns"]:
        for b in f["body"]["blocks"]:
            t = b["term"]
            if t["k"] != "call":
                continue
            v = t["func"].get("v") if t["func"].get("k") == "const" else None
            if not isinstance(v, dict) or v.get("fn") != "core::str::<impl str>::parse" or len(v.get("targs") or []) != 1:
                continue
            ty = v["targs"][0]
            full = "<%s as std::str::FromStr>::from_str" % ty["s"]
            nv = {"fn": "std::str::FromStr::from_str", "full": full, "krate": "core", "local": False, "targs": [ty],
                  "name": "from_str", "trait": "std::str::FromStr", "self_ty": ty}
            if ty["s"] in impls:
                nv["resolved"] = {"fn": impls[ty["s"]], "full": full, "krate": facts_json.get("crate", "enr"), "local": True}
            t["func"]["v"] = nv
            n += 1
    return n


def inline_helpers(facts_json, anchors=None):
    """in-place; returns {caller: [inlined callee paths]}"""
    anchors = anchors if anchors is not None else load_anchors()
    if anchors is None:
        return {}
    by_path = {}
    for f in facts_json["fns"]:
        by_path.setdefault(f["path"], f)
    stats = {}
    desugar_parse(facts_json)
    for _ in range(MAX_ROUNDS):
        if not any([desugar_for_each(f, by_path, stats) for f in facts_json["fns"]]):
            break
    # helpers first, so that nested helpers are already expanded when spliced
    for _ in range(MAX_ROUNDS):
        changed = False
        for f in facts_json["fns"]:
            if f["path"] not in anchors and f["kind"] in ("Fn", "AssocFn"):
                changed = inline_into(f, by_path, anchors, stats) or changed
        if not changed:
            break
    for _ in range(MAX_ROUNDS):
        changed = False
        for f in facts_json["fns"]:
            if f["path"] in anchors or f["kind"] == "Closure":
                changed = inline_into(f, by_path, anchors, stats) or changed
        if not changed:
            break
    facts_json["inlined"] = stats
    # helpers that were spliced into every caller need no standalone analysis
    remaining = set()
    for f in facts_json["fns"]:
        for b in f["body"]["blocks"]:
            t = b["term"]
            if t["k"] in ("call", "tailcall"):
                ct = _callee_target(t)
                if ct:
                    remaining.add(ct[0])
            # functions passed as values
            for a in (t.get("args") or []):
                v = a.get("v") if a.get("k") == "const" else None
                if isinstance(v, dict) and "fn" in v:
                    remaining.add(v["fn"])
    inlined_callees = {c for cs in stats.values() for c in cs}
    for f in facts_json["fns"]:
        if f["path"] in inlined_callees and f["path"] not in remaining and not f.get("reachable") and f.get("vis") != "pub":
            f["absorbed"] = True
            # its closures go with it
    absorbed = {f["path"] for f in facts_json["fns"] if f.get("absorbed")}
    for f in facts_json["fns"]:
        if f["kind"] == "Closure" and f.get("parent") in absorbed:
            f["absorbed_parent"] = True
    import thread as _thr
    _thr.thread_all(facts_json)
    return stats
