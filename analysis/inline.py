"""MIR-level inlining of *non-anchor* crate-local helper functions.

The rules are anchored on the functions that exist in the tree they were
written for (analysis/anchors.json).  A private helper that a refactoring
extracts (or a function that did not exist before) is not an anchor: its body
is spliced into every caller before any analysis runs, so that extracting a
helper is invisible to the rules, exactly as it is invisible to behaviour.
Works on the JSON fact structures (before facts.Fn objects are built).
"""
import copy
import json
import os

HERE = os.path.dirname(os.path.abspath(__file__))
MAX_BLOCKS = 400
MAX_ROUNDS = 4


def load_anchors():
    p = os.path.join(HERE, "anchors.json")
    if not os.path.exists(p):
        return None
    with open(p) as f:
        return set(json.load(f)["functions"])


def load_private_signatures():
    p = os.path.join(HERE, "anchors.json")
    if not os.path.exists(p):
        return {}
    with open(p) as f:
        return json.load(f).get("private_signatures", {})


def restore_renamed_anchors(facts_json, anchors):
    """A private anchor that is absent while exactly one new private function
    of the same scope has its signature is that anchor under a new name: names
    do not matter to behaviour, so the old name is restored throughout the
    facts.  Returns {new path: anchor path}."""
    import re
    sigs = load_private_signatures()
    present = {f["path"] for f in facts_json["fns"]}
    renamed = {}
    for a, (ins, out) in sorted(sigs.items()):
        if a in present or a not in anchors:
            continue
        parent = a.rsplit("::", 1)[0] if "::" in a else ""
        cands = []
        for f in facts_json["fns"]:
            c = f["path"]
            if c in anchors or c in renamed or f["kind"] not in ("Fn", "AssocFn") or f.get("vis") == "pub" or f.get("impl_trait"):
                continue
            cp = c.rsplit("::", 1)[0] if "::" in c else ""
            if cp != parent:
                continue
            if [i.get("s") for i in (f.get("inputs") or [])] == ins and ((f.get("output") or {}).get("s")) == out:
                cands.append(c)
        if len(cands) == 1:
            renamed[cands[0]] = a
    if not renamed:
        return renamed
    rx = {c: re.compile(r"(?<![\w:])" + re.escape(c) + r"(?![\w])") for c in renamed}
    names = {c.rsplit("::", 1)[-1]: a.rsplit("::", 1)[-1] for c, a in renamed.items()}

    def walk(o):
        if isinstance(o, dict):
            fnv = o.get("fn") if isinstance(o.get("fn"), str) else o.get("path") if isinstance(o.get("path"), str) else None
            for k, v in list(o.items()):
                if isinstance(v, str):
                    nv = v
                    for c, a in renamed.items():
                        if c in nv:
                            nv = rx[c].sub(lambda m_: a, nv)
                    if nv != v:
                        o[k] = nv
                else:
                    walk(v)
            if fnv in renamed and o.get("name") in names:
                o["name"] = names[o["name"]]
        elif isinstance(o, list):
            for x in o:
                walk(x)
    walk(facts_json["fns"])
    facts_json["renamed_anchors"] = renamed
    return renamed


def _remap_place(pl, lofs, ret=None):
    """ret: local that takes the place of the callee's return slot _0"""
    if ret is not None and pl["l"] == 0:
        pl["l"] = ret
    else:
        pl["l"] += lofs
    for el in pl["p"]:
        if isinstance(el, dict) and "idx" in el:
            el["idx"] += lofs


def _remap_operand(op, lofs, ret=None):
    if "pl" in op:
        _remap_place(op["pl"], lofs, ret)


def _remap_rvalue(rv, lofs, ret=None):
    if "pl" in rv:
        _remap_place(rv["pl"], lofs, ret)
    for k in ("op", "a", "b"):
        if k in rv and isinstance(rv[k], dict) and "k" in rv[k]:
            _remap_operand(rv[k], lofs, ret)
    if "ops" in rv:
        for o in rv["ops"]:
            _remap_operand(o, lofs, ret)


def _remap_stmt(st, lofs, ret=None):
    if "pl" in st:
        _remap_place(st["pl"], lofs, ret)
    if "rv" in st and isinstance(st["rv"], dict):
        _remap_rvalue(st["rv"], lofs, ret)


def _remap_term(t, lofs, bofs, ret=None):
    k = t["k"]
    if "pl" in t:
        _remap_place(t["pl"], lofs, ret)
    if k in ("call", "tailcall"):
        _remap_operand(t["func"], lofs, ret)
        for a in t["args"]:
            _remap_operand(a, lofs, ret)
        if "dest" in t:
            _remap_place(t["dest"], lofs, ret)
    if k == "switch":
        _remap_operand(t["discr"], lofs, ret)
        t["targets"] = [[v, b + bofs] for v, b in t["targets"]]
        t["otherwise"] += bofs
    if k == "assert":
        _remap_operand(t["cond"], lofs, ret)
    if t.get("target") is not None and k in ("goto", "drop", "assert", "call"):
        t["target"] += bofs
    if "succ" in t:
        t["succ"] = [b + bofs for b in t["succ"]]


import re as _re


def _subst_types(obj, mapping, rx):
    """instantiate generic type parameters in a copied callee fragment:
    type dicts {"s": "T", ..} become the call site's type argument, type
    strings mentioning T as a whole word are rewritten textually"""
    if isinstance(obj, list):
        for i, x in enumerate(obj):
            if isinstance(x, dict) and x.get("s") in mapping and set(x.keys()) <= {"s", "k"}:
                obj[i] = copy.deepcopy(mapping[x["s"]])
            else:
                _subst_types(x, mapping, rx)
        return
    if not isinstance(obj, dict):
        return
    for k, v in list(obj.items()):
        if isinstance(v, dict) and v.get("s") in mapping and v.get("k") == "param":
            obj[k] = copy.deepcopy(mapping[v["s"]])
        elif isinstance(v, str) and k in ("s", "full", "ty", "fn") and rx.search(v):
            obj[k] = rx.sub(lambda m: mapping[m.group(0)]["s"], v)
        else:
            _subst_types(v, mapping, rx)


def _const_mapping(g, t):
    """const generic parameter name of callee g -> integer argument at call site t"""
    v = t["func"].get("v") or {}
    if v.get("resolved") or v.get("trait"):
        return None
    names = g.get("generic_consts") or []
    cargs = v.get("cargs") or []
    if not names or len(names) != len(cargs):
        return None
    m = {n: a for n, a in zip(names, cargs) if isinstance(a, int) and _re.match(r"^[A-Za-z_][A-Za-z0-9_]*$", n)}
    return m or None


def _subst_consts(obj, cmap, rx):
    """instantiate const generic parameters in a copied callee fragment: the
    parameter used as a value, as an array length and as a repeat count"""
    if isinstance(obj, list):
        for x in obj:
            _subst_consts(x, cmap, rx)
        return
    if not isinstance(obj, dict):
        return
    if obj.get("n_param") in cmap:
        obj["n"] = cmap[obj.pop("n_param")]
    v = obj.get("v")
    if isinstance(v, dict) and v.get("cparam") in cmap:
        obj["v"] = {"int": cmap[v["cparam"]], "size": 8}
    for k, x in list(obj.items()):
        if isinstance(x, str) and k in ("s", "full", "ty", "fn") and rx.search(x):
            obj[k] = rx.sub(lambda m: str(cmap[m.group(0)]), x)
        elif isinstance(x, (dict, list)):
            _subst_consts(x, cmap, rx)


def _type_mapping(g, t):
    """generic type parameter name of callee g -> type argument at call site t
    (only for direct calls: the arguments of a trait-method call belong to the
    trait's method, not to the impl function that was resolved)"""
    v = t["func"].get("v") or {}
    if v.get("resolved") or v.get("trait"):
        return None
    names = g.get("generic_types") or []
    targs = v.get("targs") or []
    if not names or len(names) != len(targs):
        return None
    m = {}
    for n, a in zip(names, targs):
        if a.get("s") != n and _re.match(r"^[A-Za-z_][A-Za-z0-9_]*$", n):
            m[n] = a
    return m or None


def _callee_target(t):
    f = t.get("func", {})
    v = f.get("v") if f.get("k") == "const" else None
    if not isinstance(v, dict) or "fn" not in v:
        return None
    if v.get("resolved"):
        return v["resolved"]["fn"], v["resolved"]["local"]
    if v.get("trait"):
        return None  # unresolved trait method on a generic
    return v["fn"], v.get("local", False)


def inline_into(fj, by_path, anchors, stats):
    """inline every eligible call of function json `fj` once; returns True if
    something was inlined"""
    body = fj["body"]
    blocks = body["blocks"]
    changed = False
    nblocks0 = len(blocks)
    for bi in range(nblocks0):
        if len(blocks) > MAX_BLOCKS:
            break
        b = blocks[bi]
        t = b["term"]
        if t["k"] != "call" or b["cleanup"]:
            continue
        ct = _callee_target(t)
        if ct is None:
            continue
        path, local = ct
        if not local or path in anchors or path == fj["path"]:
            continue
        g = by_path.get(path)
        if g is None or g["kind"] not in ("Fn", "AssocFn"):
            continue
        gb = g["body"]
        if len(gb["blocks"]) + len(blocks) > MAX_BLOCKS:
            continue
        if len(t["args"]) != gb["arg_count"] or t.get("target") is None:
            continue
        lofs = len(body["locals"])
        bofs = len(blocks)
        tmap = _type_mapping(g, t)
        trx = _re.compile(r"(?<![A-Za-z0-9_:])(" + "|".join(_re.escape(n) for n in tmap) + r")(?![A-Za-z0-9_])") if tmap else None
        cmap = _const_mapping(g, t)
        crx = _re.compile(r"(?<![A-Za-z0-9_:])(" + "|".join(_re.escape(n) for n in cmap) + r")(?![A-Za-z0-9_])") if cmap else None
        # locals
        for l in gb["locals"]:
            body["locals"].append(copy.deepcopy(l))
        # blocks
        cont = t["target"]
        dest = t["dest"]
        # the callee writes its result straight into the destination local (as hand-inlined
        # code would) unless the destination is a projection or is itself passed as an argument
        arg_locals = {a["pl"]["l"] for a in t["args"] if "pl" in a}
        ret = dest["l"] if (not dest["p"] and dest["l"] not in arg_locals) else None
        for gblk in gb["blocks"]:
            nb = copy.deepcopy(gblk)
            for st in nb["stmts"]:
                _remap_stmt(st, lofs, ret)
            nt = nb["term"]
            if nt["k"] == "return":
                if ret is None:
                    # dest = move _0'; goto continuation
                    nb["stmts"].append({"k": "assign", "pl": copy.deepcopy(dest),
                                        "rv": {"rv": "use", "op": {"k": "move", "pl": {"l": lofs, "p": []}}},
                                        "sp": nt.get("sp"), "exp": True})
                nb["term"] = {"k": "goto", "target": cont, "sp": nt.get("sp"), "exp": True}
            else:
                _remap_term(nt, lofs, bofs, ret)
            if tmap:
                _subst_types(nb, tmap, trx)
            if cmap:
                _subst_consts(nb, cmap, crx)
            blocks.append(nb)
        if tmap:
            for l in body["locals"][lofs:]:
                _subst_types(l, tmap, trx)
        if cmap:
            for l in body["locals"][lofs:]:
                _subst_consts(l, cmap, crx)
        # argument passing
        for i, a in enumerate(t["args"]):
            b["stmts"].append({"k": "assign", "pl": {"l": lofs + 1 + i, "p": []}, "rv": {"rv": "use", "op": copy.deepcopy(a)}, "sp": t.get("sp"), "exp": True})
        b["term"] = {"k": "goto", "target": bofs, "sp": t.get("sp"), "exp": True}
        stats.setdefault(fj["path"], []).append(path)
        changed = True
    return changed


def _rewrite_upvars(obj, env_local, by_ref, upvar_places):
    """replace every place rooted at the closure environment `env_local`
    ((*_1).i for Fn/FnMut closures, _1.i for FnOnce) by the captured place"""
    if isinstance(obj, list):
        for x in obj:
            _rewrite_upvars(x, env_local, by_ref, upvar_places)
        return True
    if not isinstance(obj, dict):
        return True
    if "l" in obj and "p" in obj and isinstance(obj["p"], list) and obj["l"] == env_local:
        pr = obj["p"]
        skip = 1 if by_ref else 0
        if len(pr) > skip and (not by_ref or pr[0] == "deref") and isinstance(pr[skip], dict) and "f" in pr[skip]:
            up = upvar_places.get(pr[skip]["f"])
            if up is None:
                raise ValueError("upvar")
            obj["l"] = up["l"]
            obj["p"] = copy.deepcopy(up["p"]) + pr[skip + 1:]
        else:
            raise ValueError("env escapes")
        return True
    for v in obj.values():
        _rewrite_upvars(v, env_local, by_ref, upvar_places)
    return True


def desugar_for_each(fj, by_path, stats):
    """`ITER.for_each(|x| BODY)` becomes the loop it abbreviates:
    `loop { match ITER.next() { None => break, Some(x) => BODY } }`, with the
    closure body spliced in and its captured variables substituted.  Purely a
    re-sugaring: Iterator::for_each is specified as exactly this loop."""
    body = fj["body"]
    blocks = body["blocks"]
    changed = False
    for bi in range(len(blocks)):
        b = blocks[bi]
        t = b["term"]
        if t["k"] != "call" or b["cleanup"] or t.get("target") is None:
            continue
        v = t["func"].get("v") if t["func"].get("k") == "const" else None
        if not isinstance(v, dict) or v.get("fn") != "std::iter::Iterator::for_each" or len(t["args"]) != 2:
            continue
        it_op, cl_op = t["args"]
        if cl_op.get("k") != "move" or cl_op["pl"]["p"] or it_op.get("k") != "move" or it_op["pl"]["p"]:
            continue
        cl_local = cl_op["pl"]["l"]
        # the unique closure aggregate
        aggs = []
        for blk in blocks:
            for st in blk["stmts"]:
                if st["k"] == "assign" and st["pl"]["l"] == cl_local and not st["pl"]["p"]:
                    aggs.append(st)
        if len(aggs) != 1 or aggs[0]["rv"].get("rv") != "aggregate" or aggs[0]["rv"].get("agg") != "closure":
            continue
        g = by_path.get(aggs[0]["rv"].get("fn"))
        if g is None or g["kind"] != "Closure" or g["body"]["arg_count"] != 2:
            continue
        ups = {}
        okc = True
        for i, o in enumerate(aggs[0]["rv"]["ops"]):
            if o.get("k") in ("move", "copy"):
                ups[i] = o["pl"]
            else:
                okc = False
        if not okc:
            continue
        gb = g["body"]
        env_ty = gb["locals"][1]["ty"]
        by_ref = env_ty.get("k") == "ref"
        lofs = len(body["locals"])
        bofs = len(blocks) + 3
        new_locals = [copy.deepcopy(l) for l in gb["locals"]]
        new_blocks = []
        try:
            for gblk in gb["blocks"]:
                nb = copy.deepcopy(gblk)
                for st in nb["stmts"]:
                    _remap_stmt(st, lofs)
                nt = nb["term"]
                if nt["k"] == "return":
                    nb["term"] = {"k": "goto", "target": len(blocks), "sp": nt.get("sp"), "exp": True}
                else:
                    _remap_term(nt, lofs, bofs)
                _rewrite_upvars(nb, lofs + 1, by_ref, ups)
                new_blocks.append(nb)
        except ValueError:
            continue
        self_ty = v.get("self_ty") or (v.get("targs") or [None])[0]
        if self_ty is None:
            continue
        sp = t.get("sp")
        # extra locals: &mut iter, Option<Item>, discriminant
        body["locals"].extend(new_locals)
        l_ref = len(body["locals"])
        body["locals"].append({"ty": {"s": "&mut " + self_ty["s"], "k": "ref", "mut": True, "of": self_ty}})
        l_opt = l_ref + 1
        body["locals"].append({"ty": {"s": "std::option::Option<%s>" % gb["locals"][2]["ty"]["s"], "k": "adt", "adt": "std::option::Option", "args": [gb["locals"][2]["ty"]]}})
        l_d = l_ref + 2
        body["locals"].append({"ty": {"s": "isize", "k": "int"}})
        full = "<%s as std::iter::Iterator>::next" % self_ty["s"]
        nxt = {"fn": "std::iter::Iterator::next", "full": full, "krate": "core", "local": False, "targs": [self_ty],
               "name": "next", "trait": "std::iter::Iterator", "self_ty": self_ty}
        head = len(blocks)
        h = {"cleanup": False,
             "stmts": [{"k": "assign", "pl": {"l": l_ref, "p": []}, "rv": {"rv": "ref", "mut": True, "pl": copy.deepcopy(it_op["pl"])}, "sp": sp, "exp": True}],
             "term": {"k": "call", "func": {"k": "const", "ty": "fn", "v": nxt}, "args": [{"k": "move", "pl": {"l": l_ref, "p": []}}],
                      "dest": {"l": l_opt, "p": []}, "target": head + 1, "sp": sp, "exp": True}}
        sw = {"cleanup": False,
              "stmts": [{"k": "assign", "pl": {"l": l_d, "p": []}, "rv": {"rv": "discr", "pl": {"l": l_opt, "p": []}, "adt": "std::option::Option", "variants": [[0, "None"], [1, "Some"]]}, "sp": sp, "exp": True}],
              "term": {"k": "switch", "discr": {"k": "move", "pl": {"l": l_d, "p": []}}, "targets": [[0, t["target"]]], "otherwise": head + 2, "sp": sp, "exp": True}}
        item_ty = gb["locals"][2]["ty"]["s"]
        bd = {"cleanup": False,
              "stmts": [{"k": "assign", "pl": {"l": lofs + 2, "p": []},
                         "rv": {"rv": "use", "op": {"k": "move", "pl": {"l": l_opt, "p": [{"down": 1, "name": "Some"}, {"f": 0, "name": "0", "ty": item_ty, "adt": "std::option::Option"}]}}}, "sp": sp, "exp": True}],
              "term": {"k": "goto", "target": bofs, "sp": sp, "exp": True}}
        blocks.extend([h, sw, bd])
        blocks.extend(new_blocks)
        b["term"] = {"k": "goto", "target": head, "sp": sp, "exp": True}
        g["absorbed"] = True
        stats.setdefault(fj["path"], []).append(g["path"] + " (for_each)")
        changed = True
    return changed


def _closure_of_local(blocks, by_path, cl_local):
    aggs = []
    for blk in blocks:
        for st in blk["stmts"]:
            if st["k"] == "assign" and st["pl"]["l"] == cl_local and not st["pl"]["p"]:
                aggs.append(st)
    if len(aggs) != 1 or aggs[0]["rv"].get("rv") != "aggregate" or aggs[0]["rv"].get("agg") != "closure":
        return None
    g = by_path.get(aggs[0]["rv"].get("fn"))
    if g is None or g["kind"] != "Closure" or g["body"]["arg_count"] != 2:
        return None
    ups = {}
    for i, o in enumerate(aggs[0]["rv"]["ops"]):
        if o.get("k") in ("move", "copy"):
            ups[i] = o["pl"]
        else:
            return None
    return g, ups


def _callee_json(fn, full, name, krate, self_ty=None, trait=None, targs=None):
    v = {"fn": fn, "full": full, "krate": krate, "local": False, "targs": targs or [], "name": name}
    if trait:
        v["trait"] = trait
    if self_ty:
        v["self_ty"] = self_ty
    return v


def desugar_map_collect(fj, by_path, stats):
    """`ITER.map(|x| BODY).collect::<Vec<_>>()` and `.collect::<Result<Vec<_>, E>>()`
    become the loops they abbreviate:
        let mut v = Vec::new();
        loop { match ITER.next() { None => break, Some(x) => v.push(BODY) } }        // Vec
        ... Some(x) => match BODY { Ok(y) => v.push(y), Err(e) => return-value Err(e) }  // Result<Vec, E>
    (FromIterator for Vec pushes in order; for Result it stops at the first Err
    and yields it).  The closure body is spliced in with its captures substituted."""
    body = fj["body"]
    blocks = body["blocks"]
    changed = False
    for bi in range(len(blocks)):
        b = blocks[bi]
        t = b["term"]
        if t["k"] != "call" or b["cleanup"] or t.get("target") is None or t.get("dest") is None or t["dest"]["p"]:
            continue
        v = t["func"].get("v") if t["func"].get("k") == "const" else None
        if not isinstance(v, dict) or v.get("fn") != "std::iter::Iterator::collect" or len(t["args"]) != 1:
            continue
        m_op = t["args"][0]
        if m_op.get("k") != "move" or m_op["pl"]["p"]:
            continue
        m_local = m_op["pl"]["l"]
        # the unique definition of the Map adaptor
        mdefs = [(i2, blk) for i2, blk in enumerate(blocks) if blk["term"]["k"] == "call" and blk["term"].get("dest") and blk["term"]["dest"]["l"] == m_local and not blk["term"]["dest"]["p"]]
        if len(mdefs) != 1 or any(st["k"] == "assign" and st["pl"]["l"] == m_local for blk in blocks for st in blk["stmts"]):
            continue
        mi, mb = mdefs[0]
        mt = mb["term"]
        mv = mt["func"].get("v") if mt["func"].get("k") == "const" else None
        if not isinstance(mv, dict) or mv.get("fn") != "std::iter::Iterator::map" or len(mt["args"]) != 2 or mt.get("target") is None:
            continue
        it_op, cl_op = mt["args"]
        if cl_op.get("k") != "move" or cl_op["pl"]["p"] or it_op.get("k") != "move" or it_op["pl"]["p"]:
            continue
        cg = _closure_of_local(blocks, by_path, cl_op["pl"]["l"])
        if cg is None:
            continue
        g, ups = cg
        dest_ty = body["locals"][t["dest"]["l"]]["ty"]
        if dest_ty.get("adt") == "std::vec::Vec":
            mode, vec_ty = "vec", dest_ty
        elif dest_ty.get("adt") == "std::result::Result" and dest_ty.get("args") and dest_ty["args"][0].get("adt") == "std::vec::Vec":
            mode, vec_ty = "result", dest_ty["args"][0]
        else:
            continue
        gb = g["body"]
        by_ref = gb["locals"][1]["ty"].get("k") == "ref"
        self_ty = mv.get("self_ty") or (mv.get("targs") or [None])[0]
        if self_ty is None:
            continue
        sp = t.get("sp")
        lofs = len(body["locals"])
        nl = len(gb["locals"])
        # locals: closure's, then &mut iter, Option<Item>, discr, vec, &mut vec, unit, [discr2, payload, err]
        l_ref, l_opt, l_d, l_vec, l_vref, l_unit, l_d2, l_pay, l_err = [lofs + nl + k for k in range(9)]
        item_ty = gb["locals"][2]["ty"]
        ret_ty = gb["locals"][0]["ty"]
        extra = [
            {"ty": {"s": "&mut " + self_ty["s"], "k": "ref", "mut": True, "of": self_ty}},
            {"ty": {"s": "std::option::Option<%s>" % item_ty["s"], "k": "adt", "adt": "std::option::Option", "args": [item_ty]}},
            {"ty": {"s": "isize", "k": "int"}},
            {"ty": copy.deepcopy(vec_ty)},
            {"ty": {"s": "&mut " + vec_ty["s"], "k": "ref", "mut": True, "of": copy.deepcopy(vec_ty)}},
            {"ty": {"s": "()", "k": "tuple", "args": []}},
            {"ty": {"s": "isize", "k": "int"}},
            {"ty": (ret_ty.get("args") or [ret_ty])[0]},
            {"ty": (ret_ty.get("args") or [ret_ty, ret_ty])[-1]},
        ]
        base = len(blocks)
        i_new, i_head, i_sw, i_item, i_ret, i_ok, i_err, i_exit = [base + k for k in range(8)]
        bofs = base + 8
        new_blocks = []
        try:
            for gblk in gb["blocks"]:
                nb = copy.deepcopy(gblk)
                for st in nb["stmts"]:
                    _remap_stmt(st, lofs)
                nt = nb["term"]
                if nt["k"] == "return":
                    nb["term"] = {"k": "goto", "target": i_ret, "sp": nt.get("sp"), "exp": True}
                else:
                    _remap_term(nt, lofs, bofs)
                _rewrite_upvars(nb, lofs + 1, by_ref, ups)
                new_blocks.append(nb)
        except ValueError:
            continue
        body["locals"].extend(copy.deepcopy(l) for l in gb["locals"])
        body["locals"].extend(extra)

        def P(l, proj=None):
            return {"l": l, "p": proj or []}

        def assign(pl, rv):
            return {"k": "assign", "pl": pl, "rv": rv, "sp": sp, "exp": True}

        def goto(tg):
            return {"k": "goto", "target": tg, "sp": sp, "exp": True}

        vnew = _callee_json("std::vec::Vec::<T>::new", "%s::new" % vec_ty["s"].replace("Vec<", "Vec::<", 1), "new", "alloc")
        vpush = _callee_json("std::vec::Vec::<T, A>::push", "%s::push" % vec_ty["s"].replace("Vec<", "Vec::<", 1), "push", "alloc")
        nxt = _callee_json("std::iter::Iterator::next", "<%s as std::iter::Iterator>::next" % self_ty["s"], "next", "core", self_ty=self_ty, trait="std::iter::Iterator", targs=[self_ty])
        pushed = P(lofs) if mode == "vec" else P(l_pay)
        blk_new = {"cleanup": False, "stmts": [], "term": {"k": "call", "func": {"k": "const", "ty": "fn", "v": vnew}, "args": [], "dest": P(l_vec), "target": i_head, "sp": sp, "exp": True}}
        blk_head = {"cleanup": False, "stmts": [assign(P(l_ref), {"rv": "ref", "mut": True, "pl": copy.deepcopy(it_op["pl"])})],
                    "term": {"k": "call", "func": {"k": "const", "ty": "fn", "v": nxt}, "args": [{"k": "move", "pl": P(l_ref)}], "dest": P(l_opt), "target": i_sw, "sp": sp, "exp": True}}
        blk_sw = {"cleanup": False, "stmts": [assign(P(l_d), {"rv": "discr", "pl": P(l_opt), "adt": "std::option::Option", "variants": [[0, "None"], [1, "Some"]]})],
                  "term": {"k": "switch", "discr": {"k": "move", "pl": P(l_d)}, "targets": [[0, i_exit]], "otherwise": i_item, "sp": sp, "exp": True}}
        blk_item = {"cleanup": False, "stmts": [assign(P(lofs + 2), {"rv": "use", "op": {"k": "move", "pl": P(l_opt, [{"down": 1, "name": "Some"}, {"f": 0, "name": "0", "ty": item_ty["s"], "adt": "std::option::Option"}])}})],
                    "term": goto(bofs)}
        if mode == "vec":
            blk_ret = {"cleanup": False, "stmts": [], "term": goto(i_ok)}
        else:
            blk_ret = {"cleanup": False, "stmts": [assign(P(l_d2), {"rv": "discr", "pl": P(lofs), "adt": "std::result::Result", "variants": [[0, "Ok"], [1, "Err"]]})],
                       "term": {"k": "switch", "discr": {"k": "move", "pl": P(l_d2)}, "targets": [[0, i_ok]], "otherwise": i_err, "sp": sp, "exp": True}}
        ok_stmts = [] if mode == "vec" else [assign(P(l_pay), {"rv": "use", "op": {"k": "move", "pl": P(lofs, [{"down": 0, "name": "Ok"}, {"f": 0, "name": "0", "adt": "std::result::Result"}])}})]
        ok_stmts.append(assign(P(l_vref), {"rv": "ref", "mut": True, "pl": P(l_vec)}))
        blk_ok = {"cleanup": False, "stmts": ok_stmts,
                  "term": {"k": "call", "func": {"k": "const", "ty": "fn", "v": vpush}, "args": [{"k": "move", "pl": P(l_vref)}, {"k": "move", "pl": pushed}], "dest": P(l_unit), "target": i_head, "sp": sp, "exp": True}}
        if mode == "vec":
            blk_err = {"cleanup": False, "stmts": [], "term": {"k": "unreachable", "sp": sp, "exp": True}}
            blk_exit = {"cleanup": False, "stmts": [assign(copy.deepcopy(t["dest"]), {"rv": "use", "op": {"k": "move", "pl": P(l_vec)}})], "term": goto(t["target"])}
        else:
            blk_err = {"cleanup": False, "stmts": [
                assign(P(l_err), {"rv": "use", "op": {"k": "move", "pl": P(lofs, [{"down": 1, "name": "Err"}, {"f": 0, "name": "0", "adt": "std::result::Result"}])}}),
                assign(copy.deepcopy(t["dest"]), {"rv": "aggregate", "agg": "adt", "adt": "std::result::Result", "variant": "Err", "vidx": 1, "fields": ["0"], "ops": [{"k": "move", "pl": P(l_err)}]})],
                "term": goto(t["target"])}
            blk_exit = {"cleanup": False, "stmts": [
                assign(copy.deepcopy(t["dest"]), {"rv": "aggregate", "agg": "adt", "adt": "std::result::Result", "variant": "Ok", "vidx": 0, "fields": ["0"], "ops": [{"k": "move", "pl": P(l_vec)}]})],
                "term": goto(t["target"])}
        blocks.extend([blk_new, blk_head, blk_sw, blk_item, blk_ret, blk_ok, blk_err, blk_exit])
        blocks.extend(new_blocks)
        # the Map adaptor is never built; collect becomes the loop
        mb["term"] = {"k": "goto", "target": mt["target"], "sp": mt.get("sp"), "exp": True}
        b["term"] = goto(i_new)
        g["absorbed"] = True
        stats.setdefault(fj["path"], []).append(g["path"] + " (map+collect)")
        changed = True
    return changed


def desugar_try_for_each(fj, by_path, stats):
    """`ITER.try_for_each(|x| BODY)` with BODY: Result<(), E> is
        loop { match ITER.next() { None => break Ok(()), Some(x) => match BODY { Ok(()) => {}, Err(e) => break Err(e) } } }"""
    body = fj["body"]
    blocks = body["blocks"]
    changed = False
    for bi in range(len(blocks)):
        b = blocks[bi]
        t = b["term"]
        if t["k"] != "call" or b["cleanup"] or t.get("target") is None or t.get("dest") is None or t["dest"]["p"]:
            continue
        v = t["func"].get("v") if t["func"].get("k") == "const" else None
        if not isinstance(v, dict) or v.get("fn") != "std::iter::Iterator::try_for_each" or len(t["args"]) != 2:
            continue
        it_op, cl_op = t["args"]
        # the receiver is `&mut iter`
        if cl_op.get("k") != "move" or cl_op["pl"]["p"] or it_op.get("k") not in ("move", "copy") or it_op["pl"]["p"]:
            continue
        dest_ty = body["locals"][t["dest"]["l"]]["ty"]
        if dest_ty.get("adt") != "std::result::Result":
            continue
        cg = _closure_of_local(blocks, by_path, cl_op["pl"]["l"])
        if cg is None:
            continue
        g, ups = cg
        gb = g["body"]
        by_ref = gb["locals"][1]["ty"].get("k") == "ref"
        self_ty = v.get("self_ty") or (v.get("targs") or [None])[0]
        if self_ty is None:
            continue
        sp = t.get("sp")
        lofs = len(body["locals"])
        nl = len(gb["locals"])
        l_opt, l_d, l_d2, l_err, l_unit = [lofs + nl + k for k in range(5)]
        item_ty = gb["locals"][2]["ty"]
        ret_ty = gb["locals"][0]["ty"]
        extra = [
            {"ty": {"s": "std::option::Option<%s>" % item_ty["s"], "k": "adt", "adt": "std::option::Option", "args": [item_ty]}},
            {"ty": {"s": "isize", "k": "int"}},
            {"ty": {"s": "isize", "k": "int"}},
            {"ty": (ret_ty.get("args") or [ret_ty, ret_ty])[-1]},
            {"ty": {"s": "()", "k": "tuple", "args": []}},
        ]
        base = len(blocks)
        i_head, i_sw, i_item, i_ret, i_err, i_exit = [base + k for k in range(6)]
        bofs = base + 6
        new_blocks = []
        try:
            for gblk in gb["blocks"]:
                nb = copy.deepcopy(gblk)
                for st in nb["stmts"]:
                    _remap_stmt(st, lofs)
                nt = nb["term"]
                if nt["k"] == "return":
                    nb["term"] = {"k": "goto", "target": i_ret, "sp": nt.get("sp"), "exp": True}
                else:
                    _remap_term(nt, lofs, bofs)
                _rewrite_upvars(nb, lofs + 1, by_ref, ups)
                new_blocks.append(nb)
        except ValueError:
            continue
        body["locals"].extend(copy.deepcopy(l) for l in gb["locals"])
        body["locals"].extend(extra)

        def P(l, proj=None):
            return {"l": l, "p": proj or []}

        def assign(pl, rv):
            return {"k": "assign", "pl": pl, "rv": rv, "sp": sp, "exp": True}

        def goto(tg):
            return {"k": "goto", "target": tg, "sp": sp, "exp": True}

        nxt = _callee_json("std::iter::Iterator::next", "<%s as std::iter::Iterator>::next" % self_ty["s"], "next", "core", self_ty=self_ty, trait="std::iter::Iterator", targs=[self_ty])
        blk_head = {"cleanup": False, "stmts": [],
                    "term": {"k": "call", "func": {"k": "const", "ty": "fn", "v": nxt}, "args": [copy.deepcopy(it_op)], "dest": P(l_opt), "target": i_sw, "sp": sp, "exp": True}}
        blk_sw = {"cleanup": False, "stmts": [assign(P(l_d), {"rv": "discr", "pl": P(l_opt), "adt": "std::option::Option", "variants": [[0, "None"], [1, "Some"]]})],
                  "term": {"k": "switch", "discr": {"k": "move", "pl": P(l_d)}, "targets": [[0, i_exit]], "otherwise": i_item, "sp": sp, "exp": True}}
        blk_item = {"cleanup": False, "stmts": [assign(P(lofs + 2), {"rv": "use", "op": {"k": "move", "pl": P(l_opt, [{"down": 1, "name": "Some"}, {"f": 0, "name": "0", "ty": item_ty["s"], "adt": "std::option::Option"}])}})],
                    "term": goto(bofs)}
        blk_ret = {"cleanup": False, "stmts": [assign(P(l_d2), {"rv": "discr", "pl": P(lofs), "adt": "std::result::Result", "variants": [[0, "Ok"], [1, "Err"]]})],
                   "term": {"k": "switch", "discr": {"k": "move", "pl": P(l_d2)}, "targets": [[0, i_head]], "otherwise": i_err, "sp": sp, "exp": True}}
        blk_err = {"cleanup": False, "stmts": [
            assign(P(l_err), {"rv": "use", "op": {"k": "move", "pl": P(lofs, [{"down": 1, "name": "Err"}, {"f": 0, "name": "0", "adt": "std::result::Result"}])}}),
            assign(copy.deepcopy(t["dest"]), {"rv": "aggregate", "agg": "adt", "adt": "std::result::Result", "variant": "Err", "vidx": 1, "fields": ["0"], "ops": [{"k": "move", "pl": P(l_err)}]})],
            "term": goto(t["target"])}
        blk_exit = {"cleanup": False, "stmts": [
            assign(P(l_unit), {"rv": "aggregate", "agg": "tuple", "ops": []}),
            assign(copy.deepcopy(t["dest"]), {"rv": "aggregate", "agg": "adt", "adt": "std::result::Result", "variant": "Ok", "vidx": 0, "fields": ["0"], "ops": [{"k": "move", "pl": P(l_unit)}]})],
            "term": goto(t["target"])}
        blocks.extend([blk_head, blk_sw, blk_item, blk_ret, blk_err, blk_exit])
        blocks.extend(new_blocks)
        b["term"] = goto(i_head)
        g["absorbed"] = True
        stats.setdefault(fj["path"], []).append(g["path"] + " (try_for_each)")
        changed = True
    return changed


def desugar_extend_array(fj, by_path, stats, facts_json):
    """`MAP.extend([e1, .., en])` and `MAP.extend([e1, .., en].into_iter().map(c))`
    on a BTreeMap with a literal array of at most 4 elements are the n inserts
    they abbreviate, in order (BTreeMap's Extend is `for (k, v) in iter
    { self.insert(k, v); }`); the closure call is left to inline_closure_calls."""
    body = fj["body"]
    blocks = body["blocks"]
    changed = False

    def def_block(local):
        ds = [blk for blk in blocks if blk["term"].get("k") == "call" and blk["term"].get("dest") and blk["term"]["dest"]["l"] == local and not blk["term"]["dest"]["p"]]
        return ds[0] if len(ds) == 1 else None

    def fn_of(t):
        v = t["func"].get("v") if t["func"].get("k") == "const" else None
        return v if isinstance(v, dict) else {}

    def plain(op):
        return op.get("k") in ("move", "copy") and not op["pl"]["p"]

    for b in list(blocks):
        t = b["term"]
        if t.get("k") != "call" or b["cleanup"] or t.get("target") is None or len(t.get("args") or []) != 2:
            continue
        v = fn_of(t)
        if v.get("fn") != "std::iter::Extend::extend" or not v.get("targs") or v["targs"][0].get("adt") != "std::collections::BTreeMap" or len(v["targs"]) < 2:
            continue
        recv, it = t["args"]
        if not plain(recv) or not plain(it):
            continue
        kv_ty = v["targs"][1]
        if kv_ty.get("k") != "tuple" or len(kv_ty.get("args") or []) != 2:
            continue
        cl_local = None
        cut = []
        cur = it["pl"]["l"]
        d = def_block(cur)
        if d is not None and fn_of(d["term"]).get("fn") == "std::iter::Iterator::map" and len(d["term"]["args"]) == 2 and all(plain(a) for a in d["term"]["args"]):
            cl_local = d["term"]["args"][1]["pl"]["l"]
            cut.append(d)
            cur = d["term"]["args"][0]["pl"]["l"]
            d = def_block(cur)
        if d is not None and fn_of(d["term"]).get("fn") == "std::iter::IntoIterator::into_iter" and len(d["term"]["args"]) == 1 and plain(d["term"]["args"][0]):
            cut.append(d)
            cur = d["term"]["args"][0]["pl"]["l"]
        aggs = [st for blk in blocks for st in blk["stmts"] if st["k"] == "assign" and st["pl"]["l"] == cur and not st["pl"]["p"]]
        if len(aggs) != 1 or aggs[0]["rv"].get("rv") != "aggregate" or aggs[0]["rv"].get("agg") != "array":
            continue
        ops = aggs[0]["rv"]["ops"]
        arr_ty = body["locals"][cur]["ty"]
        if not (1 <= len(ops) <= 4) or arr_ty.get("k") != "array" or not arr_ty.get("of"):
            continue
        elem_ty = arr_ty["of"]
        if cl_local is None and elem_ty.get("s") != kv_ty.get("s"):
            continue
        if cl_local is not None and _closure_of_local_any(blocks, by_path, cl_local) is None:
            continue
        # an insert callee of this map type, taken from any call in the crate
        ins = None
        for g in facts_json["fns"]:
            for blk in (g.get("body") or {}).get("blocks", []):
                tv = fn_of(blk["term"]) if blk["term"].get("k") == "call" else {}
                if tv.get("name") == "insert" and "BTreeMap" in tv.get("fn", "") and [a.get("s") for a in tv.get("targs", [])][:2] == [a.get("s") for a in v["targs"][0].get("args", [])][:2]:
                    ins = copy.deepcopy(blk["term"]["func"])
                    break
            if ins:
                break
        if ins is None:
            continue
        sp = t.get("sp")
        opt_ty = {"s": "std::option::Option<%s>" % kv_ty["args"][1]["s"], "k": "adt", "adt": "std::option::Option", "args": [kv_ty["args"][1]]}
        call_mut = {"k": "const", "ty": "fn", "v": {"fn": "std::ops::FnMut::call_mut", "full": "std::ops::FnMut::call_mut", "krate": "core", "local": False, "targs": [], "name": "call_mut", "trait": "std::ops::FnMut"}}
        final = t["target"]
        first = len(blocks)
        nb = []
        for i, o in enumerate(ops):
            l_elem = len(body["locals"]); body["locals"].append({"ty": copy.deepcopy(elem_ty)})
            l_kv = l_elem
            base = first + len(nb)
            stmts = [{"k": "assign", "pl": {"l": l_elem, "p": []}, "rv": {"rv": "use", "op": copy.deepcopy(o)}, "sp": sp, "exp": True}]
            if cl_local is not None:
                l_tup = len(body["locals"]); body["locals"].append({"ty": {"s": "(%s,)" % elem_ty["s"], "k": "tuple", "args": [copy.deepcopy(elem_ty)]}})
                l_kv = len(body["locals"]); body["locals"].append({"ty": copy.deepcopy(kv_ty)})
                stmts.append({"k": "assign", "pl": {"l": l_tup, "p": []}, "rv": {"rv": "aggregate", "agg": "tuple", "ops": [{"k": "move", "pl": {"l": l_elem, "p": []}}]}, "sp": sp, "exp": True})
                nb.append({"cleanup": False, "stmts": stmts,
                           "term": {"k": "call", "func": copy.deepcopy(call_mut), "args": [{"k": "copy", "pl": {"l": cl_local, "p": []}}, {"k": "move", "pl": {"l": l_tup, "p": []}}],
                                    "dest": {"l": l_kv, "p": []}, "target": base + 1, "sp": sp, "exp": True}})
                stmts = []
            l_opt = len(body["locals"]); body["locals"].append({"ty": copy.deepcopy(opt_ty)})
            nxt = first + len(nb) + 1 if i + 1 < len(ops) else final
            nb.append({"cleanup": False, "stmts": stmts,
                       "term": {"k": "call", "func": copy.deepcopy(ins),
                                "args": [{"k": "copy", "pl": copy.deepcopy(recv["pl"])},
                                         {"k": "move", "pl": {"l": l_kv, "p": [{"f": 0, "name": "0", "ty": kv_ty["args"][0]["s"]}]}},
                                         {"k": "move", "pl": {"l": l_kv, "p": [{"f": 1, "name": "1", "ty": kv_ty["args"][1]["s"]}]}}],
                                "dest": {"l": l_opt, "p": []}, "target": nxt, "sp": sp, "exp": False}})
        blocks.extend(nb)
        for d in cut:
            d["term"] = {"k": "goto", "target": d["term"]["target"], "sp": d["term"].get("sp"), "exp": True}
        b["term"] = {"k": "goto", "target": first, "sp": sp, "exp": True}
        stats.setdefault(fj["path"], []).append("BTreeMap::extend over %d literal element(s)" % len(ops))
        changed = True
    return changed


def desugar_mem_swap_replace(fj):
    """`std::mem::swap(a, b)` is `tmp = *a; *a = *b; *b = tmp`, and
    `std::mem::replace(d, v)` is `old = *d; *d = v; old` (both are plain moves
    of the bytes): written out, a commit through them is the whole-record
    assignment the rules know."""
    body = fj["body"]
    changed = False
    for b in body["blocks"]:
        t = b["term"]
        if t.get("k") != "call" or b["cleanup"] or t.get("target") is None or t.get("dest") is None:
            continue
        v = t["func"].get("v") if t["func"].get("k") == "const" else None
        if not isinstance(v, dict) or v.get("fn") not in ("std::mem::swap", "core::mem::swap", "std::mem::replace", "core::mem::replace") or len(t["args"]) != 2 or not v.get("targs"):
            continue
        a0, a1 = t["args"]
        if a0.get("k") not in ("move", "copy") or a0["pl"]["p"]:
            continue
        sp = t.get("sp")
        ty = v["targs"][0]

        def pointee(local, depth=0):
            """the place a reference temporary points to (`&mut L`, or a reborrow of one); else `*local`"""
            ds = [st for blk in body["blocks"] for st in blk["stmts"] if st["k"] == "assign" and st["pl"]["l"] == local and not st["pl"]["p"]]
            if depth < 6 and len(ds) == 1 and ds[0]["rv"].get("rv") == "ref" and not any(tb["term"].get("dest") and tb["term"]["dest"]["l"] == local for tb in body["blocks"] if tb["term"].get("k") == "call"):
                q = ds[0]["rv"]["pl"]
                if not q["p"]:
                    return {"l": q["l"], "p": []}
                if q["p"] == ["deref"]:
                    return pointee(q["l"], depth + 1)
            return {"l": local, "p": ["deref"]}
        d0 = pointee(a0["pl"]["l"])
        if v["fn"].endswith("swap"):
            if a1.get("k") not in ("move", "copy") or a1["pl"]["p"]:
                continue
            d1 = pointee(a1["pl"]["l"])
            tmp = len(body["locals"])
            body["locals"].append({"ty": copy.deepcopy(ty)})
            b["stmts"].append({"k": "assign", "pl": {"l": tmp, "p": []}, "rv": {"rv": "use", "op": {"k": "move", "pl": copy.deepcopy(d0)}}, "sp": sp, "exp": True})
            b["stmts"].append({"k": "assign", "pl": copy.deepcopy(d0), "rv": {"rv": "use", "op": {"k": "move", "pl": copy.deepcopy(d1)}}, "sp": sp, "exp": False})
            # the old value ends up in *b; when b is a whole local that is only dropped afterwards, keep it in the
            # temporary instead (that local then has a single definition, like a hand-written `*a = b`)
            back = d1
            if not d1["p"]:
                seen, stack, used = set(), [t["target"]], False
                while stack and not used:
                    n_ = stack.pop()
                    if n_ in seen or n_ is None or n_ >= len(body["blocks"]):
                        continue
                    seen.add(n_)
                    blk = body["blocks"][n_]
                    tt = blk["term"]
                    probe = json.dumps(blk["stmts"]) + (json.dumps({k_: v_ for k_, v_ in tt.items() if k_ not in ("target", "targets", "otherwise", "unwind", "succ")}) if tt.get("k") != "drop" else "")
                    if '"l": %d,' % d1["l"] in probe or '"l": %d}' % d1["l"] in probe:
                        used = True
                    for k_ in ("target", "otherwise"):
                        if isinstance(tt.get(k_), int):
                            stack.append(tt[k_])
                    for x in tt.get("targets") or []:
                        stack.append(x[1] if isinstance(x, list) else x)
                if not used:
                    back = None
            if back is not None:
                b["stmts"].append({"k": "assign", "pl": copy.deepcopy(back), "rv": {"rv": "use", "op": {"k": "move", "pl": {"l": tmp, "p": []}}}, "sp": sp, "exp": True})
        else:
            b["stmts"].append({"k": "assign", "pl": copy.deepcopy(t["dest"]), "rv": {"rv": "use", "op": {"k": "move", "pl": copy.deepcopy(d0)}}, "sp": sp, "exp": True})
            b["stmts"].append({"k": "assign", "pl": copy.deepcopy(d0), "rv": {"rv": "use", "op": copy.deepcopy(a1)}, "sp": sp, "exp": False})
        b["term"] = {"k": "goto", "target": t["target"], "sp": sp, "exp": True}
        changed = True
    return changed


def scalar_replace_carriers(fj, facts_json, stats):
    """A local of a private struct type that is built once, field by field
    (`S = Carrier { a, b }`), and afterwards only touched through its fields -
    directly, through `&S`/`&mut S` temporaries whose every use is a field
    projection (the `self` of spliced-in methods), or after a whole move into
    another such local (a by-value `self`) - is replaced by one local per
    field.  The struct never existed at run time as far as behaviour goes: its
    fields are independent variables.  Anything else (a reference passed to a
    call that was not spliced in, a whole read) leaves the local alone."""
    body = fj["body"]
    blocks = body["blocks"]
    structs = {a["path"]: a for a in facts_json.get("adts", []) if a.get("kind") == "Struct" and a.get("vis") != "pub" and len(a.get("variants", [])) == 1}
    if not structs:
        return False
    changed = False
    for S in range(body["arg_count"] + 1, len(body["locals"])):
        ty = body["locals"][S]["ty"]
        if ty.get("k") != "adt" or ty.get("adt") not in structs:
            continue
        aggs = [(bi, si) for bi, blk in enumerate(blocks) for si, st in enumerate(blk["stmts"]) if st["k"] == "assign" and st["pl"]["l"] == S and not st["pl"]["p"]]
        if len(aggs) != 1:
            continue
        ast = blocks[aggs[0][0]]["stmts"][aggs[0][1]]
        if ast["rv"].get("rv") != "aggregate" or ast["rv"].get("agg") != "adt" or ast["rv"].get("adt") != ty["adt"]:
            continue
        if any(blk["term"].get("k") == "call" and blk["term"].get("dest") and blk["term"]["dest"]["l"] == S for blk in blocks):
            continue
        vals = {S}
        refs = set()
        ok = True
        # closure of whole moves and reference temporaries
        for _ in range(8):
            grew = False
            for blk in blocks:
                for st in blk["stmts"]:
                    if st["k"] != "assign" or st["pl"]["p"]:
                        continue
                    X = st["pl"]["l"]
                    rv = st["rv"]
                    if rv.get("rv") == "use" and rv["op"].get("k") in ("move", "copy") and not rv["op"]["pl"]["p"]:
                        src = rv["op"]["pl"]["l"]
                        if src in vals and X not in vals:
                            vals.add(X); grew = True
                        if src in refs and X not in refs:
                            refs.add(X); grew = True
                    if rv.get("rv") == "ref":
                        q = rv["pl"]
                        if (q["l"] in vals and not q["p"]) or (q["l"] in refs and q["p"] == ["deref"]):
                            if X not in refs:
                                refs.add(X); grew = True
            if not grew:
                break
        if any(x <= body["arg_count"] for x in vals | refs):
            continue
        # every member has one definition
        for x in (vals | refs) - {S}:
            n = sum(1 for blk in blocks for st in blk["stmts"] if st["k"] == "assign" and st["pl"]["l"] == x and not st["pl"]["p"])
            n += sum(1 for blk in blocks if blk["term"].get("k") == "call" and blk["term"].get("dest") and blk["term"]["dest"]["l"] == x and not blk["term"]["dest"]["p"])
            if n != 1:
                ok = False

        def field_of(pl):
            """index of the field a place of the group denotes, and the rest of the projection; None if it is a whole use"""
            if pl["l"] in vals:
                p = pl["p"]
            elif pl["l"] in refs and pl["p"][:1] == ["deref"]:
                p = pl["p"][1:]
            else:
                return None
            if p and isinstance(p[0], dict) and "f" in p[0] and "down" not in p[0]:
                return p[0]["f"], p[1:]
            return None

        def alias_stmt(st):
            if st["k"] != "assign" or st["pl"]["p"] or st["pl"]["l"] not in (vals | refs):
                return False
            rv = st["rv"]
            if st["pl"]["l"] == S:
                return rv.get("rv") == "aggregate"
            if rv.get("rv") == "use":
                return rv["op"].get("k") in ("move", "copy") and not rv["op"]["pl"]["p"] and rv["op"]["pl"]["l"] in (vals | refs)
            if rv.get("rv") == "ref":
                q = rv["pl"]
                return (q["l"] in vals and not q["p"]) or (q["l"] in refs and q["p"] == ["deref"])
            return False

        def places(o, out):
            if isinstance(o, dict):
                if "l" in o and "p" in o and isinstance(o.get("p"), list):
                    out.append(o)
                    for e in o["p"]:
                        if isinstance(e, dict) and "idx" in e and e["idx"] in (vals | refs):
                            out.append({"l": e["idx"], "p": []})
                    return
                for v_ in o.values():
                    places(v_, out)
            elif isinstance(o, list):
                for v_ in o:
                    places(v_, out)
        if ok:
            for blk in blocks:
                for st in blk["stmts"]:
                    if alias_stmt(st):
                        continue
                    ps = []
                    places(st, ps)
                    if any(pl["l"] in (vals | refs) and field_of(pl) is None for pl in ps):
                        ok = False
                tt = blk["term"]
                if tt.get("k") == "drop" and tt["pl"]["l"] in (vals | refs) and not tt["pl"]["p"]:
                    continue
                ps = []
                places({k_: v_ for k_, v_ in tt.items() if k_ not in ("target", "targets", "otherwise", "unwind")}, ps)
                if any(pl["l"] in (vals | refs) and field_of(pl) is None for pl in ps):
                    ok = False
        if not ok:
            continue
        # rewrite
        fields = structs[ty["adt"]]["variants"][0]["fields"]
        ops = ast["rv"]["ops"]
        if len(ops) != len(fields):
            continue
        new = {}
        for i, fl in enumerate(fields):
            o = ops[i]
            fty = copy.deepcopy(body["locals"][o["pl"]["l"]]["ty"]) if o.get("k") in ("move", "copy") and not o["pl"]["p"] else copy.deepcopy(fl["ty"])
            new[i] = len(body["locals"])
            body["locals"].append({"ty": fty, "name": "%s.%s" % (body["locals"][S].get("name") or "_%d" % S, fl["name"])})

        def rewrite(o):
            if isinstance(o, dict):
                if "l" in o and "p" in o and isinstance(o.get("p"), list) and o["l"] in (vals | refs):
                    r = field_of(o)
                    if r is not None:
                        o["l"], o["p"] = new[r[0]], r[1]
                    return
                for v_ in o.values():
                    rewrite(v_)
            elif isinstance(o, list):
                for v_ in o:
                    rewrite(v_)
        for blk in blocks:
            keep = []
            for st in blk["stmts"]:
                if st is ast:
                    for i in range(len(fields)):
                        keep.append({"k": "assign", "pl": {"l": new[i], "p": []}, "rv": {"rv": "use", "op": copy.deepcopy(ops[i])}, "sp": st.get("sp"), "exp": st.get("exp", False)})
                    continue
                if alias_stmt(st):
                    continue
                rewrite(st)
                keep.append(st)
            blk["stmts"] = keep
            tt = blk["term"]
            if tt.get("k") == "drop" and tt["pl"]["l"] in (vals | refs) and not tt["pl"]["p"]:
                blk["term"] = {"k": "goto", "target": tt["target"], "sp": tt.get("sp"), "exp": True}
            else:
                for k_, v_ in tt.items():
                    if k_ not in ("target", "targets", "otherwise", "unwind"):
                        rewrite(v_)
        stats.setdefault(fj["path"], []).append("carrier struct %s split into %d locals" % (ty["adt"], len(fields)))
        changed = True
    return changed


def desugar_map_err_on_locals(fj):
    """`R.map_err(f)` where R is a local that a spliced-in helper filled with
    `Ok(..)`/`Err(..)` aggregates (no call result) is the match it abbreviates:
    `match R { Ok(v) => Ok(v), Err(e) => Err(f(e)) }`.  With the variant known
    on each incoming path the jump threader then folds the match, so the
    caller's `Ok(value)` is visible as such again."""
    body = fj["body"]
    blocks = body["blocks"]
    changed = False
    for b in list(blocks):
        t = b["term"]
        if t.get("k") != "call" or b["cleanup"] or t.get("target") is None or t.get("dest") is None or t["dest"]["p"] or len(t.get("args") or []) != 2:
            continue
        v = t["func"].get("v") if t["func"].get("k") == "const" else None
        if not isinstance(v, dict) or v.get("name") != "map_err" or not (v.get("fn") or "").startswith("std::result::Result"):
            continue
        r_op, f_op = t["args"]
        if r_op.get("k") != "move" or r_op["pl"]["p"]:
            continue
        R = r_op["pl"]["l"]
        if R <= body["arg_count"]:
            continue
        cdefs = [blk["term"] for blk in blocks if blk["term"].get("k") == "call" and blk["term"].get("dest") and blk["term"]["dest"]["l"] == R]
        # `?` inside the helper writes its early return through FromResidual::from_residual (always an Err)
        if any(((c_["func"].get("v") or {}).get("name") if c_["func"].get("k") == "const" and isinstance(c_["func"].get("v"), dict) else None) != "from_residual" for c_ in cdefs):
            continue
        defs = [st for blk in blocks for st in blk["stmts"] if st["k"] == "assign" and st["pl"]["l"] == R and not st["pl"]["p"]]
        if len(defs) + len(cdefs) < 2 or not defs or not all(d["rv"].get("rv") == "aggregate" and d["rv"].get("adt") == "std::result::Result" for d in defs):
            continue
        rty = body["locals"][R]["ty"]
        dty = body["locals"][t["dest"]["l"]]["ty"]
        if rty.get("adt") != "std::result::Result" or dty.get("adt") != "std::result::Result" or len(rty.get("args") or []) != 2 or len(dty.get("args") or []) != 2:
            continue
        sp = t.get("sp")
        D = t["dest"]
        l_d = len(body["locals"]); body["locals"].append({"ty": {"s": "isize", "k": "int"}})
        l_e = len(body["locals"]); body["locals"].append({"ty": copy.deepcopy(rty["args"][1])})
        l_m = len(body["locals"]); body["locals"].append({"ty": copy.deepcopy(dty["args"][1])})
        okb, errb, errb2 = len(blocks), len(blocks) + 1, len(blocks) + 2
        ok_pl = {"l": R, "p": [{"down": 0, "name": "Ok"}, {"f": 0, "name": "0", "ty": rty["args"][0]["s"], "adt": "std::result::Result"}]}
        err_pl = {"l": R, "p": [{"down": 1, "name": "Err"}, {"f": 0, "name": "0", "ty": rty["args"][1]["s"], "adt": "std::result::Result"}]}
        if f_op.get("k") == "const":
            call = {"k": "call", "func": copy.deepcopy(f_op), "args": [{"k": "move", "pl": {"l": l_e, "p": []}}], "dest": {"l": l_m, "p": []}, "target": errb2, "sp": sp, "exp": False}
            pre = []
        elif f_op.get("k") in ("move", "copy") and not f_op["pl"]["p"]:
            l_t = len(body["locals"]); body["locals"].append({"ty": {"s": "(%s,)" % rty["args"][1]["s"], "k": "tuple", "args": [copy.deepcopy(rty["args"][1])]}})
            pre = [{"k": "assign", "pl": {"l": l_t, "p": []}, "rv": {"rv": "aggregate", "agg": "tuple", "ops": [{"k": "move", "pl": {"l": l_e, "p": []}}]}, "sp": sp, "exp": True}]
            call = {"k": "call", "func": {"k": "const", "ty": "fn", "v": {"fn": "std::ops::FnOnce::call_once", "full": "std::ops::FnOnce::call_once", "krate": "core", "local": False, "targs": [], "name": "call_once", "trait": "std::ops::FnOnce"}},
                    "args": [copy.deepcopy(f_op), {"k": "move", "pl": {"l": l_t, "p": []}}], "dest": {"l": l_m, "p": []}, "target": errb2, "sp": sp, "exp": False}
        else:
            continue
        blocks.append({"cleanup": False, "stmts": [{"k": "assign", "pl": copy.deepcopy(D), "rv": {"rv": "aggregate", "agg": "adt", "adt": "std::result::Result", "variant": "Ok", "vidx": 0, "fields": ["0"], "ops": [{"k": "move", "pl": ok_pl}]}, "sp": sp, "exp": True}],
                       "term": {"k": "goto", "target": t["target"], "sp": sp, "exp": True}})
        blocks.append({"cleanup": False, "stmts": [{"k": "assign", "pl": {"l": l_e, "p": []}, "rv": {"rv": "use", "op": {"k": "move", "pl": err_pl}}, "sp": sp, "exp": True}] + pre, "term": call})
        blocks.append({"cleanup": False, "stmts": [{"k": "assign", "pl": copy.deepcopy(D), "rv": {"rv": "aggregate", "agg": "adt", "adt": "std::result::Result", "variant": "Err", "vidx": 1, "fields": ["0"], "ops": [{"k": "move", "pl": {"l": l_m, "p": []}}]}, "sp": sp, "exp": True}],
                       "term": {"k": "goto", "target": t["target"], "sp": sp, "exp": True}})
        b["stmts"].append({"k": "assign", "pl": {"l": l_d, "p": []}, "rv": {"rv": "discr", "pl": {"l": R, "p": []}, "adt": "std::result::Result", "variants": [[0, "Ok"], [1, "Err"]]}, "sp": sp, "exp": True})
        b["term"] = {"k": "switch", "discr": {"k": "move", "pl": {"l": l_d, "p": []}}, "targets": [[0, okb]], "otherwise": errb, "sp": sp, "exp": True}
        changed = True
    return changed


def desugar_is_ok_and(fj):
    """`R.is_ok_and(|x| P)` is `match R { Ok(x) => P, Err(_) => false }` (std's definition)."""
    body = fj["body"]
    blocks = body["blocks"]
    changed = False
    for b in list(blocks):
        t = b["term"]
        if t.get("k") != "call" or b["cleanup"] or t.get("target") is None or t.get("dest") is None or len(t.get("args") or []) != 2:
            continue
        v = t["func"].get("v") if t["func"].get("k") == "const" else None
        if not isinstance(v, dict) or v.get("name") != "is_ok_and" or not (v.get("fn") or "").startswith("std::result::Result"):
            continue
        r_op, f_op = t["args"]
        if r_op.get("k") != "move" or r_op["pl"]["p"] or f_op.get("k") not in ("move", "copy") or f_op["pl"]["p"]:
            continue
        R = r_op["pl"]["l"]
        rty = body["locals"][R]["ty"]
        if rty.get("adt") != "std::result::Result" or len(rty.get("args") or []) != 2:
            continue
        sp = t.get("sp")
        l_d = len(body["locals"]); body["locals"].append({"ty": {"s": "isize", "k": "int"}})
        l_t = len(body["locals"]); body["locals"].append({"ty": {"s": "(%s,)" % rty["args"][0]["s"], "k": "tuple", "args": [copy.deepcopy(rty["args"][0])]}})
        okb, errb = len(blocks), len(blocks) + 1
        ok_pl = {"l": R, "p": [{"down": 0, "name": "Ok"}, {"f": 0, "name": "0", "ty": rty["args"][0]["s"], "adt": "std::result::Result"}]}
        blocks.append({"cleanup": False,
                       "stmts": [{"k": "assign", "pl": {"l": l_t, "p": []}, "rv": {"rv": "aggregate", "agg": "tuple", "ops": [{"k": "move", "pl": ok_pl}]}, "sp": sp, "exp": True}],
                       "term": {"k": "call", "func": {"k": "const", "ty": "fn", "v": {"fn": "std::ops::FnOnce::call_once", "full": "std::ops::FnOnce::call_once", "krate": "core", "local": False, "targs": [], "name": "call_once", "trait": "std::ops::FnOnce"}},
                                "args": [copy.deepcopy(f_op), {"k": "move", "pl": {"l": l_t, "p": []}}], "dest": copy.deepcopy(t["dest"]), "target": t["target"], "sp": sp, "exp": False}})
        blocks.append({"cleanup": False,
                       "stmts": [{"k": "assign", "pl": copy.deepcopy(t["dest"]), "rv": {"rv": "use", "op": {"k": "const", "ty": "bool", "v": {"int": 0, "size": 1, "bool": False}}}, "sp": sp, "exp": True}],
                       "term": {"k": "goto", "target": t["target"], "sp": sp, "exp": True}})
        b["stmts"].append({"k": "assign", "pl": {"l": l_d, "p": []}, "rv": {"rv": "discr", "pl": {"l": R, "p": []}, "adt": "std::result::Result", "variants": [[0, "Ok"], [1, "Err"]]}, "sp": sp, "exp": True})
        b["term"] = {"k": "switch", "discr": {"k": "move", "pl": {"l": l_d, "p": []}}, "targets": [[0, okb]], "otherwise": errb, "sp": sp, "exp": True}
        changed = True
    return changed


def devirtualise_fn_items(fj):
    """`f(args)` where f is a local holding a function item (a function passed
    as `impl Fn*` to a helper that was spliced in): `Fn*::call*(f, (a, b))`
    becomes the direct call `that_function(a, b)`."""
    body = fj["body"]
    blocks = body["blocks"]
    defs = {}
    for b in blocks:
        for st in b["stmts"]:
            if st.get("k") == "assign" and not st["pl"]["p"]:
                defs.setdefault(st["pl"]["l"], []).append(st)
        t = b["term"]
        if t["k"] in ("call", "tailcall") and t.get("dest") is not None and not t["dest"]["p"]:
            defs.setdefault(t["dest"]["l"], []).append(None)
    n = 0

    def fn_item_of(op, depth=0):
        if op.get("k") == "const":
            v = op.get("v")
            return op if isinstance(v, dict) and "fn" in v else None
        if op.get("k") in ("copy", "move") and not op["pl"]["p"] and depth < 6:
            ds = defs.get(op["pl"]["l"], [])
            if len(ds) == 1 and ds[0] is not None and ds[0]["rv"].get("rv") == "use":
                return fn_item_of(ds[0]["rv"]["op"], depth + 1)
        return None

    for b in blocks:
        t = b["term"]
        if t["k"] != "call" or b["cleanup"]:
            continue
        v = t["func"].get("v") if t["func"].get("k") == "const" else None
        if not isinstance(v, dict) or v.get("name") not in ("call_once", "call_mut", "call") or not (v.get("trait") or "").startswith("std::ops::Fn") or len(t["args"]) != 2:
            continue
        item = fn_item_of(t["args"][0])
        tup = t["args"][1]
        if item is None or tup.get("k") not in ("copy", "move") or tup["pl"]["p"]:
            continue
        tds = defs.get(tup["pl"]["l"], [])
        if len(tds) != 1 or tds[0] is None or tds[0]["rv"].get("rv") != "aggregate" or tds[0]["rv"].get("agg") != "tuple":
            continue
        t["func"] = copy.deepcopy(item)
        t["args"] = copy.deepcopy(tds[0]["rv"]["ops"])
        n += 1
    return n


def inline_closure_calls(fj, by_path, stats):
    """`c(args)` where c is a local holding a closure built in this function (a
    closure passed as `impl Fn*` to a helper that was spliced in):
    `Fn*::call*(c, (a, b))` is replaced by the closure body with its captures
    substituted."""
    body = fj["body"]
    blocks = body["blocks"]
    changed = False
    for bi in range(len(blocks)):
        if len(blocks) > MAX_BLOCKS:
            break
        b = blocks[bi]
        t = b["term"]
        if t["k"] != "call" or b["cleanup"] or t.get("target") is None or t.get("dest") is None:
            continue
        v = t["func"].get("v") if t["func"].get("k") == "const" else None
        if not isinstance(v, dict) or v.get("name") not in ("call_once", "call_mut", "call") or not (v.get("trait") or "").startswith("std::ops::Fn") or len(t["args"]) != 2:
            continue
        cl_op, tup = t["args"]
        if cl_op.get("k") not in ("move", "copy") or cl_op["pl"]["p"] or tup.get("k") not in ("move", "copy") or tup["pl"]["p"]:
            continue
        # follow plain moves of the closure value back to its aggregate
        cl_local = cl_op["pl"]["l"]
        for _ in range(6):
            ds = [st for blk in blocks for st in blk["stmts"] if st["k"] == "assign" and st["pl"]["l"] == cl_local and not st["pl"]["p"]]
            if len(ds) == 1 and ds[0]["rv"].get("rv") == "use" and ds[0]["rv"]["op"].get("k") in ("move", "copy") and not ds[0]["rv"]["op"]["pl"]["p"]:
                cl_local = ds[0]["rv"]["op"]["pl"]["l"]
                continue
            break
        cg = _closure_of_local_any(blocks, by_path, cl_local)
        if cg is None:
            continue
        g, ups = cg
        tds = [st for blk in blocks for st in blk["stmts"] if st["k"] == "assign" and st["pl"]["l"] == tup["pl"]["l"] and not st["pl"]["p"]]
        if len(tds) != 1 or tds[0]["rv"].get("rv") != "aggregate" or tds[0]["rv"].get("agg") != "tuple":
            continue
        ops = tds[0]["rv"]["ops"]
        gb = g["body"]
        if gb["arg_count"] != 1 + len(ops) or len(gb["blocks"]) + len(blocks) > MAX_BLOCKS:
            continue
        by_ref = gb["locals"][1]["ty"].get("k") == "ref"
        lofs = len(body["locals"])
        bofs = len(blocks)
        dest = t["dest"]
        ret = dest["l"] if not dest["p"] else None
        new_blocks = []
        try:
            for gblk in gb["blocks"]:
                nb = copy.deepcopy(gblk)
                for st in nb["stmts"]:
                    _remap_stmt(st, lofs, ret)
                nt = nb["term"]
                if nt["k"] == "return":
                    if ret is None:
                        nb["stmts"].append({"k": "assign", "pl": copy.deepcopy(dest), "rv": {"rv": "use", "op": {"k": "move", "pl": {"l": lofs, "p": []}}}, "sp": nt.get("sp"), "exp": True})
                    nb["term"] = {"k": "goto", "target": t["target"], "sp": nt.get("sp"), "exp": True}
                else:
                    _remap_term(nt, lofs, bofs, ret)
                _rewrite_upvars(nb, lofs + 1, by_ref, ups)
                new_blocks.append(nb)
        except ValueError:
            continue
        body["locals"].extend(copy.deepcopy(l) for l in gb["locals"])
        for i, o in enumerate(ops):
            b["stmts"].append({"k": "assign", "pl": {"l": lofs + 2 + i, "p": []}, "rv": {"rv": "use", "op": copy.deepcopy(o)}, "sp": t.get("sp"), "exp": True})
        b["term"] = {"k": "goto", "target": bofs, "sp": t.get("sp"), "exp": True}
        blocks.extend(new_blocks)
        stats.setdefault(fj["path"], []).append(g["path"] + " (closure call)")
        changed = True
    return changed


def _closure_of_local_any(blocks, by_path, cl_local):
    aggs = [st for blk in blocks for st in blk["stmts"] if st["k"] == "assign" and st["pl"]["l"] == cl_local and not st["pl"]["p"]]
    if len(aggs) != 1 or aggs[0]["rv"].get("rv") != "aggregate" or aggs[0]["rv"].get("agg") != "closure":
        return None
    g = by_path.get(aggs[0]["rv"].get("fn"))
    if g is None or g["kind"] != "Closure":
        return None
    ups = {}
    for i, o in enumerate(aggs[0]["rv"]["ops"]):
        if o.get("k") in ("move", "copy"):
            ups[i] = o["pl"]
        else:
            return None
    return g, ups


def desugar_struct_update(facts_json):
    """`S { f: v, ..base }` is MIR `S { f: v, g: move base.g, h: copy base.h, .. }`:
    rewrite it into what it means, `x = move base; x.f = v`, so that a record
    built this way from a clone is the clone with one field written (and not a
    new construction site).  Only when every field not given explicitly comes
    from the same field of one local of the same type and the explicit
    operands are plain locals/constants (no evaluation-order concern)."""
    n = 0
    for f in facts_json["fns"]:
        body = f["body"]
        for b in body["blocks"]:
            new = []
            for st in b["stmts"]:
                rv = st.get("rv") if st.get("k") == "assign" else None
                if not (isinstance(rv, dict) and rv.get("rv") == "aggregate" and rv.get("agg") == "adt" and not st["pl"]["p"] and len(rv.get("ops", [])) >= 2):
                    new.append(st)
                    continue
                base = None
                explicit = []
                ok = True
                for i, o in enumerate(rv["ops"]):
                    pl = o.get("pl") if o.get("k") in ("copy", "move") else None
                    if pl is not None and len(pl["p"]) == 1 and isinstance(pl["p"][0], dict) and pl["p"][0].get("f") == i and pl["p"][0].get("adt") == rv.get("adt"):
                        if base is None:
                            base = pl["l"]
                        elif base != pl["l"]:
                            ok = False
                    else:
                        if pl is not None and pl["p"]:
                            ok = False
                        explicit.append(i)
                if not ok or base is None or not explicit or len(explicit) >= len(rv["ops"]) - 0 or base == st["pl"]["l"]:
                    new.append(st)
                    continue
                if body["locals"][base]["ty"].get("s") != body["locals"][st["pl"]["l"]]["ty"].get("s"):
                    new.append(st)
                    continue
                x = st["pl"]["l"]
                new.append({"k": "assign", "pl": {"l": x, "p": []}, "rv": {"rv": "use", "op": {"k": "move", "pl": {"l": base, "p": []}}}, "sp": st.get("sp"), "exp": True})
                for i in explicit:
                    new.append({"k": "assign", "pl": {"l": x, "p": [{"f": i, "name": rv["fields"][i] if i < len(rv.get("fields", [])) else str(i), "adt": rv.get("adt")}]},
                                "rv": {"rv": "use", "op": copy.deepcopy(rv["ops"][i])}, "sp": st.get("sp"), "exp": st.get("exp", False)})
                n += 1
            b["stmts"] = new
    return n


def desugar_parse(facts_json):
    """`s.parse::<T>()` is, by definition of str::parse, `<T as FromStr>::from_str(s)`"""
    impls = {}
    for f in facts_json["fns"]:
        if f.get("name") == "from_str" and (f.get("impl_trait") or "").endswith("str::FromStr") and f.get("impl_self"):
            impls[f["impl_self"]["s"]] = f["path"]
    n = 0
    for f in facts_json["fns"]:
        for b in f["body"]["blocks"]:
            t = b["term"]
            if t["k"] != "call":
                continue
            v = t["func"].get("v") if t["func"].get("k") == "const" else None
            if not isinstance(v, dict) or v.get("fn") != "core::str::<impl str>::parse" or len(v.get("targs") or []) != 1:
                continue
            ty = v["targs"][0]
            full = "<%s as std::str::FromStr>::from_str" % ty["s"]
            nv = {"fn": "std::str::FromStr::from_str", "full": full, "krate": "core", "local": False, "targs": [ty],
                  "name": "from_str", "trait": "std::str::FromStr", "self_ty": ty}
            if ty["s"] in impls:
                nv["resolved"] = {"fn": impls[ty["s"]], "full": full, "krate": facts_json.get("crate", "enr"), "local": True}
            t["func"]["v"] = nv
            n += 1
    return n


def inline_helpers(facts_json, anchors=None):
    """in-place; returns {caller: [inlined callee paths]}"""
    anchors = anchors if anchors is not None else load_anchors()
    if anchors is None:
        return {}
    by_path = {}
    for f in facts_json["fns"]:
        by_path.setdefault(f["path"], f)
    anchors = set(anchors)
    # a private anchor that kept its name but changed its parameter list (a flag parameter dropped, ...) is no longer the
    # function the rules were written for: treat it like any other private helper (spliced into its callers; the rules
    # then work on the flat views, as they do when the helper is absent)
    _sigs = load_private_signatures()
    for f in facts_json["fns"]:
        sg = _sigs.get(f["path"])
        if sg is not None and f["path"] in anchors and f.get("vis") != "pub":
            if [i.get("s") for i in (f.get("inputs") or [])] != sg[0]:  # the parameter list; another container for the result keeps the role
                anchors.discard(f["path"])
                facts_json.setdefault("resigned_anchors", []).append(f["path"])
    restore_renamed_anchors(facts_json, anchors)
    by_path = {}
    for f in facts_json["fns"]:
        by_path.setdefault(f["path"], f)
    # a function that plays an anchor's role under another name stays a function: the reserved-key validator is
    # the private free function (key: &[u8], value: &[u8]) -> Result<(), _> (rules find it by that role)
    if "check_spec_reserved_keys" not in by_path:
        cands = [f for f in facts_json["fns"] if f["kind"] == "Fn" and len(f.get("inputs") or []) == 2 and all(i.get("s") == "&[u8]" for i in f["inputs"]) and "Result<()" in ((f.get("output") or {}).get("s") or "")]
        if len(cands) == 1:
            anchors = set(anchors) | {cands[0]["path"]}
            facts_json["role_anchors"] = {"validator": cands[0]["path"]}
    stats = {}
    desugar_parse(facts_json)
    desugar_struct_update(facts_json)
    for f in facts_json["fns"]:
        if f.get("body"):
            desugar_extend_array(f, by_path, stats, facts_json)
            desugar_mem_swap_replace(f)
            if f["kind"] in ("Fn", "AssocFn") and desugar_is_ok_and(f):
                for _ in range(MAX_ROUNDS):
                    if not inline_closure_calls(f, by_path, stats):
                        break
    for _ in range(MAX_ROUNDS):
        if not any([desugar_for_each(f, by_path, stats) or desugar_map_collect(f, by_path, stats) or desugar_try_for_each(f, by_path, stats) for f in facts_json["fns"]]):
            break
    # helpers first, so that nested helpers are already expanded when spliced
    for _ in range(MAX_ROUNDS):
        changed = False
        for f in facts_json["fns"]:
            if f["path"] not in anchors and f["kind"] in ("Fn", "AssocFn"):
                changed = inline_into(f, by_path, anchors, stats) or changed
        if not changed:
            break
    for _ in range(MAX_ROUNDS):
        changed = False
        for f in facts_json["fns"]:
            if f["path"] in anchors or f["kind"] == "Closure":
                changed = inline_into(f, by_path, anchors, stats) or changed
                if devirtualise_fn_items(f):
                    changed = True
                if inline_closure_calls(f, by_path, stats):
                    changed = True
        if not changed:
            break
    for f in facts_json["fns"]:
        if f.get("body") and not f.get("absorbed") and f["kind"] in ("Fn", "AssocFn"):
            try:
                if desugar_map_err_on_locals(f):
                    stats.setdefault(f["path"], []).append("map_err on a spliced-in result written out")
                    for _ in range(MAX_ROUNDS):
                        ch = f["path"] in anchors and inline_into(f, by_path, anchors, stats)
                        ch = inline_closure_calls(f, by_path, stats) or ch
                        if not ch:
                            break
            except (KeyError, IndexError, TypeError):
                pass
    for f in facts_json["fns"]:
        if f.get("body") and not f.get("absorbed"):
            try:
                if scalar_replace_carriers(f, facts_json, stats):
                    desugar_mem_swap_replace(f)
            except (KeyError, IndexError, TypeError):
                pass
    facts_json["inlined"] = stats
    # helpers that were spliced into every caller need no standalone analysis
    remaining = set()
    for f in facts_json["fns"]:
        for b in f["body"]["blocks"]:
            t = b["term"]
            if t["k"] in ("call", "tailcall"):
                ct = _callee_target(t)
                if ct:
                    remaining.add(ct[0])
            # functions passed as values
            for a in (t.get("args") or []):
                v = a.get("v") if a.get("k") == "const" else None
                if isinstance(v, dict) and "fn" in v:
                    remaining.add(v["fn"])
    inlined_callees = {c for cs in stats.values() for c in cs}
    for f in facts_json["fns"]:
        if f["path"] in inlined_callees and f["path"] not in remaining and not f.get("reachable") and f.get("vis") != "pub":
            f["absorbed"] = True
            # its closures go with it
    absorbed = {f["path"] for f in facts_json["fns"] if f.get("absorbed")}
    for f in facts_json["fns"]:
        if f["kind"] == "Closure" and f.get("parent") in absorbed:
            f["absorbed_parent"] = True
    import thread as _thr
    _thr.thread_all(facts_json)
    return stats
