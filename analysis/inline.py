"""MIR-level inlining of *non-anchor* crate-local helper functions.

The rules are anchored on the functions that exist in the tree they were
written for (analysis/anchors.json).  A private helper that a refactoring
extracts (or a function that did not exist before) is not an anchor: its body
is spliced into every caller before any analysis runs, so that extracting a
helper is invisible to the rules, exactly as it is invisible to behaviour.
Works on the JSON fact structures (before facts.Fn objects are built).
"""
import copy
import json
import os

HERE = os.path.dirname(os.path.abspath(__file__))
MAX_BLOCKS = 400
MAX_ROUNDS = 4


def load_anchors():
    p = os.path.join(HERE, "anchors.json")
    if not os.path.exists(p):
        return None
    with open(p) as f:
        return set(json.load(f)["functions"])


def _remap_place(pl, lofs):
    pl["l"] += lofs
    for el in pl["p"]:
        if isinstance(el, dict) and "idx" in el:
            el["idx"] += lofs


def _remap_operand(op, lofs):
    if "pl" in op:
        _remap_place(op["pl"], lofs)


def _remap_rvalue(rv, lofs):
    if "pl" in rv:
        _remap_place(rv["pl"], lofs)
    for k in ("op", "a", "b"):
        if k in rv and isinstance(rv[k], dict) and "k" in rv[k]:
            _remap_operand(rv[k], lofs)
    if "ops" in rv:
        for o in rv["ops"]:
            _remap_operand(o, lofs)


def _remap_stmt(st, lofs):
    if "pl" in st:
        _remap_place(st["pl"], lofs)
    if "rv" in st and isinstance(st["rv"], dict):
        _remap_rvalue(st["rv"], lofs)


def _remap_term(t, lofs, bofs):
    k = t["k"]
    if "pl" in t:
        _remap_place(t["pl"], lofs)
    if k in ("call", "tailcall"):
        _remap_operand(t["func"], lofs)
        for a in t["args"]:
            _remap_operand(a, lofs)
        if "dest" in t:
            _remap_place(t["dest"], lofs)
    if k == "switch":
        _remap_operand(t["discr"], lofs)
        t["targets"] = [[v, b + bofs] for v, b in t["targets"]]
        t["otherwise"] += bofs
    if k == "assert":
        _remap_operand(t["cond"], lofs)
    if t.get("target") is not None and k in ("goto", "drop", "assert", "call"):
        t["target"] += bofs
    if "succ" in t:
        t["succ"] = [b + bofs for b in t["succ"]]


def _callee_target(t):
    f = t.get("func", {})
    v = f.get("v") if f.get("k") == "const" else None
    if not isinstance(v, dict) or "fn" not in v:
        return None
    if v.get("resolved"):
        return v["resolved"]["fn"], v["resolved"]["local"]
    if v.get("trait"):
        return None  # unresolved trait method on a generic
    return v["fn"], v.get("local", False)


def inline_into(fj, by_path, anchors, stats):
    """inline every eligible call of function json `fj` once; returns True if
    something was inlined"""
    body = fj["body"]
    blocks = body["blocks"]
    changed = False
    nblocks0 = len(blocks)
    for bi in range(nblocks0):
        if len(blocks) > MAX_BLOCKS:
            break
        b = blocks[bi]
        t = b["term"]
        if t["k"] != "call" or b["cleanup"]:
            continue
        ct = _callee_target(t)
        if ct is None:
            continue
        path, local = ct
        if not local or path in anchors or path == fj["path"]:
            continue
        g = by_path.get(path)
        if g is None or g["kind"] not in ("Fn", "AssocFn"):
            continue
        gb = g["body"]
        if len(gb["blocks"]) + len(blocks) > MAX_BLOCKS:
            continue
        if len(t["args"]) != gb["arg_count"] or t.get("target") is None:
            continue
        lofs = len(body["locals"])
        bofs = len(blocks)
        # locals
        for l in gb["locals"]:
            body["locals"].append(copy.deepcopy(l))
        # blocks
        cont = t["target"]
        dest = t["dest"]
        for gblk in gb["blocks"]:
            nb = copy.deepcopy(gblk)
            for st in nb["stmts"]:
                _remap_stmt(st, lofs)
            nt = nb["term"]
            if nt["k"] == "return":
                # dest = move _0'; goto continuation
                nb["stmts"].append({"k": "assign", "pl": copy.deepcopy(dest),
                                    "rv": {"rv": "use", "op": {"k": "move", "pl": {"l": lofs, "p": []}}},
                                    "sp": nt.get("sp"), "exp": True})
                nb["term"] = {"k": "goto", "target": cont, "sp": nt.get("sp"), "exp": True}
            else:
                _remap_term(nt, lofs, bofs)
            blocks.append(nb)
        # argument passing
        for i, a in enumerate(t["args"]):
            b["stmts"].append({"k": "assign", "pl": {"l": lofs + 1 + i, "p": []}, "rv": {"rv": "use", "op": copy.deepcopy(a)}, "sp": t.get("sp"), "exp": True})
        b["term"] = {"k": "goto", "target": bofs, "sp": t.get("sp"), "exp": True}
        stats.setdefault(fj["path"], []).append(path)
        changed = True
    return changed


def inline_helpers(facts_json, anchors=None):
    """in-place; returns {caller: [inlined callee paths]}"""
    anchors = anchors if anchors is not None else load_anchors()
    if anchors is None:
        return {}
    by_path = {}
    for f in facts_json["fns"]:
        by_path.setdefault(f["path"], f)
    stats = {}
    # helpers first, so that nested helpers are already expanded when spliced
    for _ in range(MAX_ROUNDS):
        changed = False
        for f in facts_json["fns"]:
            if f["path"] not in anchors and f["kind"] in ("Fn", "AssocFn"):
                changed = inline_into(f, by_path, anchors, stats) or changed
        if not changed:
            break
    for _ in range(MAX_ROUNDS):
        changed = False
        for f in facts_json["fns"]:
            if f["path"] in anchors or f["kind"] == "Closure":
                changed = inline_into(f, by_path, anchors, stats) or changed
        if not changed:
            break
    facts_json["inlined"] = stats
    # helpers that were spliced into every caller need no standalone analysis
    remaining = set()
    for f in facts_json["fns"]:
        for b in f["body"]["blocks"]:
            t = b["term"]
            if t["k"] in ("call", "tailcall"):
                ct = _callee_target(t)
                if ct:
                    remaining.add(ct[0])
            # functions passed as values
            for a in (t.get("args") or []):
                v = a.get("v") if a.get("k") == "const" else None
                if isinstance(v, dict) and "fn" in v:
                    remaining.add(v["fn"])
    inlined_callees = {c for cs in stats.values() for c in cs}
    for f in facts_json["fns"]:
        if f["path"] in inlined_callees and f["path"] not in remaining and not f.get("reachable") and f.get("vis") != "pub":
            f["absorbed"] = True
            # its closures go with it
    absorbed = {f["path"] for f in facts_json["fns"] if f.get("absorbed")}
    for f in facts_json["fns"]:
        if f["kind"] == "Closure" and f.get("parent") in absorbed:
            f["absorbed_parent"] = True
    return stats
