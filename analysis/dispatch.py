"""A4 - partial evaluation of a dispatch on one byte-string variable.

`match key { b"id" => .., TCP_ENR_KEY | .. => .., _ => .. }` on a `&[u8]`
lowers to a trie of `switchInt` on `PtrMetadata(key) == n` and on the bytes
`(*key)[i of n]`; `key == CONST` lowers to `<[u8] as PartialEq>::eq` calls.
Given a concrete key, fold those tests and return the first block that is not
part of the dispatch (the leaf region selected for that key)."""
from kernel import strip


class Unfoldable(Exception):
    pass


def _const_bytes(e):
    e = strip(e)
    if e.k == "const" and isinstance(e.a[0], bytes):
        return e.a[0]
    return None


def _const_int(e):
    e = strip(e)
    if e.k == "const" and isinstance(e.a[0], int):
        return e.a[0]
    return None


def eval_key_cond(cond, is_key, key):
    """Evaluate a condition over the key variable for the concrete `key`.
    Returns an int/bool, or None if the condition is not purely about the key."""
    c = cond
    # byte of the key:  (*key)[i of n]
    cs = c
    while cs.k in ("ref",):
        cs = cs.a[0]
    if cs.k == "cindex":
        base = cs.a[0]
        if base.k == "deref" and is_key(base.a[0]) or is_key(base):
            off, minlen, from_end = cs.a[1], cs.a[2], cs.a[3]
            idx = (len(key) - off) if from_end else off
            if 0 <= idx < len(key):
                return key[idx]
            raise Unfoldable("index %d of key of length %d" % (idx, len(key)))
    c = strip(c)
    if c.k == "unop" and c.a[0] == "PtrMetadata" and is_key(c.a[1]):
        return len(key)
    if c.k == "call" and c.a[0].name == "len" and c.a[1] and is_key(c.a[1][0]):
        return len(key)
    if c.k == "unop" and c.a[0] == "Not":
        v = eval_key_cond(c.a[1], is_key, key)
        return None if v is None else (not v)
    if c.k == "binop" and c.a[0] in ("Eq", "Ne", "Lt", "Le", "Gt", "Ge"):
        a = eval_key_cond(c.a[1], is_key, key)
        b = eval_key_cond(c.a[2], is_key, key)
        if a is None:
            a = _const_int(c.a[1])
        if b is None:
            b = _const_int(c.a[2])
        if a is None or b is None:
            return None
        return {"Eq": a == b, "Ne": a != b, "Lt": a < b, "Le": a <= b, "Gt": a > b, "Ge": a >= b}[c.a[0]]
    if c.k == "call" and c.a[0].name in ("eq", "ne") and (c.a[0].trait or "").endswith("PartialEq") and len(c.a[1]) == 2:
        x, y = c.a[1]
        other = None
        if is_key(x):
            other = _const_bytes(y)
        elif is_key(y):
            other = _const_bytes(x)
        if other is None:
            return None
        r = key == other
        return r if c.a[0].name == "eq" else (not r)
    return None


def fold(an, start, is_key, key, max_steps=400):
    """Follow the dispatch from block `start` for the concrete key; returns
    (leaf block, list of visited dispatch blocks)."""
    fn = an.fn
    cur = start
    visited = []
    for _ in range(max_steps):
        b = fn.blocks[cur]
        t = b.term
        if t.kind == "switch":
            cond = an.operand_expr(t.discr, cur, len(b.stmts))
            try:
                v = eval_key_cond(cond, is_key, key)
            except Unfoldable:
                return cur, visited
            if v is None:
                return cur, visited
            v = int(v)
            tgt = None
            for val, tb in t.targets:
                if val == v:
                    tgt = tb
            if tgt is None:
                tgt = t.otherwise
            visited.append(cur)
            cur = tgt
            continue
        if t.kind == "goto" and not _has_effects(b):
            visited.append(cur)
            cur = t.target
            continue
        if t.kind == "call" and t.callee is not None and t.callee.name in ("eq", "ne") and (t.callee.trait or "").endswith("PartialEq"):
            # comparison call feeding a later switch: part of the dispatch if it is about the key
            e = an.call_expr(t, cur)
            try:
                v = eval_key_cond(e, is_key, key)
            except Unfoldable:
                v = None
            if v is not None:
                visited.append(cur)
                cur = t.target
                continue
        return cur, visited
    return cur, visited


def _has_effects(b):
    """a goto block whose statements only compute temporaries"""
    for s in b.stmts:
        if s.kind != "assign":
            return True
        if not s.place.is_local():
            return True
    return False
