#!/usr/bin/env python3
"""Regenerate /verif/MANIFEST.json from the table below (kept next to the
rule packs so the claim text and the code evolve together)."""
import json, os
VERIF = os.path.dirname(os.path.dirname(os.path.abspath(__file__)))
props = [json.loads(l) for l in open(os.path.join(VERIF, "properties.jsonl"))]

# property id -> claim; only properties whose rule pack exists and passes are listed
CLAIMS = {
 "C06": dict(
  technique="MIR effect (write-set) dataflow per &mut-record function with callee summaries",
  text="Decides the whole property structurally: for every function that receives &mut Enr<K> (5 core mutators, 18 wrappers, sign) and every non-Ok exit (each `?`, each explicit Err, each tail call), a forward may-analysis over the MIR CFG shows that no write to *self is outstanding: either nothing was written on the way (clone-and-commit) or every written field was restored from a value saved before the write (save-and-restore); atomic callees count as writing only on their Ok edge. Path-complete for all inputs, histories, key types and failure causes, including the signer `?`, which is what an injected signing fault exercises.",
  note="Trusts: MIR fidelity; alias resolution of reborrows (kernel.py); std containers write only through the &mut they get; fields are private (C05 encapsulation rule). `still verifies` follows from C05.",
  design="3/C06"),
 "C07": dict(
  technique="MIR typestate dataflow on the record object of each mutator + wrapper call counting",
  text="Decides the structural core of the property for all histories and starting values: at every commit of the four incrementing core mutators the sequence number was written exactly once, as the Some payload of u64::checked_add(old seq, 1) whose None outcome becomes Err(SequenceNumberTooHigh) (no wrapping/saturating/plain arithmetic on seq anywhere); set_seq commits exactly its u64 parameter; each of the 18 wrappers reaches every successful exit through exactly one core update (compound updates count once); seq is emitted and consumed as u64 in encode, both signing payload builders, decode and the builder. Not decided: alloy-rlp's u64 codec itself.",
  note="Trusts: MIR fidelity; core::u64::checked_add; alloy-rlp integer codec. Atomicity of the overflow error is C06.",
  design="3/C07"),
 "C09": dict(
  technique="MIR guard-set (interval) analysis + typestate `sized` fact + expression-shape rule for size()",
  text="Decides: MAX_ENR_SIZE evaluates to 300; size() is the length of a fresh buffer filled only by the record's own encode; every commit of every mutator is preceded, after its last write to seq/content/signature, by a guard on size(the committed object) whose admitted set is exactly [0,300] (operator-independent, so both off-by-one directions and a dropped or mis-aimed guard are reported); every Err(ExceedsMaxSize) is control-dependent on a guard that holds only above 300; early guards are followed by no content write other than the signer's key; the decoder returns Ok only behind an item-size guard admitting exactly [0,300]; the builder's check is content+signature+c<=300 with 4<=c<=8. Not decided: the numeric coincidence refused<=>exceeded on concrete boundary records (needs evaluation of lengths).",
  note="Trusts: MIR fidelity; RLP header arithmetic (encoded size <= content_len + sig_len + 4 for signatures < 256 bytes); fixed-length built-in signatures; Header::decode_bytes only advances.",
  design="3/C09"),
 "C10": dict(
  technique="MIR origin-tree shape matching + record typestate `idd` fact",
  text="Decides the structural definition of the node id for every key type and every write of a node_id field: NodeId::from(pk) is exactly NodeId(digest(pk.encode_uncompressed())), digest is Keccak-256 over its whole argument copied into [u8;32]; each back-end's encode_uncompressed has the defining shape (k256: x into [..32] and y into [32..] of a 64-byte array, both derived from self; libsecp256k1: serialize_uncompressed()[1..] into 64 bytes; ed25519: the 32-byte key; CombinedPublicKey: delegation to the matching variant); build, decode and clone give the new record the id of the key that is in (or read from) that same record's content; every commit of the 5 core mutators has node_id = NodeId::from(public(k)) for the same k whose public key was stored last in content and that signed it; node_id() is a pure projection. Hence the id depends on the public key alone. Not decided: curve decompression and Keccak arithmetic (library).",
  note="Trusts: MIR fidelity; sha3/k256/secp256k1/ed25519-dalek compute what their API names say.",
  design="3/C10"),
 "C01": dict(
  technique="MIR dominance/edge-predicate rule for the signature gate + origin-tree shape rules + emission-grammar (event skeleton) analysis",
  text="Decides, path-completely and for all four key types in every feature configuration, the structural chain that makes acceptance imply authenticity: every Ok of decode is behind the edge verify(&that record)==true with the record unmodified since; verify() returns only false or K::PublicKey::verify_v4(public_key(), rlp_content(), signature) under id()==Some(\"v4\"); public_key() reads K::enr_to_public(&self.content) and every back-end reads exactly its own key constant from that map (CombinedKey: secp256k1 then ed25519); the signed payload is list-header(len(stream))||stream with stream = seq then every (key, raw value) of the whole content map in map order, signature excluded; the record decode returns carries the very seq, signature and map it read; each back-end's verify_v4 is true only as is_ok of the library verification over self, the scheme's digest of the whole message and a signature parsed from the unmodified parameter by the strict 64-byte parser; no normalize_s/DER/recoverable parser is called anywhere; from_str and Deserialize return only what decode returned and records are constructed only in decode, build and clone. Not decided: that k256/libsecp256k1/ed25519-dalek implement the schemes and reject high-S (library facts), collision resistance.",
  note="Trusts: MIR fidelity; k256 verify_digest and libsecp256k1 verify_ecdsa reject high-S; Signature::try_from/from_compact accept exactly 64 bytes; ed25519-dalek Verifier.",
  design="3/C01"),
 "C02": dict(
  technique="MIR reader-skeleton recovery, partial evaluation of the key dispatch per key, guard-set and ordering-set analysis",
  text="Decides every conjunct of the stated acceptance condition on decode's MIR, path-completely: input-size guard admitting exactly [0,300]; LIST header, BYTES signature, UINT64 seq in dominance order, each failure leaving with Err; the pair loop reaches Ok only through `payload is empty`; every iteration reads a BYTES key and continues only when cmp(previous key, key) is in exactly {Less}, the previous key being updated each iteration; the dispatch, folded for each of the 9 reserved keys and 11 non-reserved probes (empty key, proper prefixes/extensions of reserved names, client), consumes exactly one item of the class EIP-778 assigns - too lenient and too strict are both reported; `id` must equal v4 (in the arm or through the verify gate); K::enr_to_public(&content)? and the signature gate dominate Ok; the payload cursor is advanced only by alloy-rlp decoders or by a decoded header's payload_length. Not decided: the `if` direction as a whole (acceptance-set equality with a reference decoder needs concrete evaluation) and alloy-rlp's own canonicality checks.",
  note="Trusts: MIR fidelity; alloy-rlp 0.3.16 decoders accept only canonical items of their class and advance exactly (class table in analysis/rlpclass.py); T-KEYS oracle transcribed from EIP-778.",
  design="3/C02"),
 "C13": dict(
  technique="MIR non-interference (use census) of the input-buffer parameter",
  text="Decides the property for all suffixes as a non-interference rule: in decode the buffer parameter is modified only by exactly one Header::decode_bytes(buf, true) (prefix-local and exactly advancing by alloy-rlp's contract), every later read works on the payload it returned, and the only other accepted uses of *buf are the two len() reads whose difference around that call measures the consumed item; any other inspection of the buffer (whole-buffer or remaining-length tests, is_empty, first(), indexing, handing it on) is reported with its site as a dependence on bytes after the record.",
  note="Trusts: MIR fidelity; alloy-rlp Header::decode_bytes contract; Vec<Enr>::decode is alloy code calling this decode on the shrinking payload.",
  design="3/C13"),
 "C12": dict(
  technique="abstract-string analysis of format templates + MIR shape, engine-constant and post-decode emptiness rules",
  text="Decides the structural content of the property: to_base64() is the literal \"enr:\" followed by Display of URL_SAFE_NO_PAD.encode(a fresh buffer filled only by the record's own Encodable::encode), and that encode is list-header(len(stream))||[signature, seq, pairs]; Display writes exactly to_base64(); Serialize is serialize_str of it; from_str gives the base64 decoder either the parameter or the parameter minus a prefix equal to that same literal under a starts_with guard of the same length (no trim, case mapping, replacement or repeated stripping), with the same engine constant; it returns Ok only with decode's record and only when the slice handed to decode is proved empty afterwards; Deserialize hands the JSON string unchanged to from_str. Not decided: the base64 crate's engine strictness (padding, alphabet, trailing bits) - library behaviour, partly pinned by two tests.",
  note="Trusts: MIR fidelity; core::fmt template byte-code layout of this toolchain (documented in library/core/src/fmt/mod.rs); base64 0.22 URL_SAFE_NO_PAD semantics; decode's own advance contract is C13.",
  design="3/C12"),
 "C15": dict(
  technique="MIR conjunction/field-set analysis of eq and hash + shape rules",
  text="Decides: == returns true only on paths where self.f == other.f was established for every f in {seq, node_id, signature} (same field both sides, no inverted test); Hash feeds, unconditionally and into the caller's hasher, only fields that == compares (so equal records hash equally); Clone copies each field from the same field of self; compare_content is rlp_content(self) == rlp_content(other) where rlp_content is the framed [seq, every pair of the whole map] stream without the signature. `Equal implies identical pairs and encoding` is reduced to C05 (the signature binds the content); reflexivity/symmetry/transitivity follow from field-wise == on u64, [u8;32] and Vec<u8>.",
  note="Trusts: MIR fidelity; std PartialEq/Hash of u64, arrays, Vec; C05's invariant for the content clause.",
  design="3/C15"),
 "C16": dict(
  technique="MIR guard-set analysis (parse length), projection-shape rules, abstract-string analysis of the hex forms",
  text="Decides: the set of input lengths for which NodeId::parse reaches Ok is exactly {32} and the id is a copy of the whole input; new/raw/From<[u8;32]>/AsRef/PartialEq<[u8;32]>/From<Enr>/From<&Enr> are pure projections or copies of the raw field; the serde form is serialize_str of \"0x\" + hex::encode(raw) and deserialisation is <[u8;32] as FromHex>::from_hex of the string minus at most one \"0x\" prefix (no trimming or repeated stripping), both reached from the derived impls on the raw [u8;32]; Debug is \"0x\" + hex::encode(raw); the data-dependent parts of Display are exactly hex of bytes 0..2 and 30..32 (literal separators are unconstrained). Not decided: the hex crate (lower-case output, 2 digits per byte, 64-digit FromHex).",
  note="Trusts: MIR fidelity; hex 0.4 contracts; serde derive routes `with =` modules as generated.",
  design="3/C16"),
 "C17": dict(
  technique="MIR must-pass-through/order rule for zeroize + shape rules for parser, variant and delegation",
  text="Decides: secp256k1_from_bytes / ed25519_from_bytes take &mut [u8], apply exactly one library secret-key parser (k256 SigningKey::from_slice, ed25519 SigningKey::try_from) to the whole parameter, return exactly that key in the matching CombinedKey variant, and on every path to Ok call Zeroize::zeroize on the whole parameter after the parser call (dominance order); encode() returns to_bytes() of the variant's own key and public() the variant's own public key. Not decided: which 32-byte strings the libraries accept (group-order boundary) and the public-key derivation arithmetic.",
  note="Trusts: MIR fidelity; zeroize overwrites with zeros; k256 / ed25519-dalek parsers. Only configurations with both k256 and ed25519 compile CombinedKey (at least one must be analysed).",
  design="3/C17"),
 "C08": dict(
  technique="table-driven MIR rules against a T-API oracle + validator dispatch folding + return-value origin trees + error-cause control dependence",
  text="Decides the structural map-model obligations for every public mutator and builder method: each typed setter, builder method and socket setter writes exactly its wire key(s) with the canonical RLP encoding of its own argument and the caller's signer; each remover names exactly its keys and inserts nothing; set_socket's (address family, is_tcp) table is {ip,tcp}/{ip,udp}/{ip6,tcp6}/{ip6,udp6} and its two callers pass the right flag; insert_raw_rlp returns the value displaced by its own content.insert(key, value), remove_insert the vectors of displaced values in call order, the typed setters the decoded previous value; the reserved-key validator, folded per key, accepts exactly one complete item of the class the decoder reads (so set_public_key with the signer's own key succeeds) with no additional rejection; set_public_key stores encode() under enr_key(); build() hands out a clone of the builder's pairs plus id and the signer's key; every hand-written Error variant is constructed only under its cause. Not decided: equality of whole maps along concrete histories.",
  note="Trusts: MIR fidelity; std BTreeMap semantics; the T-API table (transcribed from the statement, EIP-778, EIP-7636).",
  design="3/C08"),
 "C14": dict(
  technique="table-driven MIR rules against T-API/T-KEYS: reader/writer class agreement, guard-set analysis of length tests, origin trees of socket getters",
  text="Decides: every typed reader reads exactly its wire key with exactly its class and answers None otherwise (ports: get_decodable::<u16>(key).and_then(Result::ok); ip4/ip6: byte string whose length guard admits exactly {4}/{16}, copied whole; id: byte string; client_info: list of 2 or 3 strings mapped in order); get_decodable/get_raw_rlp are T::decode of content.get(key); every typed writer stores its argument under the same key with the same class through the RLP encoder (reader class = writer class per key); Builder::client_info / set_client_info store [name, version] exactly when build is None and [name, version, build] for every Some; socket getters are Some(new(ipX()?, portX()?)) and None only when a part is None; reachability flags are the disjunction of the family's two socket getters; set_socket picks the family by the socket's own address. Not decided: per-value exhaustiveness over all ports/addresses (alloy-rlp's codec).",
  note="Trusts: MIR fidelity; alloy-rlp codecs (class table); INV-RLP from C05 for exact consumption.",
  design="3/C14"),
 "C03": dict(
  technique="MIR panic census with per-site re-proved discharges (guard/const auto-dischargers + frozen inv/lib table), unsafe/recursion/loop-progress checks",
  text="Decides, for all inputs and histories relative to a curated may-panic callee table: every potential panic source in every body of every analysed feature configuration (overflow/bounds Assert terminators, unwrap/expect incl. when passed as function values, Index/IndexMut, copy_from_slice, Buf::advance, split_at, core::panicking::*) is discharged on this run - automatically as `const` (array length vs constant range, constant arithmetic) or `guard` (a dominating edge predicate implies safety: is_none()==false, a length pinned to n, Header::decode(p)==Ok(h) with p untouched before p[..h.payload_length] / p.advance(h.payload_length), min(c,_) bounds) or by a frozen row of class `inv` (INV-RLP / INV-PK, re-checked here with the C05 rules: validator rows, every content.insert, keyed(k) at every commit, decode's enr_to_public) or `lib` (a named library invariant with its reason); a new site or a site whose guard no longer proves is reported with its location. Also: no hand-written unsafe, no call-graph cycle, every loop advances a std iterator / consumes input / iterates a caller-supplied iterator. Not decided: panics inside dependencies beyond the listed contracts; allocation failure; stack exhaustion.",
  note="Trusts: MIR fidelity; the may-panic callee table (analysis/rules/c03.py) is complete for the callees used; the 12 `lib`/`inv` rows with reasons.",
  design="3/C03"),
 "C04": dict(
  technique="MIR writer/reader skeleton agreement, per-leaf origin-tree rule for the stored value, class-table agreement of writers and validator with the decoder",
  text="Decides the structural content of losslessness: the writer emits list-header, signature BYTES, seq UINT64, then (key BYTES, raw value) for every pair of the whole map and the reader consumes LIST, BYTES, UINT64, (BYTES key, one item)* - the same skeleton with equal classes; in every dispatch leaf the decoder stores alloy_rlp::encode::<T>(v) of the very value it decoded with class(T) equal to the decode class, and for unknown keys exactly header||payload (lists) or encode(payload) (strings) of the header just decoded, the choice depending on the header's list flag only; every typed writer's class is the decoder's class for its key and every raw caller value passes a validator whose per-key rows equal the decoder's; the builder's and the record's signing payloads have the same layout; the decoded record carries exactly the seq, signature and pairs it read; text and JSON forms invert each other (rules shared with C12). Not decided: byte equality on concrete inputs; injectivity of alloy-rlp's canonical encoding (library).",
  note="Trusts: MIR fidelity; alloy-rlp 0.3.16 class table (encode after decode reproduces the canonical item).",
  design="3/C04"),
 "C05": dict(
  technique="MIR typestate dataflow (keyed/signed/idd/sized) as an inductive invariant + encapsulation census + build/validator obligations",
  text="Decides the always-valid invariant inductively for all call histories and key types: (base) decode returns Ok only behind the signature gate and build validates every caller pair with the reserved-key validator over the whole map, then adds id and public(key), signs the final payload with that same key with no later write, size-checks and assembles the record from exactly those parts; (step) at every commit of the 5 core mutators the typestate is keyed(k)=signed(k)=idd(k) for one key parameter k (signer's public key stored last in content, signed after the last seq/content write, node id from the same key) and sized, and each of the 18 wrappers only delegates to conforming mutators; (frame) all fields are private, no reachable function returns a mutable handle into a record, records are constructed only in decode/build/clone, in-place helpers (sign) are not reachable from outside; (values) every value stored in a content map is encoder output or passed the validator, whose rows equal the decoder's - hence re-acceptance by the decoder. One genuine defect is reported as a KNOWN-FINDING (D11: CombinedKey ed25519 signer shadowed by a valid secp256k1 entry).",
  note="Trusts: MIR fidelity; sign_v4/verify_v4 of one crypto library are inverse; foreign EnrKey impls satisfy only the trait signatures. known_findings.json lists D11.",
  design="3/C05"),
 "C11": dict(
  technique="role-agreement of sibling trait impls via per-library idiom tables + delegation exactness of the CombinedKey arms",
  text="Decides the structural interchangeability conditions: both secp256k1 back-ends use the content key \"secp256k1\", the same get -> Bytes::decode -> decode_public lookup chain, the library's strict key parser on the whole entry, keccak256 over the whole message for signing and verifying, the 64-byte compact signature, the compressed wire key and the 64-byte x||y identity form; ed25519 uses its own key, the raw message and 64/32-byte forms; every CombinedKey/CombinedPublicKey method delegates to the same method of the matching variant with unchanged arguments and its lookup order is secp256k1 then ed25519; single-scheme impls read only their own constant; record and builder code reach the key type only through the EnrKey/EnrPublicKey methods. Not decided: equality of what k256 and libsecp256k1 accept/produce (hybrid/uncompressed keys, error values) - runtime behaviour of two foreign libraries.",
  note="Trusts: MIR fidelity; k256 and libsecp256k1 implement the same SEC1/ECDSA for compressed keys.",
  design="3/C11"),
}

# additions made while hardening the packs (second session): rules re-used from neighbouring packs, new rules, thorough-tier witnesses
EXTRA = {
 "C01": " Also re-uses C02's KEYS rule (strictly increasing keys, so that no pair is collapsed before the signature is checked). Deserialize: every result that can be Ok is from_str's own result up to error conversion.",
 "C03": " The two `inv` rows are tied to the exact expression they were triaged for (Header::decode(..).expect in get(), K::enr_to_public(&self.content).expect in public_key()). INV-PK additionally rests on C01's rule that CombinedKey::enr_to_public falls back to the ed25519 entry. Slice -> GenericArray conversions are panic sources; slices of hex strings of statically known length are discharged by a sub-string algebra; split_at / p[n..] after Header::decode(p) == Ok(h) by the header guard.",
 "C04": " Re-uses C05 TS/WRAP/SIGN and C01 PUBKEY (every record an update returns verifies under the key-type's own reader, else its encoding cannot be decoded again), C02 KEYS, C09 BUILD/SIZED (whatever is returned fits the decoder's limit), C10 IDD/UNCOMP/FROM/DIGEST (the node id reported equals that of an independent parse) and the C13 cursor rules (through C12); the JSON string must be deserialised into an owned string.",
 "C05": " sign() (with compute_signature spliced in) stores exactly sign_v4(key, self.rlp_content()) into self.signature and only under id() == Some(\"v4\") - the fact every `signed(k)` typestate step takes for granted; re-uses C01 VERIFY/VERIFYV4/NOLAUNDER (the gate and the typestate rest on verify()/verify_v4 being real checks). build() is analysed with its helpers spliced in (primitive steps: validator loop, content inserts, rlp_content(), sign_v4), a single-pass Builder::rlp_content is accepted through a length-mirror rule (every emission matched with its length()/len() term); re-uses C09 BUILD (size slack) and C10 UNCOMP/FROM/DIGEST. Thorough tier adds compile-fail witnesses W1-W4 (private fields, no &mut to record state, no public constructor, private helpers).",
 "C07": " Every successful exit of a core mutator passes through exactly one commit of the re-signed copy (a success that committed nothing is reported); no wrapper can return success from the Err outcome of the update it delegates to (swallowed failures).",
 "C08": " Re-uses C05 TS/WRAP/BUILD/SIGN and C07's swallowed-failure rule; the id-and-key rule reads the primitive content inserts of build() with its helpers spliced in. Re-uses C05 TS/WRAP/BUILD (every commit and build stores the signer's public key last, validated first). Setters with an address-family parameter are partially evaluated per variant (kernel.assume), so a single store after the match is the same as one per arm.",
 "C11": " Re-uses C01 NOLAUNDER (no back-end normalises or re-parses signatures). decode_public must be the library parser's result up to error conversion (result_passthrough).",
 "C12": " Re-uses the C13 rules as CURSOR (decode leaves exactly the unread suffix, which from_str's trailing-data check relies on). The JSON string must be deserialised into an owned (or Cow) string. The base64 input may be alloy_rlp::encode(self) or a fresh buffer filled only by self.encode().",
 "C14": " Re-uses C05 VALID/INV-RLP (every stored value is exactly one complete item of the key's class) and C07 ONCE (a setter that reports success performed exactly one committed update). Reachability flags are decided by a truth table over the presence of the two socket getters (paths contradicting each combination are cut, every reachable return evaluated).",
 "C15": " Re-uses C12 FORM/encode and C01 PUBKEY (decode-after-encode image). Because == ignores the content, coherence with pairs and encoding rests on the always-signed invariant: re-uses C05 TS/WRAP/VALID/INV-RLP, C06 ATOMIC, C09 BUILD and C10 IDD.",
 "C09": " The builder's size check is decided on build() with its helpers spliced in: len(P) + len(S) + c with P the payload of the object that is signed, taken after its last content write, and S the signature just computed; size() may also be the length mirror of encode()'s emissions or the default Encodable::length. Re-uses C07's swallowed-failure rule (a refusal is reported, not turned into Ok).",
 "C10": " Re-uses C06 ATOMIC (the id also survives a failed update) and C05 BUILD (key stored last, on the object that is signed).",
 "C13": " Re-uses C09 DECODE (the size limit tests the consumed item, not a quantity that includes the suffix).",
 "C02": " Re-uses C01 PUBKEY (which entry each key type reads; CombinedKey: secp256k1, falling back to ed25519).",
 "C16": " Thorough tier adds compile-fail witness W5 (no public NodeId field).",
 "C17": " Re-uses C01 PUBKEY for CombinedKey::enr_to_public (a record signed with an imported key reads that key back). Every non-Ok result of an import is the library parser's own failure (derived from it or control-dependent on its Err; a length-only pre-check is subsumed), so no valid secret is refused. Thorough tier adds compile-fail witness W6 (CombinedKey has no Clone/Copy/serialisation).",
}

checks = []
for p in props:
    c = CLAIMS.get(p["id"])
    if not c: continue
    c = dict(c)
    c["text"] = c["text"] + EXTRA.get(p["id"], "")
    checks.append({
        "property_id": p["id"],
        "quick_cmd": "python3 analysis/check.py %s --tier quick" % p["id"],
        "thorough_cmd": "python3 analysis/check.py %s --tier thorough" % p["id"],
        "evidence_file": "/verif/evidence/%s.json" % p["id"],
        "replay_cmd_template": "python3 analysis/check.py --explain {path}",
        "engine": "enr-facts+rules",
        "level_claimed": {"category": "other", "text": c["text"], "design_ref": "DESIGN.md section " + c["design"]},
        "level_note": c["note"],
        "technique": c["technique"],
    })
na = [{"property_id": p["id"], "reason": "rule pack not built yet (work in progress; planned clauses in DESIGN.md section 3)"} for p in props if p["id"] not in CLAIMS]
m = {
 "version": 1,
 "setup_cmd": "./setup.sh",
 "hooks": {"guard": "enr_verif", "enable": "none needed: the analysis reads the unmodified crate's MIR; no hook commits exist",
           "baseline_off_cmd": "cd /repo && cargo test --workspace --no-fail-fast --offline", "source_commits": [], "add_only": True},
 "engines": [
  {"name": "enr-facts", "path": "driver/", "serves_properties": [c["property_id"] for c in checks], "kind_free_text": "rustc_private driver (nightly) run as RUSTC_WORKSPACE_WRAPPER under cargo check: dumps items, visibilities, evaluated constants and MIR with resolved callees as JSON; executes nothing"},
  {"name": "rules", "path": "analysis/", "serves_properties": [c["property_id"] for c in checks], "kind_free_text": "Python analysis kernel (CFG, dominators, reaching definitions/origin trees, alias resolution, edge predicates, effect and typestate dataflow) and one rule pack per property"},
  {"name": "selftest", "path": "selftest/", "serves_properties": [], "kind_free_text": "mutant / benign patch corpus that tests the checker both ways (not a property check)"},
 ],
 "checks": checks,
 "notes": "Static analysis only. Every check re-extracts MIR facts from /repo's working tree (4 feature configs quick, all 16 thorough; the thorough tier of C05/C16/C17 also compiles the compile_fail witness crate against /repo). Before any rule runs the facts are normalised (helper inlining, iterator-adaptor desugaring, jump threading: DESIGN.md 9.1) so that verdicts do not depend on how the code is cut into helpers. Genuine defects found and repaired are listed in known_findings.json (fix: commits in /repo).",
 "not_applicable": na,
}
json.dump(m, open(os.path.join(VERIF, "MANIFEST.json"), "w"), indent=1)
print("checks:", [c["property_id"] for c in checks], "pending:", len(na))
