//! Demonstrations of the genuine defects D1..D12 (DESIGN.md section 4).
//! Not part of the registered checks (they execute the library): they are the
//! triage evidence that each static report on the original tree was a real
//! defect, and that each `fix:` commit repairs it.  Run from a scratch
//! worktree: copy to tests/findings.rs and `cargo test --test findings`.
use alloy_rlp::{Decodable, Encodable};
use enr::{k256::ecdsa::SigningKey, Enr, NodeId};
use std::net::{IpAddr, Ipv4Addr};

type E = Enr<SigningKey>;

fn key(b: u8) -> SigningKey {
    SigningKey::from_slice(&[b; 32]).unwrap()
}

fn observable(e: &E) -> (u64, Vec<u8>, Vec<u8>, [u8; 32]) {
    (e.seq(), alloy_rlp::encode(e), e.signature().to_vec(), e.node_id().raw())
}

#[test]
fn d1_nodeid_parse_short_slice() {
    assert!(NodeId::parse(&[1, 2, 3, 4, 5]).is_err());
    assert!(NodeId::parse(&[7u8; 32]).is_ok());
    assert!(NodeId::parse(&[7u8; 33]).is_err());
}

#[test]
fn d2_decode_is_prefix_local() {
    let k = key(1);
    let e = E::builder().ip4(Ipv4Addr::new(10, 0, 0, 1)).udp4(9000).build(&k).unwrap();
    let mut bytes = alloy_rlp::encode(&e);
    let n = bytes.len();
    bytes.extend(std::iter::repeat(0xaa).take(300));
    let mut buf = bytes.as_slice();
    let d = E::decode(&mut buf).expect("a valid record followed by other data must decode");
    assert_eq!(d, e);
    assert_eq!(buf.len(), 300, "exactly the record is consumed");
    assert_eq!(n + 300, bytes.len());
    // list of three records
    let v = vec![e.clone(), e.clone(), e.clone()];
    let mut out = Vec::new();
    v.encode(&mut out);
    let back = Vec::<E>::decode(&mut out.as_slice()).expect("list of records decodes");
    assert_eq!(back.len(), 3);
}

#[test]
fn d3_text_form_rejects_trailing_bytes() {
    use base64::{engine::general_purpose::URL_SAFE_NO_PAD, Engine as _};
    let k = key(1);
    let e = E::builder().udp4(9000).build(&k).unwrap();
    let mut bytes = alloy_rlp::encode(&e);
    assert!(format!("enr:{}", URL_SAFE_NO_PAD.encode(&bytes)).parse::<E>().is_ok());
    bytes.push(0xfc);
    let text = format!("enr:{}", URL_SAFE_NO_PAD.encode(&bytes));
    assert!(text.parse::<E>().is_err(), "bytes after the record must be rejected");
}

#[test]
fn d4_failed_insert_leaves_record_untouched() {
    let k = key(1);
    let mut e = E::builder().udp4(9000).build(&k).unwrap();
    e.set_seq(u64::MAX, &k).unwrap();
    let before = observable(&e);
    let r = e.insert("foo", &7u8, &k);
    assert_eq!(r, Err(enr::Error::SequenceNumberTooHigh));
    assert_eq!(observable(&e), before, "record changed by a failed insert");
    assert!(e.verify());
}

#[test]
fn d5_raw_insert_of_truncated_item_is_rejected() {
    let k = key(1);
    let mut e = E::empty(&k).unwrap();
    let r = e.insert_raw_rlp("foo", vec![0xb8].into(), &k);
    assert!(r.is_err(), "0xb8 alone is not an RLP item");
    let enc = alloy_rlp::encode(&e);
    assert!(E::decode(&mut enc.as_slice()).is_ok());
}

#[test]
fn d6_raw_insert_with_trailing_bytes_is_rejected() {
    let k = key(1);
    let mut e = E::empty(&k).unwrap();
    let r = e.insert_raw_rlp("tcp", vec![0x01, 0x02].into(), &k);
    assert!(r.is_err(), "two items under one key");
    let r = e.insert_raw_rlp("foo", vec![0x01, 0x02].into(), &k);
    assert!(r.is_err(), "two items under one key (custom key)");
    let enc = alloy_rlp::encode(&e);
    assert!(E::decode(&mut enc.as_slice()).is_ok());
}

#[test]
fn d7_builder_validates_raw_values() {
    let k = key(1);
    let r = E::builder().add_value_rlp("tcp", vec![0x83, 1, 2, 3].into()).build(&k);
    match r {
        Err(_) => {}
        Ok(e) => {
            let enc = alloy_rlp::encode(&e);
            E::decode(&mut enc.as_slice()).expect("built record must be re-decodable");
        }
    }
    let r = E::builder().add_value_rlp("foo", vec![0x01, 0x02].into()).build(&k);
    match r {
        Err(_) => {}
        Ok(e) => {
            let enc = alloy_rlp::encode(&e);
            E::decode(&mut enc.as_slice()).expect("built record must be re-decodable");
        }
    }
}

#[test]
fn d8_remove_insert_cannot_break_the_key_entry() {
    let k = key(1);
    let mut e = E::empty(&k).unwrap();
    let r = e.remove_insert(
        std::iter::empty::<&[u8]>(),
        vec![("secp256k1", &[1u8, 2, 3][..])].into_iter(),
        &k,
    );
    if r.is_ok() {
        let _ = e.public_key(); // panicked before the fix
        assert!(e.verify());
    }
    let mut e = E::empty(&k).unwrap();
    let r = e.remove_insert(
        std::iter::empty::<&[u8]>(),
        vec![("ip", &[1u8, 2, 3, 4, 5][..])].into_iter(),
        &k,
    );
    match r {
        Err(_) => {}
        Ok(_) => {
            let enc = alloy_rlp::encode(&e);
            E::decode(&mut enc.as_slice()).expect("updated record must be re-decodable");
        }
    }
}

#[test]
fn d9_set_public_key_to_own_key_succeeds() {
    let k = key(1);
    let mut e = E::empty(&k).unwrap();
    use enr::EnrKey;
    let r = e.set_public_key(&k.public(), &k);
    assert_eq!(r, Ok(()));
    assert!(e.verify());
    assert_eq!(e.seq(), 2);
}

#[test]
fn d10_set_seq_with_another_key_rekeys() {
    use enr::{EnrKey, EnrPublicKey};
    let k = key(1);
    let k2 = key(2);
    let mut e = E::empty(&k).unwrap();
    e.set_seq(5, &k2).unwrap();
    assert!(e.verify(), "record must verify after a successful update");
    assert_eq!(e.public_key().encode(), k2.public().encode());
    assert_eq!(e.node_id(), NodeId::from(k2.public()));
}

#[test]
fn d12_set_ip_returns_previous_address() {
    let k = key(1);
    let mut e = E::builder().ip4(Ipv4Addr::new(10, 0, 0, 1)).build(&k).unwrap();
    let prev = e.set_ip(IpAddr::V4(Ipv4Addr::new(10, 0, 0, 2)), &k).unwrap();
    assert_eq!(prev, Some(IpAddr::V4(Ipv4Addr::new(10, 0, 0, 1))));
}
