//! Demonstration of the KNOWN finding D11 (C05): run with `--features ed25519`.
//! This test FAILS on the current tree (the defect is recorded, not repaired).
use enr::{CombinedKey, Enr, EnrKey, EnrPublicKey};

#[test]
fn d11_ed25519_combined_signer_shadowed_by_secp256k1_entry() {
    let signer = CombinedKey::generate_ed25519();
    let other = CombinedKey::generate_secp256k1();
    // a VALID secp256k1 public key stored as an ordinary pair
    let foreign = other.public().encode();
    let r = Enr::<CombinedKey>::builder()
        .add_value("secp256k1", &foreign.as_slice())
        .build(&signer);
    let e = r.expect("build returns Ok");
    assert!(e.verify(), "a record handed out with Ok must verify (D11)");
}
