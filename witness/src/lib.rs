//! E4 - compile-fail witnesses: what a *user crate* can and cannot do with the
//! public API of `enr`.  Each `compile_fail,E....` block has a compiling twin
//! that differs only in the offending line, so a witness cannot pass merely
//! because a path is wrong.  Run with `cargo +nightly test --doc` (the error
//! codes are only checked on nightly).

/// W1a twin: reading through the getters compiles.
/// ```no_run
/// use enr::{Enr, k256::ecdsa::SigningKey};
/// fn f(e: &Enr<SigningKey>) -> u64 { e.seq() }
/// ```
/// W1a: the sequence number cannot be assigned from outside.
/// ```compile_fail,E0616
/// use enr::{Enr, k256::ecdsa::SigningKey};
/// fn f(e: &mut Enr<SigningKey>) { e.seq = 9; }
/// ```
pub struct W1a;

/// W1b twin
/// ```no_run
/// use enr::{Enr, k256::ecdsa::SigningKey};
/// fn f(e: &Enr<SigningKey>) -> usize { e.signature().len() }
/// ```
/// W1b: the signature cannot be modified from outside.
/// ```compile_fail,E0616
/// use enr::{Enr, k256::ecdsa::SigningKey};
/// fn f(e: &mut Enr<SigningKey>) { e.signature.clear(); }
/// ```
pub struct W1b;

/// W1c twin
/// ```no_run
/// use enr::{Enr, k256::ecdsa::SigningKey};
/// fn f(e: &Enr<SigningKey>) -> usize { e.iter().count() }
/// ```
/// W1c: the pairs cannot be modified from outside.
/// ```compile_fail,E0616
/// use enr::{Enr, k256::ecdsa::SigningKey};
/// fn f(e: &mut Enr<SigningKey>) { e.content.clear(); }
/// ```
pub struct W1c;

/// W1d twin
/// ```no_run
/// use enr::{Enr, k256::ecdsa::SigningKey};
/// fn f(k: &SigningKey) -> Enr<SigningKey> { Enr::empty(k).unwrap() }
/// ```
/// W1d: a record cannot be assembled from parts by a user crate.
/// ```compile_fail,E0451
/// use enr::{Enr, NodeId, k256::ecdsa::SigningKey};
/// fn f() -> Enr<SigningKey> {
///     Enr { seq: 1, node_id: NodeId::new(&[0; 32]), content: Default::default(), signature: vec![], phantom: Default::default() }
/// }
/// ```
pub struct W1d;

/// W2a twin
/// ```no_run
/// use enr::{Enr, k256::ecdsa::SigningKey};
/// fn f(e: &mut Enr<SigningKey>, k: &SigningKey) { let _ = e.set_seq(3, k); }
/// ```
/// W2a: `sign` (re-sign without re-keying) is not callable from outside.
/// ```compile_fail,E0624
/// use enr::{Enr, k256::ecdsa::SigningKey};
/// fn f(e: &mut Enr<SigningKey>, k: &SigningKey) { let _ = e.sign(k); }
/// ```
pub struct W2a;

/// W2b twin
/// ```no_run
/// use enr::{Enr, k256::ecdsa::SigningKey};
/// fn f(e: &mut Enr<SigningKey>, k: &SigningKey, s: std::net::SocketAddr) { let _ = e.set_udp_socket(s, k); }
/// ```
/// W2b: the private socket helper is not callable from outside.
/// ```compile_fail,E0624
/// use enr::{Enr, k256::ecdsa::SigningKey};
/// fn f(e: &mut Enr<SigningKey>, k: &SigningKey, s: std::net::SocketAddr) { let _ = e.set_socket(s, k, true); }
/// ```
pub struct W2b;

/// W2c twin
/// ```no_run
/// use enr::{Enr, k256::ecdsa::SigningKey};
/// fn f(e: &Enr<SigningKey>) -> usize { e.size() }
/// ```
/// W2c: the signing payload builder is private.
/// ```compile_fail,E0624
/// use enr::{Enr, k256::ecdsa::SigningKey};
/// fn f(e: &Enr<SigningKey>) -> usize { e.rlp_content().len() }
/// ```
pub struct W2c;

/// W3 twin
/// ```no_run
/// use enr::{Enr, k256::ecdsa::SigningKey};
/// fn f(e: &mut Enr<SigningKey>, k: &SigningKey) { let _ = e.insert("x", &1u8, k); }
/// ```
/// W3: the reserved-key validator is not part of the API.
/// ```compile_fail,E0603
/// fn f() { let _ = enr::check_spec_reserved_keys(b"tcp", &[1u8][..]); }
/// ```
pub struct W3;

/// W4 twin
/// ```no_run
/// let _ = enr::NodeId::new(&[0u8; 32]);
/// ```
/// W4: a node id cannot be made from an array of another length.
/// ```compile_fail,E0308
/// let _ = enr::NodeId::new(&[0u8; 31]);
/// ```
pub struct W4;

/// W5 twin
/// ```no_run
/// fn f(b: &mut [u8]) { let _ = enr::CombinedKey::secp256k1_from_bytes(b); }
/// ```
/// W5: secret import needs a mutable buffer (so that it can be wiped).
/// ```compile_fail,E0308
/// fn f(b: &[u8]) { let _ = enr::CombinedKey::secp256k1_from_bytes(b); }
/// ```
pub struct W5;

/// W6 twin
/// ```no_run
/// use enr::{Enr, k256::ecdsa::SigningKey};
/// fn f(e: Enr<SigningKey>) -> usize { e.into_iter().count() }
/// ```
/// W6: no mutable iteration over the pairs exists.
/// ```compile_fail,E0599
/// use enr::{Enr, k256::ecdsa::SigningKey};
/// fn f(e: &mut Enr<SigningKey>) { for (_k, v) in e.iter_mut() { let _ = v; } }
/// ```
pub struct W6;
