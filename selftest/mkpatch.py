#!/usr/bin/env python3
"""mkpatch.py <kind> <name> <file> : reads a JSON list of [old, new] replacement
pairs from stdin, applies them to a scratch copy of /repo/<file> and writes the
unified diff to selftest/<kind>/<name>.patch (paths relative to the repo root)."""
import difflib, json, os, sys
kind, name, rel = sys.argv[1:4]
pairs = json.load(sys.stdin)
src = open(os.path.join("/repo", rel)).read()
new = src
for old, rep in pairs:
    if new.count(old) != 1:
        sys.exit("pattern must occur exactly once (%d): %r" % (new.count(old), old[:60]))
    new = new.replace(old, rep)
diff = difflib.unified_diff(src.splitlines(True), new.splitlines(True), "a/" + rel, "b/" + rel)
out = os.path.join(os.path.dirname(os.path.abspath(__file__)), kind, name + ".patch")
mode = "a" if (len(sys.argv) > 4 and sys.argv[4] == "--append") else "w"
open(out, mode).write("".join(diff))
print("wrote", out)
