#!/usr/bin/env python3
"""benign_admit.py <outdir> <prefix>: run every rule pack on each refactorN.diff of an
independently produced behaviour-preserving refactoring; file it under selftest/benign_ext/<prefix>-N.patch
and report alarms."""
import json, os, shutil, sys
HERE = os.path.dirname(os.path.abspath(__file__))
sys.path.insert(0, HERE)
import run as R
outdir, prefix = sys.argv[1], sys.argv[2]
dst = os.path.join(HERE, "benign_ext")
os.makedirs(dst, exist_ok=True)
mp = os.path.join(dst, "meta.json")
meta = json.load(open(mp)) if os.path.exists(mp) else {}
for n in range(1, 9):
    d = os.path.join(outdir, "refactor%d.diff" % n)
    if not os.path.exists(d):
        continue
    name = "%s-%d" % (prefix, n)
    shutil.copy(d, os.path.join(dst, name + ".patch"))
    res, err = R.run_on_patch(d, R.built_props())
    if err:
        print("ERROR ", name, err[:300]); meta[name] = {"alarms": "ERROR"}; continue
    alarms = {p: [v.key for v in viols] for p, viols in res.items() if viols}
    meta[name] = {"alarms": alarms, "origin": "independent sub-agent asked for behaviour-preserving refactorings"}
    print(("ALARM  " if alarms else "SILENT ") + name, json.dumps(alarms) if alarms else "")
json.dump(meta, open(mp, "w"), indent=1)
