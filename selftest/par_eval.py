#!/usr/bin/env python3
"""par_eval.py [-j N] [mutants] [benign] [seeds] [ext]: the whole checker
self-test corpus in parallel (fact extraction is serialised by the lock in
extract.py, the rule packs run concurrently).  Refreshes `caught_by` of every
seeded change and `alarms` of every independent refactoring; prints only what
needs attention plus a summary.  Exit 0 iff every mutant and seeded change is
reported by the pack of the property it breaks and every hand-written benign
variant is silent (alarms on independent refactorings are listed, they are the
known limits of DESIGN.md 9.6)."""
import json, os, sys
from concurrent.futures import ProcessPoolExecutor
HERE = os.path.dirname(os.path.abspath(__file__))
VERIF = os.path.dirname(HERE)
sys.path.insert(0, HERE)
import run as R  # noqa


def work(task):
    kind, name, patch = task
    try:
        res, err = R.run_on_patch(patch, R.built_props())
    except Exception as e:  # noqa
        return kind, name, None, "exception: %r" % (e,)
    if err:
        return kind, name, None, err[:300]
    return kind, name, {p: [v.key for v in vs] for p, vs in res.items() if vs}, None


def main(argv):
    j = 6
    if "-j" in argv:
        i = argv.index("-j")
        j = int(argv[i + 1])
        argv = argv[:i] + argv[i + 2:]
    kinds = argv or ["mutants", "benign", "seeds", "ext"]
    tasks = []
    mm = R.load_meta("mutants")
    bm = R.load_meta("benign")
    if "mutants" in kinds:
        tasks += [("mutants", n, os.path.join(HERE, "mutants", n + ".patch")) for n in sorted(mm)]
    if "benign" in kinds:
        tasks += [("benign", n, os.path.join(HERE, "benign", n + ".patch")) for n in sorted(bm)]
    sd = os.path.join(VERIF, "seeded")
    if "seeds" in kinds:
        tasks += [("seeds", n, os.path.join(sd, n, "patch.diff")) for n in sorted(os.listdir(sd)) if os.path.exists(os.path.join(sd, n, "meta.json"))]
    ext_meta_p = os.path.join(HERE, "benign_ext", "meta.json")
    ext_meta = json.load(open(ext_meta_p)) if os.path.exists(ext_meta_p) else {}
    if "ext" in kinds:
        tasks += [("ext", f[:-6], os.path.join(HERE, "benign_ext", f)) for f in sorted(os.listdir(os.path.join(HERE, "benign_ext"))) if f.endswith(".patch")]
    ok = True
    summary = {k: [0, 0] for k in ("mutants", "benign", "seeds", "ext")}
    with ProcessPoolExecutor(max_workers=j) as ex:
        for kind, name, caught, err in ex.map(work, tasks):
            summary[kind][1] += 1
            if err:
                print("ERROR  %s %s: %s" % (kind, name, err))
                ok = False
                continue
            if kind == "mutants":
                todo = mm[name]["expect"]
                miss = [(p, frag) for p, frag in todo if not any(frag in k for k in caught.get(p, []))]
                if miss:
                    ok = False
                    print("MISSED mutant %s: expected %s, got %s" % (name, miss, {p: v[:3] for p, v in caught.items()}))
                else:
                    summary[kind][0] += 1
            elif kind == "benign":
                if caught:
                    ok = False
                    print("ALARM  benign %s: %s" % (name, {p: v[:3] for p, v in caught.items()}))
                else:
                    summary[kind][0] += 1
            elif kind == "seeds":
                mp = os.path.join(sd, name, "meta.json")
                meta = json.load(open(mp))
                meta["caught_by"] = caught
                json.dump(meta, open(mp, "w"), indent=1)
                if meta["breaks"] in caught:
                    summary[kind][0] += 1
                else:
                    ok = False
                    print("%s seed %s breaks=%s reported=%s" % ("OTHER " if caught else "MISSED", name, meta["breaks"], {p: v[:2] for p, v in caught.items()}))
            else:
                ext_meta.setdefault(name, {"origin": "independent sub-agent asked for behaviour-preserving refactorings"})["alarms"] = caught
                if caught:
                    print("ALARM  ext %s: %s" % (name, {p: v[:2] for p, v in caught.items()}))
                else:
                    summary[kind][0] += 1
            sys.stdout.flush()
    if "ext" in kinds:
        json.dump(ext_meta, open(ext_meta_p, "w"), indent=1)
    print("SUMMARY mutants reported %d/%d, hand benign silent %d/%d, seeds reported by own pack %d/%d, independent refactorings silent %d/%d" % (
        summary["mutants"][0], summary["mutants"][1], summary["benign"][0], summary["benign"][1], summary["seeds"][0], summary["seeds"][1], summary["ext"][0], summary["ext"][1]))
    return ok


if __name__ == "__main__":
    sys.exit(0 if main(sys.argv[1:]) else 1)
