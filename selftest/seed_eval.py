#!/usr/bin/env python3
"""Re-run every built rule pack on every seeded change under /verif/seeded and
refresh `caught_by` in its meta.json.  Prints one line per change."""
import json, os, sys
HERE = os.path.dirname(os.path.abspath(__file__))
VERIF = os.path.dirname(HERE)
sys.path.insert(0, HERE)
import run as R  # noqa

def main(names):
    root = os.path.join(VERIF, "seeded")
    ok = True
    for name in sorted(os.listdir(root)):
        if names and name not in names:
            continue
        d = os.path.join(root, name)
        mp = os.path.join(d, "meta.json")
        if not os.path.exists(mp):
            continue
        meta = json.load(open(mp))
        res, err = R.run_on_patch(os.path.join(d, "patch.diff"), R.built_props())
        caught = {}
        if err:
            print("ERROR ", name, err[:200]); ok = False; continue
        for p, viols in res.items():
            if viols:
                caught[p] = [v.key for v in viols]
        meta["caught_by"] = caught
        json.dump(meta, open(mp, "w"), indent=1)
        own = meta["breaks"] in caught
        status = "CAUGHT" if own else ("OTHER " if caught else "MISSED")
        if not caught: ok = False
        print("%s %-44s breaks=%s reported=%s" % (status, name, meta["breaks"], {k: len(v) for k, v in caught.items()}))
    return ok

if __name__ == "__main__":
    sys.exit(0 if main(sys.argv[1:]) else 1)
