#!/usr/bin/env python3
"""systematic one-token mutations of /repo/src (non-test code) -> /tmp/mutsweep/NNNN.patch"""
import os, re, subprocess, shutil, json
REPO = "/repo"
OUT = "/tmp/mutsweep5"
shutil.rmtree(OUT, ignore_errors=True)
os.makedirs(OUT)
files = ["src/lib.rs", "src/builder.rs", "src/node_id.rs", "src/keys/combined.rs", "src/keys/ed25519.rs", "src/keys/k256_key.rs", "src/keys/rust_secp256k1.rs", "src/keys/mod.rs"]
LIMIT = {"src/lib.rs": 1284, "src/node_id.rs": 142, "src/keys/rust_secp256k1.rs": 83}
OPS = [
    (r"\?;\s*$", ".unwrap_or_default();"),
    (r"\.ok_or\([^()]*(\([^()]*\))?[^()]*\)\?", ".unwrap_or_default()"),
    (r"\.map_err\([^;]*\)\?;\s*$", ".unwrap_or_default();"),
    (r"return Err\(.*\);\s*$", "return Ok(Default::default());"),
    (r"^(\s*)Err\((.*)\)$", r"\1Ok(Default::default())"),
    (r"=> Err\(.*\),\s*$", "=> Ok(Default::default()),"),
    (r"=> return Err\(.*\),\s*$", "=> return Ok(Default::default()),"),
    (r"\breturn false;", "return true;"),
    (r"^(\s*)false$", r"\1true"),
    (r"_ => false,", "_ => true,"),
]
n = 0
meta = {}
for f in files:
    src = open(os.path.join(REPO, f)).read().split("\n")
    lim = LIMIT.get(f, len(src))
    for ln in range(lim):
        line = src[ln]
        s = line.strip()
        if not s or s.startswith("//") or s.startswith("#[") or s.startswith("use ") or "assert" in s:
            continue
        code = line.split("//")[0]
        seen = set()
        for pat, rep in OPS:
            for m in re.finditer(pat, code):
                new = code[:m.start()] + m.expand(rep) + code[m.end():] + line[len(code):]
                if new == line or new in seen:
                    continue
                # skip generics / arrows
                ctx = code[max(0, m.start() - 2):m.end() + 2]
                if "->" in ctx or "=>" in ctx:
                    continue
                seen.add(new)
                # statement removal handled separately
                n += 1
                name = "%04d" % n
                a = "\n".join(src) + ""
                b = "\n".join(src[:ln] + [new] + src[ln + 1:])
                os.makedirs("/tmp/mutsweep5_w/a/" + os.path.dirname(f), exist_ok=True)
                os.makedirs("/tmp/mutsweep5_w/b/" + os.path.dirname(f), exist_ok=True)
                open("/tmp/mutsweep5_w/a/" + f, "w").write(a)
                open("/tmp/mutsweep5_w/b/" + f, "w").write(b)
                d = subprocess.run(["diff", "-u", "a/" + f, "b/" + f], cwd="/tmp/mutsweep5_w", stdout=subprocess.PIPE, text=True).stdout
                open(os.path.join(OUT, name + ".patch"), "w").write(d)
                meta[name] = {"file": f, "line": ln + 1, "old": line.strip(), "new": new.strip()}
    # statement removals: lines that are a single `...?;` statement or a call statement ending with `);`
    for ln in range(lim):
        line = src[ln]
        s = line.strip()
        if re.match(r"^return Err\(.*\);$", s) or re.match(r"^(new_enr|self)\.[a-z_]+ = .*;$", s) or re.match(r"^\*self = .*;$", s):
            n += 1
            name = "%04d" % n
            a = "\n".join(src)
            b = "\n".join(src[:ln] + src[ln + 1:])
            open("/tmp/mutsweep5_w/a/" + f, "w").write(a)
            open("/tmp/mutsweep5_w/b/" + f, "w").write(b)
            d = subprocess.run(["diff", "-u", "a/" + f, "b/" + f], cwd="/tmp/mutsweep5_w", stdout=subprocess.PIPE, text=True).stdout
            open(os.path.join(OUT, name + ".patch"), "w").write(d)
            meta[name] = {"file": f, "line": ln + 1, "old": s, "new": "<removed>"}
json.dump(meta, open(os.path.join(OUT, "meta.json"), "w"), indent=1)
print(n, "mutants")
