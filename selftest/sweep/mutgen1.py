#!/usr/bin/env python3
"""systematic one-token mutations of /repo/src (non-test code) -> /tmp/mutsweep/NNNN.patch"""
import os, re, subprocess, shutil, json
REPO = "/repo"
OUT = "/tmp/mutsweep"
shutil.rmtree(OUT, ignore_errors=True)
os.makedirs(OUT)
files = ["src/lib.rs", "src/builder.rs", "src/node_id.rs", "src/keys/combined.rs", "src/keys/ed25519.rs", "src/keys/k256_key.rs", "src/keys/rust_secp256k1.rs", "src/keys/mod.rs"]
LIMIT = {"src/lib.rs": 1284, "src/node_id.rs": 142, "src/keys/rust_secp256k1.rs": 83}
OPS = [
    (r" > ", " >= "), (r" >= ", " > "), (r" < ", " <= "), (r" <= ", " < "), (r" == ", " != "), (r" != ", " == "),
    (r" && ", " || "), (r" \|\| ", " && "),
    (r"\btrue\b", "false"), (r"\bfalse\b", "true"),
    (r"checked_add\(1\)", "checked_add(2)"), (r"checked_add\(1\)", "checked_add(0)"),
    (r"\b32\b", "31"), (r"\b32\b", "33"), (r"\b64\b", "63"), (r"\b64\b", "65"), (r"\b4\b", "3"), (r"\b4\b", "5"), (r"\b16\b", "15"), (r"\b8\b", "7"), (r"\b8\b", "9"), (r"\b0\b", "1"), (r"\b1\b", "0"), (r"\b2\b", "3"), (r"\b300\b", "301"), (r"\b300\b", "299"),
    (r"\bTCP_ENR_KEY\b", "UDP_ENR_KEY"), (r"\bUDP_ENR_KEY\b", "TCP_ENR_KEY"), (r"\bTCP6_ENR_KEY\b", "UDP6_ENR_KEY"), (r"\bUDP6_ENR_KEY\b", "TCP6_ENR_KEY"),
    (r"\bTCP_ENR_KEY\b", "TCP6_ENR_KEY"), (r"\bUDP_ENR_KEY\b", "UDP6_ENR_KEY"), (r"\bTCP6_ENR_KEY\b", "TCP_ENR_KEY"), (r"\bUDP6_ENR_KEY\b", "UDP_ENR_KEY"),
    (r"\bIP_ENR_KEY\b", "IP6_ENR_KEY"), (r"\bIP6_ENR_KEY\b", "IP_ENR_KEY"),
    (r"\bip4\(\)", "ip6()"), (r"\budp4\(\)", "tcp4()"), (r"\btcp4\(\)", "udp4()"), (r"\budp6\(\)", "tcp6()"), (r"\btcp6\(\)", "udp6()"), (r"\budp6\(\)", "udp4()"), (r"\btcp6\(\)", "tcp4()"),
    (r"\bis_none\(\)", "is_some()"), (r"\bis_some\(\)", "is_none()"), (r"\bis_empty\(\)", "is_empty() == false"), (r"if !", "if "),
    (r"\bURL_SAFE_NO_PAD\b", "URL_SAFE"), (r'"enr:"', '"enr"'), (r'b"v4"', 'b"v5"'), (r'"v4"', '"v5"'),
    (r"\[\.\.32\]", "[..31]"), (r"\[32\.\.\]", "[31..]"), (r"\[1\.\.\]", "[..64]"), (r"\[1\.\.\]", "[2..]"),
    (r"\.min\(", ".max("), (r" \+ ", " - "), (r" - ", " + "),
]
n = 0
meta = {}
for f in files:
    src = open(os.path.join(REPO, f)).read().split("\n")
    lim = LIMIT.get(f, len(src))
    for ln in range(lim):
        line = src[ln]
        s = line.strip()
        if not s or s.startswith("//") or s.startswith("#[") or s.startswith("use ") or "assert" in s:
            continue
        code = line.split("//")[0]
        seen = set()
        for pat, rep in OPS:
            for m in re.finditer(pat, code):
                new = code[:m.start()] + rep + code[m.end():] + line[len(code):]
                if new == line or new in seen:
                    continue
                # skip generics / arrows
                ctx = code[max(0, m.start() - 2):m.end() + 2]
                if "->" in ctx or "=>" in ctx:
                    continue
                seen.add(new)
                # statement removal handled separately
                n += 1
                name = "%04d" % n
                a = "\n".join(src) + ""
                b = "\n".join(src[:ln] + [new] + src[ln + 1:])
                os.makedirs("/tmp/mutsweep_w/a/" + os.path.dirname(f), exist_ok=True)
                os.makedirs("/tmp/mutsweep_w/b/" + os.path.dirname(f), exist_ok=True)
                open("/tmp/mutsweep_w/a/" + f, "w").write(a)
                open("/tmp/mutsweep_w/b/" + f, "w").write(b)
                d = subprocess.run(["diff", "-u", "a/" + f, "b/" + f], cwd="/tmp/mutsweep_w", stdout=subprocess.PIPE, text=True).stdout
                open(os.path.join(OUT, name + ".patch"), "w").write(d)
                meta[name] = {"file": f, "line": ln + 1, "old": line.strip(), "new": new.strip()}
    # statement removals: lines that are a single `...?;` statement or a call statement ending with `);`
    for ln in range(lim):
        line = src[ln]
        s = line.strip()
        if re.match(r"^[a-z_\.]+[a-zA-Z_\.:<>]*\(.*\)\?;$", s) or re.match(r"^(new_enr|self|out|list|stream)\.[a-z_\.]+\(.*\);$", s):
            n += 1
            name = "%04d" % n
            a = "\n".join(src)
            b = "\n".join(src[:ln] + src[ln + 1:])
            open("/tmp/mutsweep_w/a/" + f, "w").write(a)
            open("/tmp/mutsweep_w/b/" + f, "w").write(b)
            d = subprocess.run(["diff", "-u", "a/" + f, "b/" + f], cwd="/tmp/mutsweep_w", stdout=subprocess.PIPE, text=True).stdout
            open(os.path.join(OUT, name + ".patch"), "w").write(d)
            meta[name] = {"file": f, "line": ln + 1, "old": s, "new": "<removed>"}
json.dump(meta, open(os.path.join(OUT, "meta.json"), "w"), indent=1)
print(n, "mutants")
