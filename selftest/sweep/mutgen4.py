#!/usr/bin/env python3
"""systematic one-token mutations of /repo/src (non-test code) -> /tmp/mutsweep/NNNN.patch"""
import os, re, subprocess, shutil, json
REPO = "/repo"
OUT = "/tmp/mutsweep4"
shutil.rmtree(OUT, ignore_errors=True)
os.makedirs(OUT)
files = ["src/lib.rs", "src/builder.rs", "src/node_id.rs", "src/keys/combined.rs", "src/keys/ed25519.rs", "src/keys/k256_key.rs", "src/keys/rust_secp256k1.rs", "src/keys/mod.rs"]
LIMIT = {"src/lib.rs": 1284, "src/node_id.rs": 142, "src/keys/rust_secp256k1.rs": 83}
OPS = [
    (r"\.is_ok\(\)", ".is_err()"), (r"\.is_err\(\)", ".is_ok()"),
    (r'"0x', '"'), (r"hex::encode\(", "hex::encode_upper("),
    (r"strip_prefix\(", "strip_suffix("), (r"starts_with\(", "ends_with("),
    (r"\.get\(4\.\.\)", ".get(3..)"), (r"\.get\(4\.\.\)", ".get(5..)"),
    (r"\blist: true\b", "list: false"),
    (r"\bverify\(", "verify_strict("),
    (r"Keccak256", "sha3::Sha3_256"),
    (r"\.chain_update\(msg\)", ".chain_update(&msg[1..])"), (r"digest\(msg\)", "digest(&msg[..msg.len() / 2])"),
    (r"\bmsg\b(?=[,)])", "&msg[..0]"),
    (r"\bsig\b(?=\))", "&sig[..0]"),
    (r"from_compact\(", "from_der("),
    (r"serialize_compact\(\)", "serialize_der()"),
    (r"encode_uncompressed\(\)", "encode()"),
    (r"\.public\(\)", ".public().clone()"),
    (r"zeroize\(\)", "len()"),
    (r"bytes\.zeroize\(\);", ""),
    (r"\.or_else\(", ".and_then("),
    (r"ENR_KEY", "super::ed25519::ENR_KEY"),
    (r"\.as_bytes\(\)", ".as_bytes()[..1]"),
    (r"content\.get\(([A-Za-z_:]+)", r"content.get(b\"id\".as_slice()"),
]
n = 0
meta = {}
for f in files:
    src = open(os.path.join(REPO, f)).read().split("\n")
    lim = LIMIT.get(f, len(src))
    for ln in range(lim):
        line = src[ln]
        s = line.strip()
        if not s or s.startswith("//") or s.startswith("#[") or s.startswith("use ") or "assert" in s:
            continue
        code = line.split("//")[0]
        seen = set()
        for pat, rep in OPS:
            for m in re.finditer(pat, code):
                new = code[:m.start()] + m.expand(rep) + code[m.end():] + line[len(code):]
                if new == line or new in seen:
                    continue
                # skip generics / arrows
                ctx = code[max(0, m.start() - 2):m.end() + 2]
                if "->" in ctx or "=>" in ctx:
                    continue
                seen.add(new)
                # statement removal handled separately
                n += 1
                name = "%04d" % n
                a = "\n".join(src) + ""
                b = "\n".join(src[:ln] + [new] + src[ln + 1:])
                os.makedirs("/tmp/mutsweep4_w/a/" + os.path.dirname(f), exist_ok=True)
                os.makedirs("/tmp/mutsweep4_w/b/" + os.path.dirname(f), exist_ok=True)
                open("/tmp/mutsweep4_w/a/" + f, "w").write(a)
                open("/tmp/mutsweep4_w/b/" + f, "w").write(b)
                d = subprocess.run(["diff", "-u", "a/" + f, "b/" + f], cwd="/tmp/mutsweep4_w", stdout=subprocess.PIPE, text=True).stdout
                open(os.path.join(OUT, name + ".patch"), "w").write(d)
                meta[name] = {"file": f, "line": ln + 1, "old": line.strip(), "new": new.strip()}
    # statement removals: lines that are a single `...?;` statement or a call statement ending with `);`
    for ln in range(lim):
        line = src[ln]
        s = line.strip()
        if re.match(r"^return Err\(.*\);$", s) or re.match(r"^(new_enr|self)\.[a-z_]+ = .*;$", s) or re.match(r"^\*self = .*;$", s):
            n += 1
            name = "%04d" % n
            a = "\n".join(src)
            b = "\n".join(src[:ln] + src[ln + 1:])
            open("/tmp/mutsweep4_w/a/" + f, "w").write(a)
            open("/tmp/mutsweep4_w/b/" + f, "w").write(b)
            d = subprocess.run(["diff", "-u", "a/" + f, "b/" + f], cwd="/tmp/mutsweep4_w", stdout=subprocess.PIPE, text=True).stdout
            open(os.path.join(OUT, name + ".patch"), "w").write(d)
            meta[name] = {"file": f, "line": ln + 1, "old": s, "new": "<removed>"}
json.dump(meta, open(os.path.join(OUT, "meta.json"), "w"), indent=1)
print(n, "mutants")
