#!/usr/bin/env python3
"""systematic one-token mutations of /repo/src (non-test code) -> /tmp/mutsweep/NNNN.patch"""
import os, re, subprocess, shutil, json
REPO = "/repo"
OUT = "/tmp/mutsweep3"
shutil.rmtree(OUT, ignore_errors=True)
os.makedirs(OUT)
files = ["src/lib.rs", "src/builder.rs", "src/node_id.rs", "src/keys/combined.rs", "src/keys/ed25519.rs", "src/keys/k256_key.rs", "src/keys/rust_secp256k1.rs", "src/keys/mod.rs"]
LIMIT = {"src/lib.rs": 1284, "src/node_id.rs": 142, "src/keys/rust_secp256k1.rs": 83}
OPS = [
    (r"\bOk\(([a-z_][a-z_0-9]*)\)", "Ok(Default::default())"),
    (r"^(\s*)Some\((.*)\)$", r"\1None"),
    (r"return Some\((.*)\);", "return None;"),
    (r"\bself\b(.*)\bother\b", r"other\1self"),
    (r"\.encode\(\)\.as_ref\(\)", ".encode_uncompressed().as_ref()"),
    (r"verify_v4\(&self\.rlp_content\(\), &self\.signature\)", "verify_v4(&self.signature, &self.rlp_content())"),
    (r"\.0\b(?!\.)", ".1"), (r"\.1\b(?!\.)", ".0"),
    (r"\.iter\(\)", ".iter().rev()"), (r"\.iter\(\)", ".iter().skip(1)"),
    (r"\.into_iter\(\)", ".into_iter().skip(1)"),
    (r"&self\.content", "&BTreeMap::new()"),
    (r"\bnew_enr\.size\(\)", "self.size()"),
    (r"\bnew_enr\.seq\b", "self.seq"),
    (r"\benr_key\.public\(\)", "self.public_key()"), (r"\bkey\.public\(\)", "self.public_key()"),
    (r"NodeId::from\(([a-z_]+)\.public\(\)\)", "self.node_id"),
    (r"\.to_vec\(\)", "[1..].to_vec()"),
    (r"\.as_ref\(\)", ".as_ref()[..1]"),
    (r"\.and_then\(", ".or_else(|| None).and_then("),
    (r"\.ok_or\(", ".or(Some(Default::default())).ok_or("),
    (r"\.unwrap_or\(([^)]*)\)", r".map(|_| \1).unwrap_or(\1)"),
    (r"\bseq\b(?=[,)])", "seq + 1"),
    (r"\.port\(\)", ".port().swap_bytes()"),
    (r"\boctets\(\)", "octets().map(|b| b ^ 0)"),
]
n = 0
meta = {}
for f in files:
    src = open(os.path.join(REPO, f)).read().split("\n")
    lim = LIMIT.get(f, len(src))
    for ln in range(lim):
        line = src[ln]
        s = line.strip()
        if not s or s.startswith("//") or s.startswith("#[") or s.startswith("use ") or "assert" in s:
            continue
        code = line.split("//")[0]
        seen = set()
        for pat, rep in OPS:
            for m in re.finditer(pat, code):
                new = code[:m.start()] + m.expand(rep) + code[m.end():] + line[len(code):]
                if new == line or new in seen:
                    continue
                # skip generics / arrows
                ctx = code[max(0, m.start() - 2):m.end() + 2]
                if "->" in ctx or "=>" in ctx:
                    continue
                seen.add(new)
                # statement removal handled separately
                n += 1
                name = "%04d" % n
                a = "\n".join(src) + ""
                b = "\n".join(src[:ln] + [new] + src[ln + 1:])
                os.makedirs("/tmp/mutsweep3_w/a/" + os.path.dirname(f), exist_ok=True)
                os.makedirs("/tmp/mutsweep3_w/b/" + os.path.dirname(f), exist_ok=True)
                open("/tmp/mutsweep3_w/a/" + f, "w").write(a)
                open("/tmp/mutsweep3_w/b/" + f, "w").write(b)
                d = subprocess.run(["diff", "-u", "a/" + f, "b/" + f], cwd="/tmp/mutsweep3_w", stdout=subprocess.PIPE, text=True).stdout
                open(os.path.join(OUT, name + ".patch"), "w").write(d)
                meta[name] = {"file": f, "line": ln + 1, "old": line.strip(), "new": new.strip()}
    # statement removals: lines that are a single `...?;` statement or a call statement ending with `);`
    for ln in range(lim):
        line = src[ln]
        s = line.strip()
        if re.match(r"^return Err\(.*\);$", s) or re.match(r"^(new_enr|self)\.[a-z_]+ = .*;$", s) or re.match(r"^\*self = .*;$", s):
            n += 1
            name = "%04d" % n
            a = "\n".join(src)
            b = "\n".join(src[:ln] + src[ln + 1:])
            open("/tmp/mutsweep3_w/a/" + f, "w").write(a)
            open("/tmp/mutsweep3_w/b/" + f, "w").write(b)
            d = subprocess.run(["diff", "-u", "a/" + f, "b/" + f], cwd="/tmp/mutsweep3_w", stdout=subprocess.PIPE, text=True).stdout
            open(os.path.join(OUT, name + ".patch"), "w").write(d)
            meta[name] = {"file": f, "line": ln + 1, "old": s, "new": "<removed>"}
json.dump(meta, open(os.path.join(OUT, "meta.json"), "w"), indent=1)
print(n, "mutants")
