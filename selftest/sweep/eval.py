import sys, json, os
sys.path.insert(0,'/verif/selftest'); sys.path.insert(0,'/verif/analysis')
import run as R
from concurrent.futures import ProcessPoolExecutor
def work(name):
    p='/tmp/mutsweep/%s.patch'%name
    try:
        res,err=R.run_on_patch(p, R.built_props())
    except Exception as e:
        return name, None, 'exception %r'%(e,)
    if err: return name, None, err[:200]
    return name, {k:[v.key for v in vs] for k,vs in res.items() if vs}, None
meta=json.load(open('/tmp/mutsweep/meta.json'))
out={}
with ProcessPoolExecutor(max_workers=int(sys.argv[1]) if len(sys.argv)>1 else 8) as ex:
    for name,c,err in ex.map(work, sorted(meta)):
        out[name]={'caught':c,'err':err}
        st='ERR' if err else ('CAUGHT' if c else 'SILENT')
        print(st, name, meta[name]['file'], meta[name]['line'], '|', meta[name]['old'][:70], '=>', meta[name]['new'][:70], '|', (sorted(c)[:6] if c else (err or '')[:60]))
        sys.stdout.flush()
json.dump(out, open('/tmp/mutsweep/result.json','w'), indent=1)
