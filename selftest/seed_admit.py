#!/usr/bin/env python3
"""Confirm an independently produced seeded change and file it under
/verif/seeded/<name>/:

  seed_admit.py <outdir> <name> <change.diff> <test-name-prefix> <property> [--features "<cargo feature args>"] [--needs "<text>"]

Confirms, in a scratch copy outside /repo and /verif (removed afterwards):
  * the change applies, the crate compiles and the repo's own suite passes,
  * the demonstration test passes WITHOUT the change and fails WITH it,
then runs every built rule pack on the changed tree and records which report.
"""
import argparse, json, os, shutil, subprocess, sys, tempfile, time
HERE = os.path.dirname(os.path.abspath(__file__))
VERIF = os.path.dirname(HERE)
sys.path.insert(0, HERE)
import run as R  # noqa

TARGET = "/tmp/enr-seed-target"


def cargo(d, args, feats):
    env = dict(os.environ, CARGO_NET_OFFLINE="true", CARGO_TARGET_DIR=TARGET)
    p = subprocess.run(["cargo"] + args + ["--offline"] + feats, cwd=d, env=env, stdout=subprocess.PIPE, stderr=subprocess.STDOUT, text=True)
    return p.returncode, p.stdout


def main():
    ap = argparse.ArgumentParser()
    ap.add_argument("outdir"); ap.add_argument("name"); ap.add_argument("diff"); ap.add_argument("prefix"); ap.add_argument("prop")
    ap.add_argument("--features", default=""); ap.add_argument("--needs", default=""); ap.add_argument("--what", default="")
    a = ap.parse_args()
    feats = a.features.split() if a.features else []
    diff = os.path.join(a.outdir, a.diff)
    demo = os.path.join(a.outdir, "demo.rs")
    ran = []
    # 1. clean tree: demo passes
    d = R.scratch_copy()
    # the target directory is shared between admissions: make cargo rebuild from this copy
    for root, _, files in os.walk(os.path.join(d, "src")):
        for f in files:
            os.utime(os.path.join(root, f), None)
    try:
        shutil.copy(demo, os.path.join(d, "tests", "demo.rs"))
        rc, out = cargo(d, ["test", "--test", "demo", a.prefix], feats)
        ran.append("clean: cargo test --test demo %s %s -> rc=%d" % (a.prefix, a.features, rc))
        clean_ok = rc == 0 and "test result: ok" in out and " 0 passed" not in out.split("test result: ok")[-1][:40]
        print("clean tree demo:", "PASS" if clean_ok else "FAIL"); 
        if not clean_ok: print(out[-1500:])
        # 2. with change: suite passes, demo fails
        R.apply_patch(d, diff)
        os.remove(os.path.join(d, "tests", "demo.rs"))
        rc, out = cargo(d, ["test", "--workspace", "--no-fail-fast"], [])
        suite_ok = rc == 0
        ran.append("changed: cargo test --workspace --no-fail-fast -> rc=%d" % rc)
        print("changed tree suite:", "PASS" if suite_ok else "FAIL")
        if not suite_ok: print(out[-1500:])
        shutil.copy(demo, os.path.join(d, "tests", "demo.rs"))
        rc, out = cargo(d, ["test", "--test", "demo", a.prefix], feats)
        ran.append("changed: cargo test --test demo %s %s -> rc=%d" % (a.prefix, a.features, rc))
        demo_fails = rc != 0 and "FAILED" in out
        print("changed tree demo:", "FAILS (good)" if demo_fails else "does not fail")
        if not demo_fails: print(out[-1500:])
        os.remove(os.path.join(d, "tests", "demo.rs"))
    finally:
        shutil.rmtree(d, ignore_errors=True)
    confirmed = clean_ok and suite_ok and demo_fails
    # 3. my checks
    res, err = R.run_on_patch(diff, R.built_props())
    caught = {}
    if err:
        print("checks: extraction error", err[:300])
    else:
        for p, viols in res.items():
            if viols:
                caught[p] = [v.key for v in viols]
    print("checks reporting:", json.dumps(caught, indent=1))
    if confirmed:
        dst = os.path.join(VERIF, "seeded", a.name)
        os.makedirs(dst, exist_ok=True)
        shutil.copy(diff, os.path.join(dst, "patch.diff"))
        shutil.copy(demo, os.path.join(dst, "demo.rs"))
        meta = {"breaks": a.prop, "what": a.what, "needs_to_manifest": a.needs, "demo_test": a.prefix, "demo_features": a.features,
                "confirmed": {"suite_passes_with_change": suite_ok, "demo_passes_without": clean_ok, "demo_fails_with": demo_fails, "commands": ran},
                "caught_by": caught, "origin": "independent sub-agent given only the property text", "admitted_at_repo": subprocess.check_output(["git", "-C", "/repo", "rev-parse", "--short", "HEAD"], text=True).strip()}
        json.dump(meta, open(os.path.join(dst, "meta.json"), "w"), indent=1)
        print("FILED", dst)
    else:
        print("NOT CONFIRMED - not filed")

if __name__ == "__main__":
    main()
