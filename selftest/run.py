#!/usr/bin/env python3
"""E5 - test the checker both ways.

  run.py mutants [name...]   every mutant patch must make the named property's
                             check report a violation whose key contains the
                             expected fragment
  run.py benign  [name...]   every behaviour-preserving patch must leave every
                             built rule pack silent
  run.py admit <patch>       confirm a candidate patch compiles in the quick
                             configs and passes the repo's own test-suite

Patches are applied to a scratch copy of /repo outside /repo and /verif which
is removed afterwards.  Nothing here is a registered check.
"""
import json
import os
import shutil
import subprocess
import sys
import tempfile

HERE = os.path.dirname(os.path.abspath(__file__))
VERIF = os.path.dirname(HERE)
sys.path.insert(0, os.path.join(VERIF, "analysis"))
import check  # noqa: E402
import extract as ex  # noqa: E402

REPO = "/repo"


def scratch_copy():
    d = tempfile.mkdtemp(prefix="enr-selftest-")
    for name in ("Cargo.toml", "Cargo.lock", "src", "tests", "README.md"):
        p = os.path.join(REPO, name)
        if os.path.isdir(p):
            shutil.copytree(p, os.path.join(d, name))
        elif os.path.exists(p):
            shutil.copy(p, os.path.join(d, name))
    return d


def apply_patch(d, patch):
    r = subprocess.run(["patch", "-p1", "-s", "--no-backup-if-mismatch", "-i", patch], cwd=d, stdout=subprocess.PIPE, stderr=subprocess.STDOUT, text=True)
    if r.returncode != 0:
        raise RuntimeError("patch %s does not apply: %s" % (patch, r.stdout))


def built_props():
    out = []
    for f in sorted(os.listdir(os.path.join(VERIF, "analysis", "rules"))):
        if f.startswith("c") and f.endswith(".py") and f[1:3].isdigit():
            out.append(f[:-3].upper())
    return out


def load_meta(kind):
    with open(os.path.join(HERE, kind, "meta.json")) as f:
        return json.load(f)


def run_on_patch(patch, props):
    d = scratch_copy()
    try:
        apply_patch(d, patch)
        try:
            facts = ex.extract(ex.QUICK_CONFIGS, repo=d)
        except ex.ExtractError as e:
            return None, "does not compile in config %s:\n%s" % (e.config, e.log[-800:])
        res = {}
        for p in props:
            rep, viols = check.run_property(p, "quick", repo=d, facts_by_config=facts, write=False, quiet=True)
            res[p] = viols
        return res, None
    finally:
        shutil.rmtree(d, ignore_errors=True)


def cmd_mutants(names):
    meta = load_meta("mutants")
    props_built = built_props()
    ok = True
    for name, m in sorted(meta.items()):
        if names and name not in names:
            continue
        expected = m["expect"]  # list of [prop, key fragment]
        todo = [e for e in expected if e[0] in props_built]
        if not todo:
            print("SKIP   %-32s (rule pack %s not built yet)" % (name, ",".join(e[0] for e in expected)))
            continue
        res, err = run_on_patch(os.path.join(HERE, "mutants", name + ".patch"), sorted({e[0] for e in todo}))
        if err:
            print("ERROR  %-32s %s" % (name, err))
            ok = False
            continue
        for prop, frag in todo:
            hits = [v for v in res[prop] if frag in v.key]
            if hits:
                print("CAUGHT %-32s %s: %s" % (name, prop, hits[0].key))
            else:
                ok = False
                print("MISSED %-32s %s expected key containing %r; got %s" % (name, prop, frag, [v.key for v in res[prop]]))
    return ok


def cmd_benign(names):
    meta = load_meta("benign")
    props = built_props()
    ok = True
    for name, m in sorted(meta.items()):
        if names and name not in names:
            continue
        res, err = run_on_patch(os.path.join(HERE, "benign", name + ".patch"), props)
        if err:
            print("ERROR  %-32s %s" % (name, err))
            ok = False
            continue
        alarms = [(p, v.key) for p in props for v in res[p]]
        if alarms:
            ok = False
            print("ALARM  %-32s %s" % (name, alarms))
        else:
            print("SILENT %-32s (%d rule packs)" % (name, len(props)))
    return ok


def cmd_admit(patch):
    d = scratch_copy()
    tgt = tempfile.mkdtemp(prefix="enr-selftest-target-")
    try:
        apply_patch(d, os.path.abspath(patch))
        env = dict(os.environ, CARGO_NET_OFFLINE="true", CARGO_TARGET_DIR=tgt)
        r = subprocess.run(["cargo", "test", "--workspace", "--no-fail-fast", "--offline"], cwd=d, env=env, stdout=subprocess.PIPE, stderr=subprocess.STDOUT, text=True)
        lines = [l for l in r.stdout.splitlines() if l.startswith("test result") or "FAILED" in l or l.startswith("error")]
        print("\n".join(lines[-12:]))
        print("ADMIT" if r.returncode == 0 else "REJECT (suite fails or does not compile)")
        return r.returncode == 0
    finally:
        shutil.rmtree(d, ignore_errors=True)
        shutil.rmtree(tgt, ignore_errors=True)


if __name__ == "__main__":
    cmd = sys.argv[1]
    if cmd == "mutants":
        sys.exit(0 if cmd_mutants(sys.argv[2:]) else 1)
    if cmd == "benign":
        sys.exit(0 if cmd_benign(sys.argv[2:]) else 1)
    if cmd == "admit":
        sys.exit(0 if cmd_admit(sys.argv[2]) else 1)
